"""R0: internal names restored to the reviewed ones.

The rules of this repository are written against the names the reviewed tree uses for its private members (`num_bits_set_`,
`copy_or_downsample`, `lg_cur_size_`, ...).  Renaming such a member changes no behaviour, so it must change no verdict.  Instead of
teaching every rule every possible name, the facts of the current tree are relabelled before any rule (and the normaliser) sees
them:

  * spec/names.json is a snapshot of the reviewed tree: per class template the ordered (name, type) list of its data members, per
    function (class, name, arity) a structural digest of its body that contains no names at all, its return type and the names of
    its parameters and locals;
  * the same snapshot is taken of the current tree.  A name of the reviewed snapshot that no longer exists in its class ("vanished")
    and a name of the current snapshot that the reviewed one does not have ("fresh") are paired when the correspondence is
    unambiguous: data members by type and position in the member list, functions by the name-free digest of the body (then by
    signature), parameters by position, locals by position when the sequence of local types is unchanged;
  * the pairs are applied to the facts (function names, resolved callee names, member accesses, constructor initialisers, record
    fields, parameter / local names).  Locations are untouched, so reports still point at the real file and line.

Only labels change, and only for names that exist in exactly one of the two trees, so an edit that replaces one existing member by
another existing member is never hidden.  Everything that is relabelled is listed in the evidence (`names restored`)."""
import hashlib
import json
import os

SPEC = os.path.join(os.path.dirname(os.path.dirname(os.path.abspath(__file__))), "spec", "names.json")


def _walk(n, f):
    if isinstance(n, dict):
        f(n)
        for v in n.values():
            if isinstance(v, (dict, list)):
                _walk(v, f)
    elif isinstance(n, list):
        for v in n:
            _walk(v, f)


def body_digest(fn):
    """structure of the body without any name: node kinds, operators, literals, standard-library callees (which cannot be renamed
    by an edit of this repository)"""
    toks = []

    def v(n):
        k = n.get("k")
        if not k:
            return
        t = k
        for a in ("op", "lit", "post"):
            if a in n and n[a] not in (None, False):
                t += ":%s" % n[a]
        if k == "Call" and str(n.get("cpat") or "").startswith("/usr/"):
            t += ":" + str(n.get("cname"))
        if k in ("Bool",):
            t += ":%s" % n.get("b")
        toks.append(t)
    _walk(fn.get("body"), v)
    _walk(fn.get("inits") or [], v)
    return hashlib.sha256(" ".join(sorted(toks)).encode()).hexdigest()[:16], len(toks)


def _locals(fn):
    out = []

    def v(n):
        if n.get("k") == "Decl":
            for x in n.get("vars", []):
                if "d" in x and x.get("n"):
                    out.append((x.get("loc") or "", x["n"], x.get("t") or "", x["d"]))
        if n.get("k") == "RangeFor" and isinstance(n.get("var"), dict) and n["var"].get("n") and "d" in n["var"]:
            out.append((n["var"].get("loc") or n.get("loc") or "", n["var"]["n"], n["var"].get("t") or "", n["var"]["d"]))
    _walk(fn.get("body"), v)

    def lk(s):
        p = str(s[0]).split(":")
        try:
            return (p[0], int(p[1]), int(p[2]) if len(p) > 2 else 0)
        except Exception:
            return (str(s[0]), 0, 0)
    out.sort(key=lk)
    return out


def _lk(loc):
    p = str(loc).split(":")
    try:
        return (p[0], int(p[1]), int(p[2]) if len(p) > 2 else 0)
    except Exception:
        return (str(loc), 0, 0)


def snapshot(datas):
    """datas: the raw exported facts of all drivers -> {"records": {tmpl: [[name, type], ..]}, "functions": {cls: [{..}]}}"""
    recs = {}
    fns = {}
    seen = set()
    for d in datas:
        for r in d.get("records", []):
            t = r.get("tmpl") or r.get("qname")
            if not t or t == "(anonymous)":
                continue
            fl = [[f.get("n"), f.get("ts") or f.get("t") or ""] for f in r.get("fields", []) if f.get("n")]
            if len(fl) > len(recs.get(t, [])):
                recs[t] = fl
        for f in d.get("functions", []):
            if f.get("body") is None or f.get("implicit") or not f.get("pat"):
                continue
            if f["pat"] in seen:
                continue
            seen.add(f["pat"])
            cls = f.get("rect") or ""
            dg, n = body_digest(f)
            fns.setdefault(cls, []).append({"name": f["name"], "np": len(f.get("params") or []), "digest": dg, "size": n, "ret": f.get("ret") or "",
                                            "static": bool(f.get("static")), "const": bool(f.get("const")), "kind": f.get("kind"),
                                            "params": [p.get("n") or "" for p in f.get("params") or []],
                                            "locals": [[x[1], x[2]] for x in _locals(f)], "file": str(f["pat"]).split("/")[0]})
    globs = {}
    gseen = set()
    for d in datas:
        for g in d.get("globals", []):
            q = g.get("qname") or ""
            if q in gseen or not g.get("const") or isinstance(g.get("value"), (list, dict)) or g.get("value") is None:
                continue
            gseen.add(q)
            scope, _, nm = q.rpartition("::")
            globs.setdefault(scope, []).append([nm, g.get("t") or "", g.get("value"), g.get("loc") or ""])
    for sc in globs:
        globs[sc].sort(key=lambda x: _lk(x[3]))
    return {"records": recs, "functions": fns, "globals": globs}


def compute_map(rev, cur):
    """{"fields": {tmpl: {new: old}}, "functions": {cls: {"new/np": old}}, "params": {cls: {"name/np/digest": [old names]}},
    "locals": {...}} from the reviewed and the current snapshot"""
    import difflib
    m = {"fields": {}, "functions": {}, "params": {}, "locals": {}}
    for t, rf in rev["records"].items():
        cf = cur["records"].get(t)
        if not cf:
            continue
        rn, cn = [x[0] for x in rf], [x[0] for x in cf]
        if rn == cn:
            continue
        van = [x for x in rf if x[0] not in cn]
        fre = [x for x in cf if x[0] not in rn]
        if not van or not fre:
            continue
        pairs = {}
        sm = difflib.SequenceMatcher(a=rn, b=cn, autojunk=False)
        for tag, i1, i2, j1, j2 in sm.get_opcodes():
            if tag != "replace":
                continue
            olds, news = rf[i1:i2], cf[j1:j2]
            olds = [x for x in olds if x[0] not in cn]
            news = [x for x in news if x[0] not in rn]
            if len(olds) == len(news):
                for o, n in zip(olds, news):
                    if _same_type(o[1], n[1]):
                        pairs[n[0]] = o[0]
            else:
                # members were added / removed next to renamed ones: align the two runs on their (exact) types
                sm2 = difflib.SequenceMatcher(a=[x[1] for x in olds], b=[x[1] for x in news], autojunk=False)
                for tag2, a1, a2, b1, b2 in sm2.get_opcodes():
                    if tag2 == "equal":
                        for o, n in zip(olds[a1:a2], news[b1:b2]):
                            pairs[n[0]] = o[0]
                for o in olds:
                    if o[0] in pairs.values():
                        continue
                    c = [n for n in news if _same_type(o[1], n[1]) and n[0] not in pairs]
                    if len(c) == 1:
                        pairs[c[0][0]] = o[0]
        # members that also moved inside the list: one vanished and one fresh member of a type that nothing else has
        for o in van:
            if o[0] in pairs.values():
                continue
            c = [n for n in fre if n[0] not in pairs and _same_type(o[1], n[1])]
            o2 = [x for x in van if x[0] not in pairs.values() and _same_type(x[1], o[1])]
            if len(c) == 1 and len(o2) == 1:
                pairs[c[0][0]] = o[0]
        if pairs:
            m["fields"][t] = pairs
    for cls, rl in rev["functions"].items():
        cl = cur["functions"].get(cls)
        if not cl:
            continue
        rnames = {f["name"] for f in rl}
        cnames = {f["name"] for f in cl}
        van, fre = {}, {}
        for f in rl:
            if f["name"] not in cnames:
                van.setdefault(f["name"], []).append(f)
        for f in cl:
            if f["name"] not in rnames:
                fre.setdefault(f["name"], []).append(f)
        pairs = {}

        def match(ol, nl, key):
            """the overloads of one vanished name against the overloads of one fresh name: a bijection of matching pairs"""
            if len(ol) != len(nl):
                return False
            rest = list(nl)
            for o in ol:
                c = [n for n in rest if n["np"] == o["np"] and n["kind"] == o["kind"] and (n["digest"] == o["digest"] if key == "digest" else (n["ret"] == o["ret"] and n["static"] == o["static"] and n["const"] == o["const"]))]
                if not c:
                    return False
                rest.remove(c[0])
            return True
        for key in ("digest", "sig"):
            cand = {}
            for on, ol in van.items():
                if on in pairs.values():
                    continue
                cand[on] = [nn for nn, nl in fre.items() if nn not in pairs and match(ol, nl, key)]
            for on, c in cand.items():
                if len(c) == 1 and sum(1 for o2, c2 in cand.items() if c[0] in c2) == 1:
                    pairs[c[0]] = on
            # several helpers of one shape renamed together (check_family_id / check_serial_version -> validate_..): within a group
            # of vanished names that share one candidate set of the same size, the names themselves decide (closest spelling)
            groups = {}
            for on, c in cand.items():
                if on not in pairs.values() and len(c) > 1:
                    groups.setdefault(tuple(sorted(x for x in c if x not in pairs)), []).append(on)
            for cs, ons in groups.items():
                if len(cs) != len(ons):
                    continue
                left, assign = list(cs), {}
                ok = True
                for on in sorted(ons):
                    sc = sorted(((difflib.SequenceMatcher(a=on.lower(), b=nn.lower()).ratio(), nn) for nn in left), reverse=True)
                    if not sc or sc[0][0] < 0.5 or (len(sc) > 1 and sc[0][0] - sc[1][0] < 0.05):
                        ok = False
                        break
                    assign[sc[0][1]] = on
                    left.remove(sc[0][1])
                if ok:
                    pairs.update(assign)
        if pairs:
            m["functions"][cls] = pairs
    # named constants (namespace / class scope): same scope, same type, same value, unambiguous
    m["constants"] = {}
    for sc, rl in (rev.get("globals") or {}).items():
        cl = (cur.get("globals") or {}).get(sc)
        if not cl:
            continue
        rn, cn = {x[0] for x in rl}, {x[0] for x in cl}
        van = [x for x in rl if x[0] not in cn]
        fre = [x for x in cl if x[0] not in rn]
        pairs = {}
        for o in van:
            c = [n for n in fre if n[0] not in pairs and _same_type(n[1], o[1]) and n[2] == o[2]]
            o2 = [x for x in van if _same_type(x[1], o[1]) and x[2] == o[2]]
            if len(c) == 1 and len(o2) == 1:
                pairs[c[0][0]] = o[0]
            elif len(c) == len(o2) and len(c) > 1:
                sc_ = sorted(((difflib.SequenceMatcher(a=o[0].lower(), b=n[0].lower()).ratio(), n[0]) for n in c), reverse=True)
                if sc_[0][0] >= 0.5 and sc_[0][0] - sc_[1][0] >= 0.05:
                    pairs[sc_[0][1]] = o[0]
        if pairs:
            m["constants"][sc] = pairs
    # parameters and locals of functions that exist (after the relabelling) in both snapshots
    for cls, cl in cur["functions"].items():
        rl = rev["functions"].get(cls) or []
        fmap = m["functions"].get(cls, {})
        for f in cl:
            old_name = fmap.get(f["name"], f["name"])
            cands = [r for r in rl if r["name"] == old_name and r["np"] == f["np"]]
            twins = [g for g in cl if g["name"] == f["name"] and g["np"] == f["np"]]
            if len(cands) > 1 or len(twins) > 1:
                # overload sets (SFINAE pairs, const / non-const): only the overload with the very same body
                cands = [r for r in cands if r["digest"] == f["digest"]]
            if len(cands) != 1:
                continue
            r = cands[0]
            key = "%s/%d/%s" % (f["name"], f["np"], f["digest"])
            if r["params"] != f["params"] and all(r["params"]) and all(f["params"]):
                m["params"].setdefault(cls, {})[key] = r["params"]
            if r["locals"] != f["locals"] and [x[1] for x in r["locals"]] == [x[1] for x in f["locals"]] and r["digest"] == f["digest"]:
                m["locals"].setdefault(cls, {})[key] = [x[0] for x in r["locals"]]
    return m


def _same_type(a, b):
    return (a or "").replace("const ", "").strip() == (b or "").replace("const ", "").strip()


def is_empty(m):
    return not (m["fields"] or m["functions"] or m["params"] or m["locals"] or m.get("constants"))


def describe(m):
    out = []
    for t, p in sorted(m["fields"].items()):
        for n, o in sorted(p.items()):
            out.append("%s::%s (reviewed name %s)" % (t.replace("datasketches::", ""), n, o))
    for c, p in sorted(m["functions"].items()):
        for n, o in sorted(p.items()):
            out.append("%s::%s() (reviewed name %s)" % (c.replace("datasketches::", ""), n, o))
    seen = set()
    for c, p in sorted((m.get("constants") or {}).items()):
        for n, o in sorted(p.items()):
            t = "%s::%s (reviewed name %s)" % (c.replace("datasketches::", "").split("<")[0], n, o)
            if t not in seen:
                seen.add(t)
                out.append(t)
    np_ = sum(len(v) for v in m["params"].values())
    nl = sum(len(v) for v in m["locals"].values())
    if np_ or nl:
        out.append("parameter names of %d and local names of %d functions" % (np_, nl))
    return out


def apply(data, m):
    """relabel one driver's facts in place"""
    if is_empty(m):
        return data
    fld = m["fields"]
    # pattern location -> reviewed name of the function defined there
    pat_old = {}
    for f in data.get("functions", []):
        cls = f.get("rect") or ""
        old = m["functions"].get(cls, {}).get(f["name"])
        if old is not None and f.get("pat"):
            pat_old[f["pat"]] = (f["name"], old)
    bases = {}
    for r in data.get("records", []):
        t = r.get("tmpl") or r.get("qname")
        bases.setdefault(t, set()).update((b.split("<")[0]) for b in r.get("bases", []))

    def field_old(rec, name, depth=0):
        p = fld.get(rec)
        if p and name in p:
            return p[name]
        if depth < 4:
            for b in bases.get(rec, ()):
                o = field_old(b, name, depth + 1)
                if o is not None:
                    return o
        return None
    cq = {}
    for sc, p in (m.get("constants") or {}).items():
        for n, o in p.items():
            cq[(sc + "::" + n) if sc else n] = ((sc + "::" + o) if sc else o, o)
    for g in data.get("globals", []):
        if g.get("qname") in cq:
            g["qname"] = cq[g["qname"]][0]
    for r in data.get("records", []):
        t = r.get("tmpl") or r.get("qname")
        p = fld.get(t)
        if p:
            for f in r.get("fields", []):
                if f.get("n") in p:
                    f["n"] = p[f["n"]]
    for f in data.get("functions", []):
        cls = f.get("rect") or ""
        key = None
        if f.get("body") is not None:
            key = "%s/%d/%s" % (f["name"], len(f.get("params") or []), body_digest(f)[0])
        ren_d = {}
        pn = m["params"].get(cls, {}).get(key) if key else None
        if pn and len(pn) == len(f.get("params") or []):
            for p_, o in zip(f["params"], pn):
                if "d" in p_ and p_.get("n") and p_.get("n") != o:
                    ren_d[p_["d"]] = o
                    p_["n"] = o
        ln = m["locals"].get(cls, {}).get(key) if key else None
        if ln:
            ls = _locals(f)
            if len(ls) == len(ln):
                for x, o in zip(ls, ln):
                    if x[1] != o:
                        ren_d[x[3]] = o
        if f.get("pat") in pat_old:
            new, old = pat_old[f["pat"]]
            f["name"] = old
            for k in ("qname", "patq"):
                if isinstance(f.get(k), str) and f[k].endswith("::" + new):
                    f[k] = f[k][:-len(new)] + old
                elif f.get(k) == new:
                    f[k] = old

        def v(n):
            k = n.get("k")
            if k == "Call" and n.get("cpat") in pat_old:
                new, old = pat_old[n["cpat"]]
                if n.get("cname") == new:
                    n["cname"] = old
                if isinstance(n.get("callee"), str) and n["callee"].endswith("::" + new):
                    n["callee"] = n["callee"][:-len(new)] + old
            elif k == "Member" and n.get("isfield") and n.get("rec"):
                o = field_old(n["rec"], n.get("f"))
                if o is not None:
                    n["f"] = o
            elif k == "Member" and n.get("ismethod") and n.get("rec"):
                o = m["functions"].get(n["rec"], {}).get(n.get("f"))
                if o is not None:
                    n["f"] = o
            elif k in ("Ref", "Member") and n.get("q") in cq:
                n["q"], nm = cq[n["q"]]
                if k == "Ref":
                    n["n"] = nm
                else:
                    n["f"] = nm
            elif k == "Ref" and n.get("d") in ren_d:
                n["n"] = ren_d[n["d"]]
            elif k == "Ref" and n.get("dk") == "field" and cls:
                o = field_old(cls, n.get("n"))
                if o is not None:
                    n["n"] = o
            if k == "Decl":
                for x in n.get("vars", []):
                    if x.get("d") in ren_d:
                        x["n"] = ren_d[x["d"]]
            if k == "RangeFor" and isinstance(n.get("var"), dict) and n["var"].get("d") in ren_d:
                n["var"]["n"] = ren_d[n["var"]["d"]]
        _walk(f.get("body"), v)
        for i in f.get("inits") or []:
            if i.get("field"):
                o = field_old(cls, i["field"])
                if o is not None:
                    i["field"] = o
            _walk(i, v)
    return data


def reviewed():
    if not os.path.exists(SPEC):
        return None
    with open(SPEC) as f:
        return json.load(f)
