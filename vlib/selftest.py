"""Checker self-validation against the seeded changes in /verif/seeded: each patch is applied to a scratch copy of /repo's
headers (outside /repo and /verif, removed afterwards) and the property's rules are re-run on that copy."""
import glob
import importlib
import json
import os
import shutil
import subprocess
import tempfile

from vlib import core


def scratch_copy(repo):
    d = tempfile.mkdtemp(prefix="verif_scratch_", dir=os.environ.get("VERIF_SCRATCH", "/tmp"))
    for fam in core.FAMILIES:
        src = os.path.join(repo, fam, "include")
        if os.path.isdir(src):
            os.makedirs(os.path.join(d, fam), exist_ok=True)
            shutil.copytree(src, os.path.join(d, fam, "include"))
    return d


def apply_patch(scratch, patch):
    r = subprocess.run(["patch", "-p1", "-s", "-f", "-d", scratch, "-i", patch], capture_output=True, text=True)
    return r.returncode == 0, (r.stdout + r.stderr)[-300:]


def run_property(pid, repo, tier="quick"):
    mod = importlib.import_module("props." + pid.lower())
    facts = core.Facts(tier, repo)
    res = mod.run(facts, tier)
    known = {(k["rule"], k["key"]) for k in core.load_known().get("known", []) if k["property"] == pid}
    viol = [o for o in res["obligations"] if o["status"] == "violated" and (o["rule"], o["key"]) not in known]
    return viol


def seeds():
    out = []
    for m in sorted(glob.glob(os.path.join(core.VERIF, "seeded", "*", "meta.json"))):
        try:
            meta = json.load(open(m))
        except Exception:
            continue
        meta["_dir"] = os.path.dirname(m)
        out.append(meta)
    return out


def selftest(pid, tier="quick"):
    """returns list of {seed, expected, detected, applies, keys}; expected = seeds that list pid in `caught_by`"""
    results = []
    for meta in seeds():
        if pid not in meta.get("caught_by", []):
            continue
        sc = scratch_copy(core.REPO)
        try:
            ok, msg = apply_patch(sc, os.path.join(meta["_dir"], "patch.diff"))
            if not ok:
                results.append({"seed": os.path.basename(meta["_dir"]), "applies": False, "detected": None, "note": msg.strip()[-120:]})
                continue
            try:
                viol = run_property(pid, sc, tier)
                results.append({"seed": os.path.basename(meta["_dir"]), "applies": True, "detected": bool(viol), "keys": sorted({"%s|%s" % (o["rule"], o["key"]) for o in viol})[:4]})
            except core.AnalysisBroken as e:
                results.append({"seed": os.path.basename(meta["_dir"]), "applies": True, "detected": None, "note": "analysis broken on the mutated copy: %s" % str(e)[:160]})
        finally:
            shutil.rmtree(sc, ignore_errors=True)
    return results
