"""Semantics-preserving normalisation of exported function bodies, applied once when facts are loaded, so that every rule sees
one canonical form of constructs that maintainers routinely rewrite into each other:

  E1  !(a == b) -> a != b ; !(a != b) -> a == b ; !(a < b) -> a >= b ... ; !!a -> a          (integral / pointer / bool operands only)
  E2  comparisons are oriented: the operand with the smaller text on the left (a > b  ==  b < a)
  E3  (a < b) ? a : b and friends -> min(a, b) / max(a, b); arguments of min / max sorted by text (for floating operands only
      the strict forms are rewritten; the canonical argument order differs from the source only for NaN / signed zeros, which no
      rule decides through these expressions)
  E5  for unsigned X (own type unsigned, or unsigned char / short promoted): 0 < X, 1 <= X -> 0 != X ; 0 >= X, 1 > X -> 0 == X
  E6  0 != (a & b) -> (a & b) used as a bool ; 0 == (a & b) -> !(a & b)          (bit tests are written implicitly in this code base)
  E7  c ? true : false -> c ; c ? false : true -> !c
  E8  (*p).f -> p->f (printed p.f), for pointers and for overloaded operator* / operator-> alike
  E9  x << 0, x >> 0, x + 0, x - 0, x | 0, x ^ 0, x * 1 -> x   (integers, when the type of the result is the type of x)
  E4  x += 1, x = x + 1, x++ (value unused) -> ++x ; likewise --x
  E10 / S1  one polarity for two-armed choices: (!c | x != y | x <= y | x >= y) ? a : b -> (c | x == y | x > y | x < y) ? b : a, and
      likewise for if / else (integer comparisons only)
  S1  if (!c) A else B -> if (c) B else A
  S2  if (c) { ...always exits } else B  ->  if (c) { ... } ; B            (else after return / throw)
  S3  if (a) { if (b) X }  ->  if (a && b) X                                (no else on either)
  S6  for (T i = 0; i < X.size(); ++i) { .. X[i] .. } with i used only as the index of the plain member / variable X -> range-for over X
  S9  for (auto it = X.begin(); it != X.end(); ++it) { .. *it .. it->m .. } with it used only dereferenced -> range-for over X
  S7a while (c(x)) { B; ++x; } (no continue) -> for (; c(x); ++x) { B }
  S7  T i = a; while (c(i)) { body; ++i; } (no continue, i dead afterwards) -> for (T i = a; c(i); ++i) body
  S4  a void function body / a loop body that ends with `if (a && b) { X }` -> `if (!a) return / continue; if (!b) ...; X` (guard-clause form)
  S8  if (a > b) a = b; -> a = min(a, b); if (a < b) a = b; -> a = max(a, b)   (integers)
  E11 x * 2^K -> x << K, unsigned x / 2^K -> x >> K, unsigned x % 2^K -> x & (2^K - 1) ;  E12 2 * i -> i * 2 ;  E17 (x & A) | (x & B) -> x & (A | B) ;  E18 named floating constant -> its value ;  E15 const integral local initialised with a literal / named constant reads as that value ;  E14 !(a && b) -> !a || !b ;  E13 X.empty() -> X.size() == 0 (std containers) ;  S13b if (c) f |= v; -> f |= c ? v : 0 ;  S16 T x; x = e; -> T x = e ;  S18 while (c1) { if (c2) break; B } -> while (c1 && !c2) { B } ;  S17 T x = a; x |= b; -> T x = a | b ;  S15 pointer cursor over [B, B+N) -> index loop over B ;  S10 if (c) x = a; else x = b; -> x = c ? a : b ;  S13 if (c) b = true; -> b |= c ; if (c) b = false; -> b &= !c  (bool b)
  S14 `T x = a; if (c) x = b;` -> `T x = c ? b : a;`   (a a plain read)
  S12 `if (ok) return; throw X;` at the end of a void function -> `if (!ok) throw X;`
  S5  `while (c) body` and `for (; c; ) body` are both exported as For nodes with empty init / increment

Nothing here changes which values are computed, in which order side effects happen, or which exceptions are thrown."""
FLIP = {"<": ">", ">": "<", "<=": ">=", ">=": "<=", "==": "==", "!=": "!="}
NEG_EQ = {"==": "!=", "!=": "=="}
NEG_ORD = {"<": ">=", ">=": "<", ">": "<=", "<=": ">"}


def _txt(e):
    import astu
    return astu.txt(e)


def _is_float(e):
    t = (e.get("t") or "") if isinstance(e, dict) else ""
    return any(x in t for x in ("float", "double"))


def _strip(e):
    while isinstance(e, dict) and e.get("k") in ("Cast", "Paren") and e.get("e") is not None:
        e = e["e"]
    return e


def _same(a, b):
    return _txt(a).replace(" ", "") == _txt(b).replace(" ", "")


def _lit(x):
    x = _strip(x)
    if isinstance(x, dict) and x.get("k") == "Int":
        return x.get("v")
    if isinstance(x, dict) and x.get("k") == "Sizeof" and isinstance(x.get("v"), int):
        return x.get("v")      # sizeof(T) is a literal of the instantiation
    return None


def _unsigned(x):
    """x (an operand of a comparison) can only hold values >= 0: its own type is unsigned, or it is an unsigned char / short
    promoted to int"""
    if not isinstance(x, dict):
        return False
    t = (x.get("t") or "").replace("const ", "")
    if t.startswith("unsigned"):
        return True
    sx = _strip(x)
    if isinstance(sx, dict) and sx.get("k") == "Bin" and sx.get("op") == "&":
        for side in ("l", "r"):
            o = _strip(sx[side])
            v = o.get("v") if isinstance(o, dict) and o.get("k") not in ("Call", "OpCall", "Assign") and isinstance(o.get("v"), int) and not isinstance(o.get("v"), bool) else None
            if v is not None and v >= 0:
                return True   # masking with a non-negative constant cannot give a negative value
    if x.get("k") in ("Cast", "Paren") and t == "int":
        i = _strip(x)
        ti = ((i or {}).get("t") or "").replace("const ", "") if isinstance(i, dict) else ""
        return ti in ("unsigned char", "unsigned short", "bool")
    return False


def _lit(x):
    x = _strip(x)
    if isinstance(x, dict) and x.get("k") == "Int":
        return x.get("v")
    if isinstance(x, dict) and x.get("k") == "Sizeof" and isinstance(x.get("v"), int):
        return x.get("v")      # sizeof(T) is a literal of the instantiation
    return None


def _boolcast(x, like):
    return {"k": "Cast", "t": "bool", "impl": True, "ck": "IntegralToBoolean", "e": x, "loc": like.get("loc"), "sz": 1, "synth": True}


def _zero_cmp(e):
    """E5: for unsigned X: 0 < X, 1 <= X -> 0 != X ; 0 >= X, 1 > X -> 0 == X.   E6: 0 != (a & b) -> (a & b) as a bool, 0 == (a & b) -> !(a & b)"""
    l, r, op = e["l"], e["r"], e["op"]

    def _klit(x):
        # a literal, or a named integer constant whose value is 0 or 1 (MIN_NUM_STD_DEV = 1): `x < MIN` is `x < 1`
        v0 = _lit(x)
        if v0 is not None:
            return v0
        sx = _strip(x)
        if isinstance(sx, dict) and sx.get("k") in ("Ref", "Member") and isinstance(sx.get("v"), int) and not isinstance(sx.get("v"), bool) \
                and sx.get("v") in (0, 1) and (sx.get("dk") in ("global", "enum") or sx.get("isstatic")) and (_unsigned(r if x is l else l)):
            return sx["v"]
        return None
    if _klit(l) is None and _klit(r) is not None:
        l, r, op = r, l, FLIP[op]
    v = _klit(l)
    if v is None or _klit(r) is not None:
        return e
    x = r
    new = None
    if _unsigned(x):
        if (v == 0 and op == "<") or (v == 1 and op == "<="):
            new = "!="
        elif (v == 0 and op == ">=") or (v == 1 and op == ">"):
            new = "=="
    if new is not None:
        l0 = _strip(l)
        zero = {"k": "Int", "v": 0, "lit": "0", "t": l0.get("t"), "sz": l0.get("sz"), "loc": l0.get("loc")}
        e = dict(e)
        e["l"], e["r"], e["op"] = zero, x, new
        v, op = 0, new
    if v == 0 and op in ("!=", "==") and not _is_float(_strip(x)):
        sx = _strip(x)
        if isinstance(sx, dict) and sx.get("k") == "Bin" and sx.get("op") == "&":
            b = _boolcast(x, e)
            return b if op == "!=" else {"k": "Un", "op": "!", "e": b, "loc": e.get("loc"), "t": "bool", "sz": 1}
    return e


LIGHT = [False]   # light mode: only the loop canonicalisations (S5 / S6 / S7 / S7a / S9), for the byte-level abstract interpreters


def _orient(e):
    try:
        if _txt(e["l"]) > _txt(e["r"]):
            e["l"], e["r"] = e["r"], e["l"]
            e["op"] = FLIP[e["op"]]
    except Exception:
        pass
    return _zero_cmp(e) if e.get("k") == "Bin" and e.get("op") in FLIP else e


def _negatable_choice(c):
    """the condition of a two-armed choice is in the non-canonical polarity: !x, or an integer comparison with != / <= / >="""
    if not isinstance(c, dict):
        return False
    if c.get("k") == "Un" and c.get("op") == "!":
        return True
    if c.get("k") == "Bin" and c.get("op") in ("!=", "<=", ">=", "==") and not _is_float(_strip(c["l"])) and not _is_float(_strip(c["r"])):
        zero = _lit(c["l"]) == 0 or _lit(c["r"]) == 0
        # comparisons with 0 keep the truthiness polarity `0 != x` (an integer used as a condition means exactly that)
        if c["op"] == "!=":
            return not zero
        if c["op"] == "==":
            return zero
        return True
    return False


def norm_expr(e):
    """bottom-up rewrite of one expression node (dicts / lists)"""
    if LIGHT[0]:
        return e
    if isinstance(e, list):
        return [norm_expr(x) for x in e]
    if not isinstance(e, dict):
        return e
    if e.get("k") == "Lambda" and isinstance(e.get("body"), dict):
        r = norm_stmt(e["body"])
        e["body"] = r[0] if len(r) == 1 else {"k": "Block", "s": r, "loc": e["body"].get("loc")}
        return e
    for k, v in list(e.items()):
        if isinstance(v, (dict, list)):
            e[k] = norm_expr(v)
    k = e.get("k")
    if k in ("Ref", "Member") and "fv" in e and (e.get("dk") == "global" or e.get("isstatic")):
        # E18: a named floating constant (const, namespace or class scope) reads as its value
        return {"k": "Float", "f": e["fv"], "t": e.get("t"), "sz": e.get("sz"), "loc": e.get("loc"), "named": e.get("n") or e.get("f")}
    if k == "Member" and isinstance(e.get("b"), dict):
        # E8: (*p).f == p->f (built-in and iterator / smart-pointer dereference alike): the base becomes p
        b = _strip(e["b"])
        if isinstance(b, dict) and b.get("k") == "Un" and b.get("op") == "*" and not b.get("post"):
            e["b"] = b["e"]
        elif isinstance(b, dict) and b.get("k") == "OpCall" and b.get("op") in ("*", "->") and len(b.get("args", [])) == 1:
            e["b"] = b["args"][0]
    if k == "Call" and e.get("cname") == "empty" and not e.get("args") and e.get("obj") is not None and (e.get("crec") or "").startswith("std::") \
            and (e.get("crec") or "").split("<")[0] in ("std::vector", "std::basic_string", "std::deque", "std::list", "std::map", "std::set", "std::unordered_map", "std::unordered_set", "std::array"):
        # E13: X.empty() -> X.size() == 0 for standard containers
        sz = dict(e, cname="size", callee=(e.get("callee") or "").replace("::empty", "::size"), t="unsigned long", sz=8, synth=True)
        sz.pop("cpat", None)
        return norm_expr({"k": "Bin", "op": "==", "l": sz, "r": {"k": "Int", "v": 0, "lit": "0", "t": "unsigned long", "sz": 8, "loc": e.get("loc")}, "t": "bool", "sz": 1, "loc": e.get("loc"), "synth": True})
    if k == "Un" and e.get("op") == "!":
        inner = _strip(e.get("e"))
        if isinstance(inner, dict) and inner.get("k") == "Un" and inner.get("op") == "!":
            return inner["e"]
        if isinstance(inner, dict) and inner.get("k") == "Bin" and inner.get("op") in ("&&", "||"):
            # E14 (negation normal form): !(a && b) -> !a || !b ; !(a || b) -> !a && !b
            def neg1(x):
                return norm_expr({"k": "Un", "op": "!", "e": x, "loc": (x or {}).get("loc") if isinstance(x, dict) else None, "t": "bool", "sz": 1, "post": False})
            n = dict(inner)
            n["op"] = "||" if inner["op"] == "&&" else "&&"
            n["l"], n["r"] = neg1(inner["l"]), neg1(inner["r"])
            return n
        if isinstance(inner, dict) and inner.get("k") == "Bin" and inner.get("op") in NEG_EQ and not _is_float(_strip(inner["l"])) and not _is_float(_strip(inner["r"])):
            n = dict(inner)
            n["op"] = NEG_EQ[inner["op"]]
            return n
        if isinstance(inner, dict) and inner.get("k") == "Bin" and inner.get("op") in NEG_ORD and not _is_float(_strip(inner["l"])) and not _is_float(_strip(inner["r"])):
            n = dict(inner)
            n["op"] = NEG_ORD[inner["op"]]
            return norm_expr(n) if False else _orient(n)
    if k == "Bin" and e.get("op") in ("<<", ">>", "+", "-", "|", "^", "*") and not _is_float(e):
        # E9: x << 0, x >> 0, x + 0, 0 + x, x - 0, x | 0, 0 | x, x ^ 0, x * 1, 1 * x -> x  (integers)
        lv, rv = _lit(e["l"]), _lit(e["r"])
        op = e["op"]
        if rv == 0 and op in ("<<", ">>", "+", "-", "|", "^") and (e.get("t") == (e["l"].get("t") if isinstance(e["l"], dict) else None)):
            return e["l"]
        if lv == 0 and op in ("+", "|", "^") and (e.get("t") == (e["r"].get("t") if isinstance(e["r"], dict) else None)):
            return e["r"]
        if rv == 1 and op == "*" and (e.get("t") == (e["l"].get("t") if isinstance(e["l"], dict) else None)):
            return e["l"]
        if lv == 1 and op == "*" and (e.get("t") == (e["r"].get("t") if isinstance(e["r"], dict) else None)):
            return e["r"]
    if k == "Bin" and e.get("op") == "%" and not _is_float(e) and _unsigned(_strip(e.get("l"))) and not _is_float(_strip(e.get("l"))):
        rv = _lit(e["r"])
        if _lit(e["l"]) is None and isinstance(rv, int) and not isinstance(rv, bool) and rv >= 2 and (rv & (rv - 1)) == 0 and rv < (1 << 62):
            # unsigned x % 2^K -> x & (2^K - 1)
            e = dict(e)
            e["op"] = "&"
            e["r"] = dict(_strip(e["r"]), k="Int", v=rv - 1, lit=str(rv - 1))
    if k == "Bin" and e.get("op") == "/" and not _is_float(e) and _unsigned(_strip(e.get("l"))) and not _is_float(_strip(e.get("l"))):
        rv = _lit(e["r"])
        if _lit(e["l"]) is None and isinstance(rv, int) and not isinstance(rv, bool) and rv >= 2 and (rv & (rv - 1)) == 0 and rv < (1 << 62):
            # unsigned x / 2^K -> x >> K
            e = dict(e)
            e["op"] = ">>"
            sh = rv.bit_length() - 1
            e["r"] = dict(_strip(e["r"]), k="Int", v=sh, lit=str(sh))
    if k == "Bin" and e.get("op") in ("<<", ">>", "*", "+", "|", "&", "^") and not _is_float(e) and not _is_float(_strip(e.get("l"))) and not _is_float(_strip(e.get("r"))):
        lv, rv = _lit(e["l"]), _lit(e["r"])
        op = e["op"]
        lt = (e["l"].get("t") or "") if isinstance(e["l"], dict) else ""
        if op in ("*", "+", "|", "&", "^") and lv is not None and rv is None and "*" not in (e.get("t") or ""):
            # E12: a literal operand of a commutative integer operator is written on the right: 2 * i -> i * 2
            e = dict(e)
            e["l"], e["r"] = e["r"], e["l"]
            lv, rv = rv, lv
        if op == "*" and lv is None and isinstance(rv, int) and not isinstance(rv, bool) and rv >= 2 and (rv & (rv - 1)) == 0 and rv < (1 << 62) and "*" not in (e.get("t") or ""):
            # E11: x * 2^K -> x << K (K a literal; equal for every value that does not overflow, and modulo 2^n for unsigned x)
            e = dict(e)
            e["op"] = "<<"
            sh = rv.bit_length() - 1
            e["r"] = dict(_strip(e["r"]), k="Int", v=sh, lit=str(sh))
    if k == "Bin" and e.get("op") in ("|", "||") and not _is_float(e):
        # E17: (x & A) | (x & B) -> x & (A | B)   (also for || of two bit tests used as conditions: one is set iff one of the bits is)
        def bt(z):
            z = _strip(z)
            if isinstance(z, dict) and z.get("k") == "Cast" and z.get("t") == "bool":
                z = _strip(z.get("e"))
            if isinstance(z, dict) and z.get("k") == "Bin" and z.get("op") == "&":
                for a, b in (("l", "r"), ("r", "l")):
                    zb = _strip(z[b])
                    m = _lit(z[b])
                    if m is None and isinstance(zb, dict) and zb.get("k") not in ("Call", "OpCall", "Assign") and isinstance(zb.get("v"), int):
                        m = zb["v"]       # a constant-folded mask: 1 << flags::IS_EMPTY
                    za = _strip(z[a])
                    if isinstance(m, int) and not isinstance(m, bool) and m > 0 and _lit(z[a]) is None and not (isinstance(za, dict) and isinstance(za.get("v"), int)):
                        return z, z[a], m
            return None
        b1, b2 = bt(e["l"]), bt(e["r"])
        if b1 and b2 and _txt(b1[1]) == _txt(b2[1]):
            z = dict(b1[0])
            lit = {"k": "Int", "v": b1[2] | b2[2], "lit": str(b1[2] | b2[2]), "t": e.get("t"), "sz": e.get("sz"), "loc": e.get("loc")}
            z["l"], z["r"] = b1[1], lit
            if e["op"] == "||":
                return _boolcast(z, e)
            return z
    if k == "Bin" and e.get("op") in FLIP:
        e = _zero_cmp(e)
        if e.get("k") != "Bin" or e.get("op") not in FLIP:
            return e
        try:
            if _txt(e["l"]) > _txt(e["r"]):
                e["l"], e["r"] = e["r"], e["l"]
                e["op"] = FLIP[e["op"]]
        except Exception:
            pass
    if k == "Cond":
        a, b = _strip(e.get("a")), _strip(e.get("e"))
        if isinstance(a, dict) and isinstance(b, dict) and a.get("k") == "Bool" and b.get("k") == "Bool" and a.get("b") != b.get("b"):
            c0 = e.get("c")
            pos = c0 if (c0.get("t") == "bool") else _boolcast(c0, e)
            if a.get("b"):
                return pos
            return norm_expr({"k": "Un", "op": "!", "e": pos, "loc": e.get("loc"), "t": "bool", "sz": 1})
        c = _strip(e.get("c"))
        if isinstance(c, dict) and c.get("k") == "Bin" and c.get("op") in ("<", ">", "<=", ">="):
            l, r, a, b = c["l"], c["r"], e.get("a"), e.get("e")
            try:
                # floating operands: only the strict forms, which are the definitions of std::min / std::max
                # (std::min(a, b) == (b < a) ? b : a ; std::max(a, b) == (a < b) ? b : a)
                if not (_is_float(_strip(l)) or _is_float(_strip(r))) or c["op"] in ("<", ">"):
                    pick = None
                    if _same(a, l) and _same(b, r):
                        pick = "min" if c["op"] in ("<", "<=") else "max"
                    elif _same(a, r) and _same(b, l):
                        pick = "max" if c["op"] in ("<", "<=") else "min"
                    if pick:
                        args = sorted([l, r], key=_txt)
                        return {"k": "Call", "cname": pick, "callee": "std::" + pick, "args": args, "loc": e.get("loc"), "t": e.get("t"), "sz": e.get("sz"), "synth": True}
            except Exception:
                pass
    if k == "Cond":
        # E10: one polarity for two-armed choices: !c ? a : b -> c ? b : a ; (x != y | x <= y | x >= y) ? a : b -> (x == y | x > y | x < y) ? b : a
        c = _strip(e.get("c"))
        if _negatable_choice(c):
            e = dict(e)
            e["c"] = norm_expr(_neg(e["c"])) if not (isinstance(c, dict) and c.get("k") == "Un") else c["e"]
            e["a"], e["e"] = e["e"], e["a"]
    if k == "Call" and e.get("cname") in ("min", "max") and (e.get("callee") or "").startswith("std::") and len(e.get("args", [])) == 2:
        try:
            e["args"] = sorted(e["args"], key=_txt)
        except Exception:
            pass
    return e


def _incdec(e):
    """x += 1 / x = x + 1 / x++ as a whole statement -> ++x"""
    s = _strip(e)
    if not isinstance(s, dict):
        return e
    if s.get("k") == "Un" and s.get("op") in ("++", "--") and s.get("post"):
        n = dict(s)
        n["post"] = False
        return n
    if s.get("k") == "Assign" and s.get("op") in ("+=", "-=") and _strip(s.get("r")).get("v") == 1 and _strip(s.get("r")).get("k") in ("Int", "Cast"):
        return {"k": "Un", "op": "++" if s["op"] == "+=" else "--", "post": False, "e": s["l"], "loc": s.get("loc"), "t": s.get("t"), "sz": s.get("sz")}
    if s.get("k") == "Assign" and s.get("op") == "=":
        r = _strip(s.get("r"))
        if isinstance(r, dict) and r.get("k") == "Bin" and r.get("op") in ("+", "-") and _strip(r.get("r")).get("v") == 1 and _same(r.get("l"), s.get("l")):
            return {"k": "Un", "op": "++" if r["op"] == "+" else "--", "post": False, "e": s["l"], "loc": s.get("loc"), "t": s.get("t"), "sz": s.get("sz")}
    return e


def _exits(s):
    import astu
    return astu.always_exits(s)


def _stmts(s):
    if s is None:
        return []
    if s.get("k") == "Block":
        return s.get("s", [])
    return [s]


def _neg(c):
    c2 = _strip(c)
    if isinstance(c2, dict) and c2.get("k") == "Un" and c2.get("op") == "!":
        return c2["e"]
    if isinstance(c2, dict) and c2.get("k") == "Bin" and c2.get("op") in NEG_EQ and not _is_float(_strip(c2["l"])) and not _is_float(_strip(c2["r"])):
        n = dict(c2)
        n["op"] = NEG_EQ[c2["op"]]
        return n
    if isinstance(c2, dict) and c2.get("k") == "Bin" and c2.get("op") in NEG_ORD and not _is_float(_strip(c2["l"])) and not _is_float(_strip(c2["r"])):
        n = dict(c2)
        n["op"] = NEG_ORD[c2["op"]]     # integers: !(a < b) == a >= b (not so for floating operands: NaN)
        return n
    return {"k": "Un", "op": "!", "e": c, "loc": (c or {}).get("loc"), "t": "bool", "sz": 1}


def _walk(n, f):
    if isinstance(n, dict):
        f(n)
        for v in n.values():
            _walk(v, f)
    elif isinstance(n, list):
        for v in n:
            _walk(v, f)


def _refs_to(n, d):
    out = []
    _walk(n, lambda x: out.append(x) if x.get("k") == "Ref" and x.get("d") == d else None)
    return out


def _is_step(e, d):
    """++i (after E4) on local d"""
    e = _strip(e)
    if isinstance(e, dict) and e.get("k") == "OpCall" and e.get("op") == "++" and e.get("args"):
        a = _strip(e["args"][0])   # iterator increment (prefix, or postfix as a whole statement)
        return isinstance(a, dict) and a.get("k") == "Ref" and a.get("d") == d
    return isinstance(e, dict) and e.get("k") == "Un" and e.get("op") == "++" and isinstance(_strip(e.get("e")), dict) and _strip(e["e"]).get("k") == "Ref" and _strip(e["e"]).get("d") == d


def _writes(n, d):
    hit = [False]

    def v(x):
        if x.get("k") == "Assign" and isinstance(_strip(x.get("l")), dict) and _strip(x["l"]).get("k") == "Ref" and _strip(x["l"]).get("d") == d:
            hit[0] = True
        if x.get("k") in ("Un", "OpCall") and x.get("op") in ("++", "--"):
            t = _strip(x.get("e") if x.get("k") == "Un" else (x.get("args") or [None])[0])
            if isinstance(t, dict) and t.get("k") == "Ref" and t.get("d") == d:
                hit[0] = True
    _walk(n, v)
    return hit[0]


def _step_to_inc(f):
    """S7a: a loop without init / increment whose body ends with `++x` for a local x of its condition, and has no `continue`:
    the step becomes the loop increment (`while (c) { B; ++x; }` == `for (; c; ++x) { B }`)"""
    if not (isinstance(f, dict) and f.get("k") == "For" and f.get("inc") is None and f.get("c") is not None):
        return f
    body = _stmts(f.get("b"))
    if not body or not isinstance(body[-1], dict) or body[-1].get("k") != "Expr":
        return f
    last = _strip(_incdec(body[-1].get("e")))
    tgt = None
    if isinstance(last, dict) and last.get("k") == "Un" and last.get("op") in ("++", "--"):
        tgt = _strip(last.get("e"))
    elif isinstance(last, dict) and last.get("k") == "OpCall" and last.get("op") in ("++", "--") and last.get("args"):
        tgt = _strip(last["args"][0])
    if not (isinstance(tgt, dict) and tgt.get("k") == "Ref" and tgt.get("dk") == "local" and _refs_to(f["c"], tgt.get("d"))):
        return f
    conts = []
    _walk(f.get("b"), lambda x: conts.append(x) if x.get("k") == "Continue" else None)
    if conts or any(_refs_to(b, tgt["d"]) and _writes(b, tgt["d"]) for b in body[:-1] if isinstance(b, dict)):
        return f
    g = dict(f)
    g["inc"] = _incdec(body[-1]["e"])
    g["b"] = {"k": "Block", "s": body[:-1], "loc": (f.get("b") or {}).get("loc")}
    g.pop("was", None)
    return g


def _subst_ref(n, d, repl):
    import copy
    if isinstance(n, list):
        return [_subst_ref(x, d, repl) for x in n]
    if not isinstance(n, dict):
        return n
    if n.get("k") == "Ref" and n.get("d") == d:
        return copy.deepcopy(repl)
    return {k: _subst_ref(v, d, repl) for k, v in n.items()}


def _inline_end_locals(stmts):
    """`const auto end = X.end();` used only in the condition of one following loop of the same block: the condition reads
    X.end() itself (X a plain member / variable, so evaluating it per iteration is the same value for a loop that does not
    resize X - the only use this canonical form is put to is recognising iteration over X)"""
    out = list(stmts)
    i = 0
    while i < len(out):
        s = out[i]
        if isinstance(s, dict) and s.get("k") == "Decl" and len(s.get("vars", [])) == 1 and "d" in s["vars"][0]:
            ini = _strip(s["vars"][0].get("init"))
            while isinstance(ini, dict) and ini.get("k") == "Construct" and len(ini.get("args", [])) == 1:
                ini = _strip(ini["args"][0])
            if isinstance(ini, dict) and ini.get("k") == "Call" and ini.get("cname") == "size" and not ini.get("args") and ini.get("obj") is not None and _pure_container(ini["obj"]) \
                    and not any(_writes(x, s["vars"][0]["d"]) for x in out[i + 1:]):
                # `const size_t n = X.size();` bounding a following loop that does not change the size of X: the condition reads
                # X.size() itself (the declaration stays for its other readers)
                d = s["vars"][0]["d"]
                xt = _txt(ini["obj"])
                for j in range(i + 1, len(out)):
                    L = out[j]
                    if isinstance(L, dict) and L.get("k") in ("For", "While") and L.get("c") is not None and _refs_to(L["c"], d):
                        resized = []
                        _walk(L.get("b"), lambda x: resized.append(x) if x.get("k") == "Call" and x.get("cname") in ("push_back", "emplace_back", "resize", "erase", "clear", "insert", "pop_back", "assign", "swap") and x.get("obj") is not None and _txt(x["obj"]) == xt else None)
                        _walk(L.get("b"), lambda x: resized.append(x) if x.get("k") in ("Assign", "OpCall") and x.get("op") == "=" and _txt(x.get("l") or (x.get("args") or [None])[0]) == xt else None)
                        if not resized:
                            L2 = dict(L)
                            L2["c"] = _subst_ref(L["c"], d, s["vars"][0]["init"])
                            out[j] = L2
            if isinstance(ini, dict) and ini.get("k") == "Call" and ini.get("cname") in ("end", "cend") and not ini.get("args") and ini.get("obj") is not None and _pure_container(ini["obj"]):
                d = s["vars"][0]["d"]
                users = [j for j in range(i + 1, len(out)) if _refs_to(out[j], d)]
                if len(users) == 1:
                    L = out[users[0]]
                    if isinstance(L, dict) and L.get("k") in ("For", "While") and L.get("c") is not None:
                        in_cond = len(_refs_to(L["c"], d))
                        total = len(_refs_to(L, d))
                        if in_cond and in_cond == total:
                            L2 = dict(L)
                            L2["c"] = _subst_ref(L["c"], d, s["vars"][0]["init"])
                            out[users[0]] = L2
                            del out[i]
                            continue
        i += 1
    return out


def _while_to_for(stmts):
    """S7: `T i = a; while (c(i)) { body; ++i; }` with i not used afterwards and no `continue` in body  ->  for (T i = a; c(i); ++i) body;
    likewise `T i = a; for (; c(i); ++i) body` -> for (T i = a; c(i); ++i) body"""
    stmts = _inline_end_locals(stmts)
    out = []
    i = 0
    while i < len(stmts):
        s = stmts[i]
        nxt = stmts[i + 1] if i + 1 < len(stmts) else None
        done = False
        if isinstance(s, dict) and s.get("k") == "Decl" and len(s.get("vars", [])) == 1 and "d" in s["vars"][0] and s["vars"][0].get("init") is not None \
                and isinstance(nxt, dict) and nxt.get("k") == "For" and nxt.get("init") is None and nxt.get("c") is not None:
            d = s["vars"][0]["d"]
            body = _stmts(nxt.get("b"))
            conts = []
            _walk(nxt.get("b"), lambda x: conts.append(x) if x.get("k") == "Continue" else None)
            later = []
            for r in stmts[i + 2:]:
                later += _refs_to(r, d)
            if nxt.get("inc") is not None and not later and _refs_to(nxt["c"], d) and _is_step(nxt["inc"], d):
                f = dict(nxt)
                f["init"] = s
                f.pop("was", None)
                out.append(f)
                i += 2
                done = True
            elif nxt.get("inc") is not None:
                pass
            elif body and not conts and not later and _refs_to(nxt["c"], d) and body[-1].get("k") == "Expr" and _is_step(body[-1].get("e"), d) \
                    and not any(_is_step(x, d) for b in body[:-1] for x in [b.get("e")] if b.get("k") == "Expr"):
                f = dict(nxt)
                f["init"] = s
                f["inc"] = body[-1]["e"]
                f["b"] = {"k": "Block", "s": body[:-1], "loc": (nxt.get("b") or {}).get("loc")}
                f.pop("was", None)
                out.append(f)
                i += 2
                done = True
        if not done:
            out.append(s)
            i += 1
    return out


def _pure_container(x):
    x = _strip(x)
    if not isinstance(x, dict):
        return False
    if x.get("k") in ("Ref", "This"):
        return True
    if x.get("k") == "Member":
        return _pure_container(x.get("b"))
    if x.get("k") == "Un" and x.get("op") == "*":
        return _pure_container(x.get("e"))
    return False


def _iterator_loop_to_range(f, var, d, c):
    """S9: for (auto it = X.begin(); it != X.end(); ++it) { .. *it .. it->m .. } with `it` used only dereferenced and X a plain
    member / variable -> range-for over X whose element stands for *it"""
    ini = _strip(var.get("init"))
    while isinstance(ini, dict) and ini.get("k") == "Construct" and len(ini.get("args", [])) == 1:
        ini = _strip(ini["args"][0])
    def const_args(c):
        # begin() / begin(false): defaulted parameters appear as constant arguments
        return all(isinstance(_strip(a), dict) and _strip(a).get("k") in ("Bool", "Int") for a in c.get("args", []))
    if not (isinstance(ini, dict) and ini.get("k") == "Call" and ini.get("cname") in ("begin", "cbegin") and const_args(ini) and ini.get("obj") is not None and _pure_container(ini["obj"])):
        return None
    X = ini["obj"]
    xt = _txt(X)
    if not (isinstance(c, dict) and c.get("k") in ("Bin", "OpCall") and c.get("op") == "!="):
        return None
    ops = [c.get("l"), c.get("r")] if c.get("k") == "Bin" else list(c.get("args", []))
    if len(ops) != 2:
        return None
    a, b = _strip(ops[0]), _strip(ops[1])
    if isinstance(b, dict) and b.get("k") == "Ref" and b.get("d") == d:
        a, b = b, a
    if not (isinstance(a, dict) and a.get("k") == "Ref" and a.get("d") == d):
        return None
    while isinstance(b, dict) and b.get("k") == "Construct" and len(b.get("args", [])) == 1:
        b = _strip(b["args"][0])
    if not (isinstance(b, dict) and b.get("k") == "Call" and b.get("cname") in ("end", "cend") and const_args(b) and b.get("obj") is not None and _txt(b["obj"]) == xt):
        return None
    uses = _refs_to(f.get("b"), d)
    hits = []

    def find(n):
        if n.get("k") == "Un" and n.get("op") == "*" and isinstance(_strip(n.get("e")), dict) and _strip(n["e"]).get("k") == "Ref" and _strip(n["e"]).get("d") == d:
            hits.append(("deref", n))
        elif n.get("k") == "OpCall" and n.get("op") == "*" and len(n.get("args", [])) == 1 and isinstance(_strip(n["args"][0]), dict) and _strip(n["args"][0]).get("k") == "Ref" and _strip(n["args"][0]).get("d") == d:
            hits.append(("deref", n))
        elif n.get("k") == "Member" and isinstance(_strip(n.get("b")), dict) and _strip(n["b"]).get("k") == "Ref" and _strip(n["b"]).get("d") == d:
            hits.append(("member", n))   # E8 form of it->m / (*it).m
    _walk(f.get("b"), find)
    if not uses or len(hits) != len(uses):
        return None
    for kind, h in hits:
        ref = {"k": "Ref", "d": d, "dk": "local", "n": var.get("n"), "t": h.get("t") if kind == "deref" else None, "loc": h.get("loc"), "sz": h.get("sz"), "synth": True}
        if kind == "deref":
            h.clear()
            h.update(ref)
        else:
            h["b"] = ref
    return {"k": "RangeFor", "loc": f.get("loc"), "range": X, "b": f.get("b"), "was": "IteratorFor",
            "var": {"d": d, "n": var.get("n"), "t": None, "loc": var.get("loc"), "ref": True, "const": False, "synth": True}}


def _index_loop_to_range(f):
    """S6: for (T i = 0; i < X.size(); ++i) { ... X[i] ... } where i occurs in the body only as the index of X and X is a plain
    member / variable  ->  range-for over X whose element stands for X[i]"""
    init, c, inc = f.get("init"), _strip(f.get("c")), f.get("inc")
    if not (isinstance(init, dict) and init.get("k") == "Decl" and len(init.get("vars", [])) == 1 and isinstance(c, dict) and inc is not None):
        return f
    var = init["vars"][0]
    d = var.get("d")
    if d is not None and _is_step(inc, d):
        r = _iterator_loop_to_range(f, var, d, c)
        if r is not None:
            return r
    if d is None or _lit(var.get("init")) != 0 or not _is_step(inc, d):
        return f
    if c.get("k") != "Bin" or c.get("op") not in ("<", ">", "!="):
        return f
    l, r = _strip(c["l"]), _strip(c["r"])
    if c["op"] == ">":
        l, r = r, l
    if c["op"] == "!=" and not (isinstance(l, dict) and l.get("k") == "Ref"):
        l, r = r, l
    if not (isinstance(l, dict) and l.get("k") == "Ref" and l.get("d") == d):
        return f
    if not (isinstance(r, dict) and r.get("k") == "Call" and r.get("cname") == "size" and not r.get("args") and r.get("obj") is not None and _pure_container(r["obj"])):
        return f
    X = r["obj"]
    xt = _txt(X)
    uses = _refs_to(f.get("b"), d)
    hits = []

    def find(n):
        if n.get("k") == "Index" and isinstance(_strip(n.get("i")), dict) and _strip(n["i"]).get("k") == "Ref" and _strip(n["i"]).get("d") == d and _txt(n.get("b")) == xt:
            hits.append(n)
        if n.get("k") == "OpCall" and n.get("op") == "[]" and len(n.get("args", [])) == 2 and isinstance(_strip(n["args"][1]), dict) \
                and _strip(n["args"][1]).get("k") == "Ref" and _strip(n["args"][1]).get("d") == d and _txt(n["args"][0]) == xt:
            hits.append(n)
    _walk(f.get("b"), find)
    if not uses or len(hits) != len(uses):
        return f
    for h in hits:
        t = h.get("t")
        loc = h.get("loc")
        sz = h.get("sz")
        h.clear()
        h.update({"k": "Ref", "d": d, "dk": "local", "n": var.get("n"), "t": t, "loc": loc, "sz": sz, "synth": True})
    return {"k": "RangeFor", "loc": f.get("loc"), "range": X, "b": f.get("b"), "was": "IndexFor",
            "var": {"d": d, "n": var.get("n"), "t": None, "loc": var.get("loc"), "ref": True, "const": False, "synth": True}}


def _comma_parts(e):
    e = _strip(e)
    if isinstance(e, dict) and e.get("k") == "Bin" and e.get("op") == ",":
        return _comma_parts(e.get("l")) + _comma_parts(e.get("r"))
    return [e]


def _is_ptr(t):
    t = (t or "").replace("const", "").replace(" ", "")
    return t.endswith("*")


def _pointer_walk_to_index(stmts):
    """S15: a pointer cursor over [B, B + N) becomes an index loop over B:
         T* const end = B + N;  for (T* p = B; p != end; ++p, ++q) { .. *p .. *q .. }   ->   for (size_t i = 0; i < N; ++i) { .. B[i] .. q[i] .. }
    p is used only dereferenced; q (further pointer cursors stepped in the increment) likewise and not used after the loop; B is
    a plain variable / member / X.data() that the loop does not write"""
    if LIGHT[0]:
        return stmts
    import copy
    out = list(stmts)
    j = 0
    while j < len(out):
        F = out[j]
        j += 1
        if not (isinstance(F, dict) and F.get("k") == "For" and isinstance(F.get("init"), dict) and F["init"].get("k") == "Decl"
                and len(F["init"].get("vars", [])) == 1 and F.get("c") is not None and F.get("inc") is not None):
            continue
        var = F["init"]["vars"][0]
        pd = var.get("d")
        B = _strip(var.get("init"))
        if pd is None or not _is_ptr(var.get("t")) or not isinstance(B, dict):
            continue
        base_ok = _pure_container(B) or (B.get("k") == "Call" and B.get("cname") == "data" and not B.get("args") and B.get("obj") is not None and _pure_container(B["obj"]))
        if not base_ok:
            continue
        c = _strip(F["c"])
        if not (isinstance(c, dict) and c.get("k") == "Bin" and c.get("op") in ("!=", "<", ">")):
            continue
        l, r = _strip(c["l"]), _strip(c["r"])
        if isinstance(r, dict) and r.get("k") == "Ref" and r.get("d") == pd:
            l, r = r, l
            if c["op"] == "<":
                continue
        elif c["op"] == ">":
            continue
        if not (isinstance(l, dict) and l.get("k") == "Ref" and l.get("d") == pd):
            continue
        E, end_decl = r, None
        if isinstance(E, dict) and E.get("k") == "Ref" and E.get("dk") == "local":
            for q in range(j - 1):
                s0 = out[q]
                if isinstance(s0, dict) and s0.get("k") == "Decl" and len(s0.get("vars", [])) == 1 and s0["vars"][0].get("d") == E.get("d"):
                    end_decl = q
            if end_decl is None or any(_writes(x, E["d"]) for x in out[end_decl + 1:]):
                continue
            E = _strip(out[end_decl]["vars"][0].get("init"))
        if not (isinstance(E, dict) and E.get("k") == "Bin" and E.get("op") == "+"):
            continue
        eb, N = _strip(E["l"]), E["r"]
        if _txt(eb) != _txt(B):
            eb, N = _strip(E["r"]), E["l"]
        if _txt(eb) != _txt(B) or _refs_to(N, pd):
            continue
        # the increment: ++p and further pointer cursors
        cursors = []
        bad = False
        for part in _comma_parts(F["inc"]):
            part = _strip(_incdec(part))
            t = _strip(part.get("e")) if isinstance(part, dict) and part.get("k") == "Un" and part.get("op") == "++" else None
            if not (isinstance(t, dict) and t.get("k") == "Ref" and _is_ptr(t.get("t"))):
                bad = True
                break
            cursors.append(t)
        if bad or not cursors or sorted(x["d"] for x in cursors).count(pd) != 1 or len(set(x["d"] for x in cursors)) != len(cursors):
            continue
        body = F.get("b")
        conts = []
        ok = True
        idx_d = 10000000 + pd
        iref = {"k": "Ref", "d": idx_d, "dk": "local", "n": "i", "t": "unsigned long", "sz": 8, "synth": True}
        plan = []
        for cur in cursors:
            d = cur["d"]
            base = B if d == pd else cur
            if _writes(body, d) or (d != pd and (any(_refs_to(x, d) for x in out[j:]) or _refs_to(F["c"], d))):
                ok = False
                break
            # B itself must not be written in the loop
            if d == pd and B.get("k") == "Ref" and _writes(body, B.get("d")):
                ok = False
                break
            uses = _refs_to(body, d)
            hits = []

            def find(n, d=d):
                if n.get("k") == "Un" and n.get("op") == "*" and isinstance(_strip(n.get("e")), dict) and _strip(n["e"]).get("k") == "Ref" and _strip(n["e"]).get("d") == d:
                    hits.append(("deref", n))
                elif n.get("k") == "Member" and isinstance(_strip(n.get("b")), dict) and _strip(n["b"]).get("k") == "Ref" and _strip(n["b"]).get("d") == d:
                    hits.append(("member", n))
                elif n.get("k") == "Index" and isinstance(_strip(n.get("b")), dict) and _strip(n["b"]).get("k") == "Ref" and _strip(n["b"]).get("d") == d and _lit(n.get("i")) == 0:
                    hits.append(("deref", n))
            _walk(body, find)
            if len(hits) != len(uses):
                ok = False
                break
            plan.append((base, hits))
        if not ok:
            continue
        for base, hits in plan:
            for kind, h in hits:
                elem_t = h.get("t") if kind == "deref" else None
                idx = {"k": "Index", "b": copy.deepcopy(base), "i": dict(iref), "t": elem_t, "loc": h.get("loc"), "sz": h.get("sz"), "synth": True}
                if kind == "deref":
                    h.clear()
                    h.update(idx)
                else:
                    h["b"] = idx
                    h["arrow"] = False
        G = dict(F)
        G["init"] = {"k": "Decl", "loc": F["init"].get("loc"), "synth": True,
                     "vars": [{"d": idx_d, "n": "i", "t": "unsigned long", "sz": 8, "const": False, "ref": False, "loc": var.get("loc"),
                               "init": {"k": "Int", "v": 0, "lit": "0", "t": "unsigned long", "sz": 8, "loc": var.get("loc")}}]}
        G["c"] = {"k": "Bin", "op": "<", "l": dict(iref), "r": copy.deepcopy(N), "t": "bool", "sz": 1, "loc": c.get("loc"), "synth": True}
        G["inc"] = {"k": "Un", "op": "++", "post": False, "e": dict(iref), "t": "unsigned long", "sz": 8, "loc": (F["inc"] or {}).get("loc"), "synth": True}
        G["was"] = "PointerWalk"
        out[j - 1] = G
        if end_decl is not None:
            ed = out[end_decl]["vars"][0]["d"]
            if not any(_refs_to(x, ed) for k2, x in enumerate(out) if k2 != end_decl):
                del out[end_decl]
                j -= 1
    return out


def _while_to_for_pre(stmts):
    """S7 runs before the children are normalised: bring `while` into the For shape first, and the step statement into ++i"""
    tmp = []
    for c in stmts:
        if isinstance(c, dict) and c.get("k") == "While":
            c = dict(c)
            c["k"] = "For"
            c["was"] = "While"
            c.setdefault("init", None)
            c.setdefault("inc", None)
        if isinstance(c, dict) and c.get("k") == "For" and c.get("init") is None and c.get("inc") is None:
            b = c.get("b")
            body = _stmts(b)
            if body and isinstance(body[-1], dict) and body[-1].get("k") == "Expr":
                last = dict(body[-1])
                last["e"] = _incdec(last.get("e"))
                c = dict(c)
                c["b"] = {"k": "Block", "s": body[:-1] + [last], "loc": (b or {}).get("loc")}
        tmp.append(c)
    return _pointer_walk_to_index(_decl_then_override([_step_to_inc(x) for x in _while_to_for(tmp)]))


def _decl_then_assign(stmts):
    """S16: `T x; x = e;` -> `T x = e;`   (x without initialiser, e not reading x; runs after the children are normalised so that an
    if / else chain of assignments (S10) is already one assignment)"""
    if LIGHT[0]:
        return stmts
    out = []
    i = 0
    while i < len(stmts):
        s = stmts[i]
        nxt = stmts[i + 1] if i + 1 < len(stmts) else None
        if isinstance(s, dict) and s.get("k") == "Decl" and len(s.get("vars", [])) == 1 and "d" in s["vars"][0] and s["vars"][0].get("init") is None \
                and isinstance(nxt, dict) and nxt.get("k") == "Expr":
            v = s["vars"][0]
            a = _strip(nxt.get("e"))
            if isinstance(a, dict) and a.get("k") == "Assign" and a.get("op") == "=" and isinstance(_strip(a.get("l")), dict) and _strip(a["l"]).get("k") == "Ref" \
                    and _strip(a["l"]).get("d") == v["d"] and not _refs_to(a["r"], v["d"]) and not v.get("ref"):
                v2 = dict(v)
                v2["init"] = a["r"]
                stmts = stmts[:i] + [dict(s, vars=[v2])] + stmts[i + 2:]
                continue
        # S16 (declaration and first assignment apart): `T x; ... x = e;` with no use of x in between -> the declaration moves down
        if isinstance(s, dict) and s.get("k") == "Decl" and len(s.get("vars", [])) == 1 and "d" in s["vars"][0] and s["vars"][0].get("init") is None \
                and not s["vars"][0].get("ref") and "[" not in (s["vars"][0].get("t") or ""):
            v = s["vars"][0]
            j = None
            for q in range(i + 1, len(stmts)):
                if _refs_to(stmts[q], v["d"]):
                    j = q
                    break
            if j is not None and isinstance(stmts[j], dict) and stmts[j].get("k") == "Expr":
                a = _strip(stmts[j].get("e"))
                if isinstance(a, dict) and a.get("k") == "Assign" and a.get("op") == "=" and isinstance(_strip(a.get("l")), dict) and _strip(a["l"]).get("k") == "Ref" \
                        and _strip(a["l"]).get("d") == v["d"] and not _refs_to(a["r"], v["d"]):
                    v2 = dict(v)
                    v2["init"] = a["r"]
                    stmts = stmts[:i] + stmts[i + 1:j] + [dict(s, vars=[v2], loc=stmts[j].get("loc") or s.get("loc"))] + stmts[j + 1:]
                    continue
        # S17: `T x = a; x |= b;` -> `T x = a | b;`   (integer x built up in consecutive statements; b pure and not reading x): a flags
        # byte assembled step by step is the one expression
        if isinstance(s, dict) and s.get("k") == "Decl" and len(s.get("vars", [])) == 1 and "d" in s["vars"][0] and s["vars"][0].get("init") is not None \
                and isinstance(nxt, dict) and nxt.get("k") == "Expr":
            v = s["vars"][0]
            a = _strip(nxt.get("e"))
            t = (v.get("t") or "")
            if isinstance(a, dict) and a.get("k") == "Assign" and a.get("op") in ("|=", "&=", "^=", "+=") and isinstance(_strip(a.get("l")), dict) and _strip(a["l"]).get("k") == "Ref" \
                    and _strip(a["l"]).get("d") == v["d"] and not _refs_to(a["r"], v["d"]) and not v.get("ref") and "*" not in t and not _is_float(v) \
                    and any(x in t for x in ("char", "short", "int", "long")) and _pure_value(a["r"]) and _pure_value(v["init"]):
                v2 = dict(v)
                v2["init"] = norm_expr({"k": "Bin", "op": a["op"][:-1], "l": v["init"], "r": a["r"], "t": a.get("t") or v.get("t"), "sz": v.get("sz"), "loc": a.get("loc"), "synth": True})
                stmts = stmts[:i] + [dict(s, vars=[v2])] + stmts[i + 2:]
                continue
        out.append(s)
        i += 1
    return out


def _pure_value(e):
    """arithmetic over variables, members, literals and casts only: no call, no assignment, no ++ / --, no allocation"""
    bad = [False]

    def v(n):
        if n.get("k") in ("Call", "OpCall", "Assign", "New", "Delete", "Throw", "Lambda", "Construct") or (n.get("k") == "Un" and n.get("op") in ("++", "--")):
            bad[0] = True
        if n.get("k") == "Bin" and n.get("op") in ("/", "%"):
            bad[0] = True      # may trap
    _walk(e, v)
    return not bad[0]


def _decl_then_override(stmts):
    """S14: `T x = a; if (c) x = b;`  ->  `T x = c ? b : a;`   (a a pure value: evaluating it only in one arm changes nothing; c not
    reading x).  Also in the light view: the byte-level interpreters relate a size check and a loop bound through the one selecting
    expression, which a default-then-override spelling would hide in a join."""
    out = []
    i = 0
    while i < len(stmts):
        s = stmts[i]
        nxt = stmts[i + 1] if i + 1 < len(stmts) else None
        if isinstance(s, dict) and s.get("k") == "Decl" and len(s.get("vars", [])) == 1 and "d" in s["vars"][0] and s["vars"][0].get("init") is not None \
                and isinstance(nxt, dict) and nxt.get("k") == "If" and nxt.get("e") is None:
            v = s["vars"][0]
            tb = _stmts(nxt.get("t"))
            ini = _strip(v["init"])
            plain = isinstance(ini, dict) and (ini.get("k") in ("Int", "Bool", "Float", "Ref") or (ini.get("k") == "Member" and _pure_container(ini)) or "v" in ini or _pure_value(ini))
            if plain and len(tb) == 1 and isinstance(tb[0], dict) and tb[0].get("k") == "Expr":
                a = _strip(tb[0].get("e"))
                if isinstance(a, dict) and a.get("k") == "Assign" and a.get("op") == "=" and isinstance(_strip(a.get("l")), dict) and _strip(a["l"]).get("k") == "Ref" \
                        and _strip(a["l"]).get("d") == v["d"] and (not _refs_to(nxt["c"], v["d"]) or _pure_value(ini)) and not _refs_to(a["r"], v["d"]):
                    v2 = dict(v)
                    cc, aa, ee = nxt["c"], a["r"], v["init"]
                    if _refs_to(cc, v["d"]):
                        cc = _subst_ref(cc, v["d"], v["init"])      # the test reads the initial value: `T x = a; if (x < K) x = b;`
                    sc = _strip(cc)
                    if isinstance(sc, dict) and sc.get("k") == "Un" and sc.get("op") == "!":
                        cc, aa, ee = sc["e"], ee, aa      # !c ? b : a  ==  c ? a : b
                    v2["init"] = {"k": "Cond", "c": cc, "a": aa, "e": ee, "loc": nxt.get("loc"), "t": v.get("t"), "sz": v.get("sz"), "synth": True}
                    out.append(dict(s, vars=[v2]))
                    i += 2
                    continue
        out.append(s)
        i += 1
    return out


def norm_stmt(s):
    """returns a LIST of statements replacing s"""
    if not isinstance(s, dict):
        return [s]
    k = s.get("k")
    if k == "Block":
        out = []
        for c in _while_to_for_pre(s.get("s", [])):
            out += norm_stmt(c)
        s["s"] = _decl_then_assign(out)
        return [s]
    if k == "Expr":
        s["e"] = _incdec(norm_expr(s.get("e")))
        return [s]
    if k == "Return":
        if s.get("e") is not None:
            s["e"] = norm_expr(s["e"])
        return [s]
    if k == "Decl":
        for v in s.get("vars", []):
            if v.get("init") is not None:
                v["init"] = norm_expr(v["init"])
        return [s]
    if k in ("For", "While", "Do", "RangeFor", "Switch", "Case", "Default", "Try", "Catch", "Label"):
        for key in ("init", "i"):
            if isinstance(s.get(key), dict):
                r = norm_stmt(s[key])
                s[key] = r[0] if len(r) == 1 else {"k": "Block", "s": r, "loc": s[key].get("loc")}
        for key in ("c", "range"):
            if s.get(key) is not None:
                s[key] = norm_expr(s[key])
        for key in ("inc", "u"):
            if s.get(key) is not None:
                s[key] = _incdec(norm_expr(s[key]))
        for h in s.get("handlers") or []:
            if isinstance(h, dict) and isinstance(h.get("s"), dict):
                r = norm_stmt(h["s"])
                h["s"] = r[0] if len(r) == 1 else {"k": "Block", "s": r, "loc": h["s"].get("loc")}
        for key in ("b", "body", "s"):
            if isinstance(s.get(key), dict):
                r = norm_stmt(s[key])
                s[key] = r[0] if len(r) == 1 else {"k": "Block", "s": r, "loc": s[key].get("loc")}
        if isinstance(s.get("s"), list):
            out = []
            for c in s["s"]:
                out += norm_stmt(c)
            s["s"] = out
        if k == "While" and not LIGHT[0]:  # S5
            s["k"] = "For"
            s["was"] = "While"
            s.setdefault("init", None)
            s.setdefault("inc", None)
        if LIGHT[0] and s.get("k") == "For" and s.get("was") == "While" and s.get("init") is None and s.get("inc") is None:
            s["k"] = "While"    # the pre-pass renamed it only to try S7 / S7a
        if s.get("k") == "For" and not LIGHT[0] and s.get("c") is not None:
            # S18: while (c1) { if (c2) break; B }  ->  while (c1 && !c2) { B }   (same order of evaluation, same exits)
            body = _stmts(s.get("b"))
            if body and isinstance(body[0], dict) and body[0].get("k") == "If" and body[0].get("e") is None and _bare_exit(body[0].get("t"), "Break"):
                rest = body[1:]
                brk = []
                for r0 in rest:
                    _walk(r0, lambda x: brk.append(x) if x.get("k") in ("Break", "Continue") else None)
                if not brk:
                    s = dict(s)
                    s["c"] = norm_expr({"k": "Bin", "op": "&&", "l": s["c"], "r": norm_expr(_neg(body[0]["c"])), "t": "bool", "sz": 1, "loc": (s["c"] or {}).get("loc"), "synth": True})
                    s["b"] = {"k": "Block", "s": rest, "loc": (s.get("b") or {}).get("loc")}
        if s.get("k") == "For":
            s = _index_loop_to_range(s)
        return [s]
    if k == "If":
        s["c"] = norm_expr(s.get("c"))
        for key in ("t", "e"):
            if isinstance(s.get(key), dict):
                r = norm_stmt(s[key])
                s[key] = r[0] if len(r) == 1 else {"k": "Block", "s": r, "loc": s[key].get("loc")}
        if LIGHT[0]:
            return [s]
        # S1
        c = _strip(s["c"])
        if s.get("e") is not None and isinstance(c, dict) and c.get("k") == "Un" and c.get("op") == "!":
            s["c"] = c["e"]
            s["t"], s["e"] = s["e"], s["t"]
        elif s.get("e") is not None and _negatable_choice(c):
            s["c"] = norm_expr(_neg(s["c"]))
            s["t"], s["e"] = s["e"], s["t"]
        # S2
        if s.get("e") is not None and _exits(s.get("t")):
            rest = _stmts(s["e"])
            s["e"] = None
            return [s] + rest
        # S10: if (c) { x = a; y = p; } else { x = b; y = q; }  ->  x = c ? a : b; y = c ? p : q;   (x, y plain variables / members
        # that c does not read)
        if s.get("e") is not None:
            tb, eb = _stmts(s.get("t")), _stmts(s.get("e"))
            if tb and len(tb) == len(eb) and len(tb) <= 4 and all(isinstance(x, dict) and x.get("k") == "Expr" for x in tb + eb):
                pairs = []
                for x1, x2 in zip(tb, eb):
                    a1, a2 = _strip(x1.get("e")), _strip(x2.get("e"))
                    if isinstance(a1, dict) and isinstance(a2, dict) and a1.get("k") == "Assign" and a2.get("k") == "Assign" and a1.get("op") == a2.get("op") and a1.get("op") in ("=", "+=", "-=", "|=", "&=", "^=", "*=") \
                            and _pure_container(a1.get("l")) and _same(a1["l"], a2["l"]):
                        pairs.append((a1, a2))
                    else:
                        pairs = None
                        break
                ctext = _txt(s["c"])
                if pairs and not any(_txt(a1["l"]) in ctext for a1, _ in pairs):
                    out = []
                    for a1, a2 in pairs:
                        import copy
                        cond = {"k": "Cond", "c": copy.deepcopy(s["c"]) if out else s["c"], "a": a1["r"], "e": a2["r"], "loc": s.get("loc"), "t": a1.get("t"), "sz": a1.get("sz"), "synth": True}
                        na = dict(a1)
                        na["r"] = norm_expr(cond)
                        out.append({"k": "Expr", "e": na, "loc": a1.get("loc") or s.get("loc"), "synth": True})
                    return out
        # S13: if (c) b = true;  ->  b |= c ;   if (c) b = false;  ->  b &= !c      (b a bool variable / member)
        if s.get("e") is None:
            tb = _stmts(s.get("t"))
            if len(tb) == 1 and isinstance(tb[0], dict) and tb[0].get("k") == "Expr":
                a1 = _strip(tb[0].get("e"))
                if isinstance(a1, dict) and a1.get("k") == "Assign" and a1.get("op") == "=" and _pure_container(a1.get("l")) and (a1["l"].get("t") or "").replace("const ", "") == "bool":
                    rv = _strip(a1.get("r"))
                    if isinstance(rv, dict) and rv.get("k") == "Bool":
                        cexp = s["c"] if rv.get("b") else norm_expr({"k": "Un", "op": "!", "e": s["c"], "loc": s.get("loc"), "t": "bool", "sz": 1})
                        na = dict(a1)
                        na["op"] = "|=" if rv.get("b") else "&="
                        na["r"] = cexp
                        return [{"k": "Expr", "e": na, "loc": s.get("loc"), "synth": True}]
        # S13b: if (c) f |= v;  ->  f |= c ? v : 0     (integer f; building a flags byte bit by bit)
        if s.get("e") is None:
            tb = _stmts(s.get("t"))
            if len(tb) == 1 and isinstance(tb[0], dict) and tb[0].get("k") == "Expr":
                a1 = _strip(tb[0].get("e"))
                if isinstance(a1, dict) and a1.get("k") == "Assign" and a1.get("op") == "|=" and _pure_container(a1.get("l")) and not _is_float(a1) \
                        and (a1["l"].get("t") or "").replace("const ", "") != "bool" and _txt(a1["l"]) not in _txt(s["c"]):
                    zero = {"k": "Int", "v": 0, "lit": "0", "t": a1.get("t"), "sz": a1.get("sz"), "loc": s.get("loc")}
                    cond = {"k": "Cond", "c": s["c"], "a": a1["r"], "e": zero, "loc": s.get("loc"), "t": a1.get("t"), "sz": a1.get("sz"), "synth": True}
                    na = dict(a1)
                    na["r"] = norm_expr(cond)
                    return [{"k": "Expr", "e": na, "loc": s.get("loc"), "synth": True}]
        # S8: if (a > b) a = b;  ->  a = min(a, b);   if (a < b) a = b;  ->  a = max(a, b)      (integers)
        if s.get("e") is None:
            body = _stmts(s.get("t"))
            c = _strip(s["c"])
            if len(body) == 1 and isinstance(body[0], dict) and body[0].get("k") == "Expr" and isinstance(c, dict) and c.get("k") == "Bin" and c.get("op") in ("<", ">"):
                a = _strip(body[0].get("e"))
                if isinstance(a, dict) and a.get("k") == "Assign" and a.get("op") == "=":
                    # also for floating operands: `if (a < b) a = b;` is a = (a < b) ? b : a, the definition of std::max(a, b)
                    big, small = (c["l"], c["r"]) if c["op"] == ">" else (c["r"], c["l"])
                    pick = None
                    if _same(a["l"], big) and _same(a["r"], small):
                        pick = "min"
                    elif _same(a["l"], small) and _same(a["r"], big):
                        pick = "max"
                    if pick:
                        args = sorted([a["l"], a["r"]], key=_txt)
                        call = {"k": "Call", "cname": pick, "callee": "std::" + pick, "args": args, "loc": s.get("loc"), "t": a.get("t"), "sz": a.get("sz"), "synth": True}
                        na = dict(a)
                        na["r"] = call
                        return [{"k": "Expr", "e": na, "loc": s.get("loc"), "synth": True}]
        # S3
        if s.get("e") is None:
            inner = _stmts(s.get("t"))
            if len(inner) == 1 and isinstance(inner[0], dict) and inner[0].get("k") == "If" and inner[0].get("e") is None:
                s["c"] = {"k": "Bin", "op": "&&", "l": s["c"], "r": inner[0]["c"], "loc": s["c"].get("loc") if isinstance(s["c"], dict) else None, "t": "bool", "sz": 1}
                s["t"] = inner[0]["t"]
        return [s]
    # anything else: normalise embedded expressions generically
    for key, v in list(s.items()):
        if isinstance(v, (dict, list)) and key not in ("s",):
            s[key] = norm_expr(v)
    return [s]


def _conjuncts(c):
    c2 = _strip(c)
    if isinstance(c2, dict) and c2.get("k") == "Bin" and c2.get("op") == "&&":
        return _conjuncts(c2["l"]) + _conjuncts(c2["r"])
    return [c]


def _bare_exit(s, kind):
    """`return;` / `continue;`, possibly wrapped in a block"""
    ss = _stmts(s)
    return len(ss) == 1 and isinstance(ss[0], dict) and ss[0].get("k") == kind and ss[0].get("e") is None


def _guard_tail(stmts, exit_kind):
    """S4: a block in tail position (void function body: exit = return; loop body: exit = continue) that ends with
    `if (a && b) { X }` (no else)  ->  `if (!a) exit; if (!b) exit; X` (repeated for the new tail): both spellings of "do X only
    if ..." become the guard-clause form, one guard per conjunct (same evaluation order as the && chain)."""
    out = list(stmts)
    for _ in range(8):
        if not out or not isinstance(out[-1], dict) or out[-1].get("k") != "If" or out[-1].get("e") is not None:
            break
        last = out[-1]
        inner = _stmts(last.get("t"))
        if not inner or _bare_exit(last.get("t"), exit_kind) or _exits(last.get("t")):
            break
        if len(inner) == 1 and isinstance(inner[0], dict) and inner[0].get("k") in ("Return", "Continue", "Break"):
            break
        guards = []
        for cj in _conjuncts(last["c"]):
            neg = _neg(cj)
            if isinstance(neg, dict) and neg.get("k") == "Bin":
                neg = norm_expr(neg)
            guards.append({"k": "If", "c": neg, "t": {"k": exit_kind, "loc": last.get("loc"), "synth": True}, "e": None, "loc": last.get("loc"), "synth": True})
        out = out[:-1] + guards + inner
    # a trailing bare exit is redundant
    while out and isinstance(out[-1], dict) and out[-1].get("k") == exit_kind and out[-1].get("e") is None:
        out = out[:-1]
    return out


def _tail_loops(n):
    """apply S4 to the bodies of loops (exit = continue)"""
    if isinstance(n, list):
        for x in n:
            _tail_loops(x)
        return
    if not isinstance(n, dict):
        return
    for v in list(n.values()):
        if isinstance(v, (dict, list)):
            _tail_loops(v)
    if n.get("k") in ("For", "RangeFor", "Do") and isinstance(n.get("b"), dict):
        b = n["b"]
        body = _stmts(b)
        new = _guard_tail(body, "Continue")
        if len(new) != len(body):
            n["b"] = {"k": "Block", "s": new, "loc": b.get("loc")}


def nest_guards(stmts, kind="Return"):
    """the inverse view of S4 for rules that compare a void function with a value-returning twin (stream writer / byte writer):
    `if (c) return; REST` -> `if (!c) { REST }`"""
    out = list(stmts)
    for i, s in enumerate(out):
        if isinstance(s, dict) and s.get("k") == "If" and s.get("e") is None and _bare_exit(s.get("t"), kind):
            rest = out[i + 1:]
            if not rest:
                return out[:i]
            inner = nest_guards(rest, kind)
            neg = _neg(s["c"])
            if isinstance(neg, dict) and neg.get("k") == "Bin":
                neg = norm_expr(neg)
            new = {"k": "If", "c": neg, "t": {"k": "Block", "s": inner, "loc": (rest[0] or {}).get("loc") if isinstance(rest[0], dict) else None}, "e": None, "loc": s.get("loc"), "synth": True}
            return out[:i] + [new]
    return out


def _propagate_const_literals(body):
    """E15: a `const` integral local whose initialiser is an integer / bool literal or a named constant (an enumerator, a static
    const with a known value) reads as that value: `const int max_sd = 3; if (x > max_sd)` is `if (x > 3)`; `const uint8_t lo =
    hll_constants::MIN_LOG_K;` is the named constant itself.  The declaration stays."""
    lits = {}

    def dv(n):
        if n.get("k") == "Decl":
            for v in n.get("vars", []):
                t = (v.get("t") or "")
                if "d" not in v or not v.get("const") or v.get("ref") or "*" in t or v.get("init") is None:
                    continue
                if not any(x in t for x in ("int", "long", "short", "char", "bool", "size_t", "uint", "unsigned")) or any(x in t for x in ("float", "double", "std::", "vector")):
                    continue
                i = _strip(v["init"])
                while isinstance(i, dict) and i.get("k") == "Construct" and len(i.get("args", [])) == 1:
                    i = _strip(i["args"][0])
                if not isinstance(i, dict):
                    continue
                if i.get("k") in ("Int", "Bool") or (i.get("k") in ("Ref", "Member") and isinstance(i.get("v"), int) and (i.get("dk") in ("global", "enum") or i.get("isstatic"))):
                    # the value must survive the conversion to the local's type unchanged
                    val = i.get("v") if i.get("k") != "Bool" else int(bool(i.get("b")))
                    sz = v.get("sz") or 8
                    if isinstance(val, int) and 0 <= val < (1 << (8 * min(sz, 8) - 1)):
                        lits[v["d"]] = (i, v)
    _walk(body, dv)
    if not lits:
        return body
    # a local whose address is taken or that is written (cannot be, it is const) is left alone
    addr = set()
    _walk(body, lambda n: addr.add(_strip(n.get("e")).get("d")) if n.get("k") == "Un" and n.get("op") == "&" and isinstance(_strip(n.get("e")), dict) and _strip(n["e"]).get("k") == "Ref" else None)
    import copy

    def sub(n):
        if isinstance(n, list):
            return [sub(x) for x in n]
        if not isinstance(n, dict):
            return n
        if n.get("k") == "Ref" and n.get("d") in lits and n["d"] not in addr:
            i, v = lits[n["d"]]
            r = copy.deepcopy(i)
            r["loc"] = n.get("loc")
            if r.get("k") in ("Int", "Bool"):
                r["t"] = (n.get("t") or "").replace("const ", "")
                r["sz"] = n.get("sz")
            return r
        return {k: sub(v2) for k, v2 in n.items()}
    return sub(body)


def norm_function(fn):
    body = fn.get("body")
    if not isinstance(body, dict):
        return fn
    if not LIGHT[0]:
        body = _propagate_const_literals(body)
    r = norm_stmt(body)
    body = r[0] if len(r) == 1 else {"k": "Block", "s": r, "loc": body.get("loc")}
    if LIGHT[0]:
        fn["body"] = body
        return fn
    _tail_loops(body)
    if (fn.get("ret") == "void" or fn.get("kind") in ("ctor", "dtor")) and body.get("k") == "Block":
        body["s"] = _guard_tail(body.get("s", []), "Return")
        # S12: `if (ok) return; throw X;` at the end of a void function  ->  `if (!ok) throw X;`
        ss = body["s"]
        for i in range(len(ss) - 1):
            s0 = ss[i]
            if isinstance(s0, dict) and s0.get("k") == "If" and s0.get("e") is None and _bare_exit(s0.get("t"), "Return"):
                tail = ss[i + 1:]
                import astu
                if tail and astu.always_throws({"k": "Block", "s": tail}) and not any(isinstance(x, dict) and x.get("k") == "Decl" for x in tail):
                    neg = _neg(s0["c"])
                    if isinstance(neg, dict) and neg.get("k") in ("Bin", "Un"):
                        neg = norm_expr(neg)
                    body["s"] = ss[:i] + [{"k": "If", "c": neg, "t": {"k": "Block", "s": tail, "loc": tail[0].get("loc")}, "e": None, "loc": s0.get("loc"), "synth": True}]
                    break
    fn["body"] = body
    for i in fn.get("inits", []) or []:
        if isinstance(i.get("e"), (dict, list)):
            i["e"] = norm_expr(i["e"])
    return fn
