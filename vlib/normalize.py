"""Semantics-preserving normalisation of exported function bodies, applied once when facts are loaded, so that every rule sees
one canonical form of constructs that maintainers routinely rewrite into each other:

  E1  !(a == b) -> a != b ; !(a != b) -> a == b ; !!a -> a                     (integral / pointer / bool operands only)
  E2  comparisons are oriented: the operand with the smaller text on the left (a > b  ==  b < a)
  E3  (a < b) ? a : b and friends -> min(a, b) / max(a, b); arguments of min / max sorted by text
  E5  for unsigned X (own type unsigned, or unsigned char / short promoted): 0 < X, 1 <= X -> 0 != X ; 0 >= X, 1 > X -> 0 == X
  E6  0 != (a & b) -> (a & b) used as a bool ; 0 == (a & b) -> !(a & b)          (bit tests are written implicitly in this code base)
  E7  c ? true : false -> c ; c ? false : true -> !c
  E4  x += 1, x = x + 1, x++ (value unused) -> ++x ; likewise --x
  S1  if (!c) A else B -> if (c) B else A
  S2  if (c) { ...always exits } else B  ->  if (c) { ... } ; B            (else after return / throw)
  S3  if (a) { if (b) X }  ->  if (a && b) X                                (no else on either)
  S5  `while (c) body` and `for (; c; ) body` are both exported as For nodes with empty init / increment

Nothing here changes which values are computed, in which order side effects happen, or which exceptions are thrown."""
FLIP = {"<": ">", ">": "<", "<=": ">=", ">=": "<=", "==": "==", "!=": "!="}
NEG_EQ = {"==": "!=", "!=": "=="}


def _txt(e):
    import astu
    return astu.txt(e)


def _is_float(e):
    t = (e.get("t") or "") if isinstance(e, dict) else ""
    return any(x in t for x in ("float", "double"))


def _strip(e):
    while isinstance(e, dict) and e.get("k") in ("Cast", "Paren") and e.get("e") is not None:
        e = e["e"]
    return e


def _same(a, b):
    return _txt(a).replace(" ", "") == _txt(b).replace(" ", "")


def _lit(x):
    x = _strip(x)
    if isinstance(x, dict) and x.get("k") == "Int":
        return x.get("v")
    return None


def _unsigned(x):
    """x (an operand of a comparison) can only hold values >= 0: its own type is unsigned, or it is an unsigned char / short
    promoted to int"""
    if not isinstance(x, dict):
        return False
    t = (x.get("t") or "").replace("const ", "")
    if t.startswith("unsigned"):
        return True
    sx = _strip(x)
    if isinstance(sx, dict) and sx.get("k") == "Bin" and sx.get("op") == "&":
        for side in ("l", "r"):
            o = _strip(sx[side])
            v = o.get("v") if isinstance(o, dict) and o.get("k") not in ("Call", "OpCall", "Assign") and isinstance(o.get("v"), int) and not isinstance(o.get("v"), bool) else None
            if v is not None and v >= 0:
                return True   # masking with a non-negative constant cannot give a negative value
    if x.get("k") in ("Cast", "Paren") and t == "int":
        i = _strip(x)
        ti = ((i or {}).get("t") or "").replace("const ", "") if isinstance(i, dict) else ""
        return ti in ("unsigned char", "unsigned short", "bool")
    return False


def _lit(x):
    x = _strip(x)
    if isinstance(x, dict) and x.get("k") == "Int":
        return x.get("v")
    return None


def _boolcast(x, like):
    return {"k": "Cast", "t": "bool", "impl": True, "ck": "IntegralToBoolean", "e": x, "loc": like.get("loc"), "sz": 1, "synth": True}


def _zero_cmp(e):
    """E5: for unsigned X: 0 < X, 1 <= X -> 0 != X ; 0 >= X, 1 > X -> 0 == X.   E6: 0 != (a & b) -> (a & b) as a bool, 0 == (a & b) -> !(a & b)"""
    l, r, op = e["l"], e["r"], e["op"]
    if _lit(l) is None and _lit(r) is not None:
        l, r, op = r, l, FLIP[op]
    v = _lit(l)
    if v is None or _lit(r) is not None:
        return e
    x = r
    new = None
    if _unsigned(x):
        if (v == 0 and op == "<") or (v == 1 and op == "<="):
            new = "!="
        elif (v == 0 and op == ">=") or (v == 1 and op == ">"):
            new = "=="
    if new is not None:
        zero = dict(_strip(l))
        zero["v"], zero["lit"] = 0, "0"
        e = dict(e)
        e["l"], e["r"], e["op"] = zero, x, new
        v, op = 0, new
    if v == 0 and op in ("!=", "==") and not _is_float(_strip(x)):
        sx = _strip(x)
        if isinstance(sx, dict) and sx.get("k") == "Bin" and sx.get("op") == "&":
            b = _boolcast(x, e)
            return b if op == "!=" else {"k": "Un", "op": "!", "e": b, "loc": e.get("loc"), "t": "bool", "sz": 1}
    return e


def norm_expr(e):
    """bottom-up rewrite of one expression node (dicts / lists)"""
    if isinstance(e, list):
        return [norm_expr(x) for x in e]
    if not isinstance(e, dict):
        return e
    if e.get("k") == "Lambda" and isinstance(e.get("body"), dict):
        r = norm_stmt(e["body"])
        e["body"] = r[0] if len(r) == 1 else {"k": "Block", "s": r, "loc": e["body"].get("loc")}
        return e
    for k, v in list(e.items()):
        if isinstance(v, (dict, list)):
            e[k] = norm_expr(v)
    k = e.get("k")
    if k == "Un" and e.get("op") == "!":
        inner = _strip(e.get("e"))
        if isinstance(inner, dict) and inner.get("k") == "Un" and inner.get("op") == "!":
            return inner["e"]
        if isinstance(inner, dict) and inner.get("k") == "Bin" and inner.get("op") in NEG_EQ and not _is_float(_strip(inner["l"])) and not _is_float(_strip(inner["r"])):
            n = dict(inner)
            n["op"] = NEG_EQ[inner["op"]]
            return n
    if k == "Bin" and e.get("op") in FLIP:
        e = _zero_cmp(e)
        if e.get("k") != "Bin" or e.get("op") not in FLIP:
            return e
        try:
            if _txt(e["l"]) > _txt(e["r"]):
                e["l"], e["r"] = e["r"], e["l"]
                e["op"] = FLIP[e["op"]]
        except Exception:
            pass
    if k == "Cond":
        a, b = _strip(e.get("a")), _strip(e.get("e"))
        if isinstance(a, dict) and isinstance(b, dict) and a.get("k") == "Bool" and b.get("k") == "Bool" and a.get("b") != b.get("b"):
            c0 = e.get("c")
            pos = c0 if (c0.get("t") == "bool") else _boolcast(c0, e)
            if a.get("b"):
                return pos
            return norm_expr({"k": "Un", "op": "!", "e": pos, "loc": e.get("loc"), "t": "bool", "sz": 1})
        c = _strip(e.get("c"))
        if isinstance(c, dict) and c.get("k") == "Bin" and c.get("op") in ("<", ">", "<=", ">="):
            l, r, a, b = c["l"], c["r"], e.get("a"), e.get("e")
            try:
                if not (_is_float(_strip(l)) or _is_float(_strip(r))):
                    pick = None
                    if _same(a, l) and _same(b, r):
                        pick = "min" if c["op"] in ("<", "<=") else "max"
                    elif _same(a, r) and _same(b, l):
                        pick = "max" if c["op"] in ("<", "<=") else "min"
                    if pick:
                        args = sorted([l, r], key=_txt)
                        return {"k": "Call", "cname": pick, "callee": "std::" + pick, "args": args, "loc": e.get("loc"), "t": e.get("t"), "sz": e.get("sz"), "synth": True}
            except Exception:
                pass
    if k == "Call" and e.get("cname") in ("min", "max") and (e.get("callee") or "").startswith("std::") and len(e.get("args", [])) == 2:
        try:
            e["args"] = sorted(e["args"], key=_txt)
        except Exception:
            pass
    return e


def _incdec(e):
    """x += 1 / x = x + 1 / x++ as a whole statement -> ++x"""
    s = _strip(e)
    if not isinstance(s, dict):
        return e
    if s.get("k") == "Un" and s.get("op") in ("++", "--") and s.get("post"):
        n = dict(s)
        n["post"] = False
        return n
    if s.get("k") == "Assign" and s.get("op") in ("+=", "-=") and _strip(s.get("r")).get("v") == 1 and _strip(s.get("r")).get("k") in ("Int", "Cast"):
        return {"k": "Un", "op": "++" if s["op"] == "+=" else "--", "post": False, "e": s["l"], "loc": s.get("loc"), "t": s.get("t"), "sz": s.get("sz")}
    if s.get("k") == "Assign" and s.get("op") == "=":
        r = _strip(s.get("r"))
        if isinstance(r, dict) and r.get("k") == "Bin" and r.get("op") in ("+", "-") and _strip(r.get("r")).get("v") == 1 and _same(r.get("l"), s.get("l")):
            return {"k": "Un", "op": "++" if r["op"] == "+" else "--", "post": False, "e": s["l"], "loc": s.get("loc"), "t": s.get("t"), "sz": s.get("sz")}
    return e


def _exits(s):
    import astu
    return astu.always_exits(s)


def _stmts(s):
    if s is None:
        return []
    if s.get("k") == "Block":
        return s.get("s", [])
    return [s]


def _neg(c):
    c2 = _strip(c)
    if isinstance(c2, dict) and c2.get("k") == "Un" and c2.get("op") == "!":
        return c2["e"]
    if isinstance(c2, dict) and c2.get("k") == "Bin" and c2.get("op") in NEG_EQ and not _is_float(_strip(c2["l"])) and not _is_float(_strip(c2["r"])):
        n = dict(c2)
        n["op"] = NEG_EQ[c2["op"]]
        return n
    return {"k": "Un", "op": "!", "e": c, "loc": (c or {}).get("loc"), "t": "bool", "sz": 1}


def norm_stmt(s):
    """returns a LIST of statements replacing s"""
    if not isinstance(s, dict):
        return [s]
    k = s.get("k")
    if k == "Block":
        out = []
        for c in s.get("s", []):
            out += norm_stmt(c)
        s["s"] = out
        return [s]
    if k == "Expr":
        s["e"] = _incdec(norm_expr(s.get("e")))
        return [s]
    if k == "Return":
        if s.get("e") is not None:
            s["e"] = norm_expr(s["e"])
        return [s]
    if k == "Decl":
        for v in s.get("vars", []):
            if v.get("init") is not None:
                v["init"] = norm_expr(v["init"])
        return [s]
    if k in ("For", "While", "Do", "RangeFor", "Switch", "Case", "Default", "Try", "Catch", "Label"):
        for key in ("init", "i"):
            if isinstance(s.get(key), dict):
                r = norm_stmt(s[key])
                s[key] = r[0] if len(r) == 1 else {"k": "Block", "s": r, "loc": s[key].get("loc")}
        for key in ("c", "range"):
            if s.get(key) is not None:
                s[key] = norm_expr(s[key])
        for key in ("inc", "u"):
            if s.get(key) is not None:
                s[key] = _incdec(norm_expr(s[key]))
        for h in s.get("handlers") or []:
            if isinstance(h, dict) and isinstance(h.get("s"), dict):
                r = norm_stmt(h["s"])
                h["s"] = r[0] if len(r) == 1 else {"k": "Block", "s": r, "loc": h["s"].get("loc")}
        for key in ("b", "body", "s"):
            if isinstance(s.get(key), dict):
                r = norm_stmt(s[key])
                s[key] = r[0] if len(r) == 1 else {"k": "Block", "s": r, "loc": s[key].get("loc")}
        if isinstance(s.get("s"), list):
            out = []
            for c in s["s"]:
                out += norm_stmt(c)
            s["s"] = out
        if k == "While":  # S5
            s["k"] = "For"
            s["was"] = "While"
            s.setdefault("init", None)
            s.setdefault("inc", None)
        return [s]
    if k == "If":
        s["c"] = norm_expr(s.get("c"))
        for key in ("t", "e"):
            if isinstance(s.get(key), dict):
                r = norm_stmt(s[key])
                s[key] = r[0] if len(r) == 1 else {"k": "Block", "s": r, "loc": s[key].get("loc")}
        # S1
        c = _strip(s["c"])
        if s.get("e") is not None and isinstance(c, dict) and c.get("k") == "Un" and c.get("op") == "!":
            s["c"] = c["e"]
            s["t"], s["e"] = s["e"], s["t"]
        # S2
        if s.get("e") is not None and _exits(s.get("t")):
            rest = _stmts(s["e"])
            s["e"] = None
            return [s] + rest
        # S3
        if s.get("e") is None:
            inner = _stmts(s.get("t"))
            if len(inner) == 1 and isinstance(inner[0], dict) and inner[0].get("k") == "If" and inner[0].get("e") is None:
                s["c"] = {"k": "Bin", "op": "&&", "l": s["c"], "r": inner[0]["c"], "loc": s["c"].get("loc") if isinstance(s["c"], dict) else None, "t": "bool", "sz": 1}
                s["t"] = inner[0]["t"]
        return [s]
    # anything else: normalise embedded expressions generically
    for key, v in list(s.items()):
        if isinstance(v, (dict, list)) and key not in ("s",):
            s[key] = norm_expr(v)
    return [s]


def norm_function(fn):
    body = fn.get("body")
    if not isinstance(body, dict):
        return fn
    r = norm_stmt(body)
    body = r[0] if len(r) == 1 else {"k": "Block", "s": r, "loc": body.get("loc")}
    fn["body"] = body
    for i in fn.get("inits", []) or []:
        if isinstance(i.get("e"), (dict, list)):
            i["e"] = norm_expr(i["e"])
    return fn
