"""Framework core: fact extraction from /repo's current working tree, obligation bookkeeping,
known-findings matching, evidence writing and the exit-code contract.

Exit codes: 0 = all obligations discharged (or listed known findings); 1 = unlisted violation
(prints `VIOLATION property=<id> replay=<path>`); 2 = analysis broken (anchor vanished, instance
count below the frozen minimum, unrecognised construct in an armed function, driver does not
compile).  Nothing here executes library code.
"""
import glob
import hashlib
import json
import os
import subprocess
import sys
import time

VERIF = os.path.dirname(os.path.dirname(os.path.abspath(__file__)))
REPO = os.environ.get("VERIF_REPO", "/repo").rstrip("/")
FAMILIES = ["common", "theta", "tuple", "hll", "cpc", "kll", "req", "quantiles", "fi", "count",
            "sampling", "tdigest", "filters", "density"]
DSX = os.path.join(VERIF, "tools", "dsx", "dsx")
CACHE = os.environ.get("VERIF_CACHE", os.path.join(VERIF, ".cache"))


class AnalysisBroken(Exception):
    pass


def include_files(repo=None):
    repo = repo or REPO
    out = []
    for fam in FAMILIES:
        out += sorted(glob.glob(os.path.join(repo, fam, "include", "*")))
    return out


def tree_hash(tier, repo=None):
    h = hashlib.sha256()
    for p in include_files(repo):
        h.update(p.encode())
        with open(p, "rb") as f:
            h.update(f.read())
    for p in sorted(glob.glob(os.path.join(VERIF, "drivers", "*"))) + [os.path.join(VERIF, "tools", "dsx", "dsx.cc")]:
        with open(p, "rb") as f:
            h.update(f.read())
    h.update(tier.encode())
    return h.hexdigest()[:24]


def ensure_dsx():
    src = os.path.join(VERIF, "tools", "dsx", "dsx.cc")
    if not os.path.exists(DSX) or os.path.getmtime(DSX) < os.path.getmtime(src):
        r = subprocess.run([os.path.join(VERIF, "tools", "dsx", "build.sh")], capture_output=True, text=True)
        if r.returncode != 0:
            raise AnalysisBroken("cannot build exporter: " + r.stderr[-400:])


def driver_list(tier):
    ds = sorted(glob.glob(os.path.join(VERIF, "drivers", "*.cpp")))
    if tier != "thorough":
        ds = [d for d in ds if not os.path.basename(d).startswith("t_")]
    return ds


def export_facts(tier, repo=None):
    """Run the exporter over all drivers against the CURRENT tree (cached by content hash)."""
    repo = repo or REPO
    ensure_dsx()
    hsh = tree_hash(tier, repo)
    out = os.path.join(CACHE, hsh)
    drivers = driver_list(tier)
    done = os.path.join(out, "DONE")
    if not os.path.exists(done):
        os.makedirs(out, exist_ok=True)
        res = subprocess.run(["clang++", "-print-resource-dir"], capture_output=True, text=True).stdout.strip()
        incs = []
        for fam in FAMILIES:
            incs += ["-I" + os.path.join(repo, fam, "include")]
        procs = []
        for d in drivers:
            b = os.path.basename(d)[:-4]
            cmd = [DSX, d, "-root", repo + "/", "-o", os.path.join(out, b + ".json"), "--",
                   "-std=c++11", "-UNDEBUG", "-Wno-return-stack-address", "-I" + os.path.join(VERIF, "drivers")] + incs + ["-resource-dir", res]
            procs.append((b, subprocess.Popen(cmd, stdout=subprocess.PIPE, stderr=subprocess.PIPE, text=True)))
        errs = []
        for b, p in procs:
            so, se = p.communicate()
            if p.returncode != 0 or "error:" in se:
                errs.append((b, se))
        failed = {}
        for b, se in errs:
            failed[b] = [l for l in se.splitlines() if "error" in l][:3]
            try:
                os.remove(os.path.join(out, b + ".json"))
            except OSError:
                pass
        with open(os.path.join(out, "FAILED.json"), "w") as f:
            json.dump(failed, f)
        open(done, "w").write(time.strftime("%F %T"))
        # keep at most 4 cached hashes (VERIF_CACHE_KEEP raises it for parallel experiments on many scratch trees)
        keep = int(os.environ.get("VERIF_CACHE_KEEP", "4"))
        ents = sorted(glob.glob(os.path.join(CACHE, "*")), key=os.path.getmtime)
        for e in ents[:-keep]:
            subprocess.run(["rm", "-rf", e])
    return out, hsh


class Facts:
    """Lazy per-driver access to exported facts."""

    def __init__(self, tier="quick", repo=None):
        self.tier = tier
        self.repo = repo or REPO
        self.dir, self.hash = export_facts(tier, self.repo)
        self._loaded = {}
        self.drivers = [os.path.basename(d)[:-4] for d in driver_list(tier)]

    def load(self, name):
        if name not in self._loaded:
            fp = os.path.join(self.dir, "FAILED.json")
            failed = json.load(open(fp)) if os.path.exists(fp) else {}
            if name in failed:
                raise AnalysisBroken("instantiation driver `%s` does not compile against the current tree (a member that the tests never instantiate may not compile): %s" % (name, failed[name]))
            with open(os.path.join(self.dir, name + ".json")) as f:
                data = json.load(f)
            rm = self.rename_map()
            if rm is not None:
                from vlib import renames
                renames.apply(data, rm)
            if getattr(self, "normalize", True) and not os.environ.get("VERIF_NO_NORMALIZE"):
                from vlib import normalize
                sys.path.insert(0, os.path.join(VERIF, "rules")) if os.path.join(VERIF, "rules") not in sys.path else None
                normalize.LIGHT[0] = bool(getattr(self, "light_only", False))
                try:
                    for fn in data.get("functions", []):
                        try:
                            normalize.norm_function(fn)
                        except RecursionError:
                            pass
                finally:
                    normalize.LIGHT[0] = False
            self._loaded[name] = data
        return self._loaded[name]

    def rename_map(self):
        """R0 (vlib/renames.py): internal names of the current tree that are renamed versions of reviewed names; computed once per
        exported tree and cached next to the facts"""
        if os.environ.get("VERIF_NO_RENAMES"):
            return None
        if getattr(self, "_rmap", False) is not False:
            return self._rmap
        from vlib import renames
        rev = renames.reviewed()
        self._rmap = None
        if rev is not None:
            cp = os.path.join(self.dir, "_renames.json")
            sig = str(os.path.getmtime(renames.SPEC)) + str(os.path.getmtime(renames.__file__))
            m = None
            if os.path.exists(cp):
                try:
                    c = json.load(open(cp))
                    if c.get("sig") == sig:
                        m = c["map"]
                except Exception:
                    m = None
            if m is None:
                datas = []
                for d in self.drivers:
                    fp = os.path.join(self.dir, d + ".json")
                    if os.path.exists(fp):
                        with open(fp) as f:
                            datas.append(json.load(f))
                m = renames.compute_map(rev, renames.snapshot(datas))
                try:
                    with open(cp + ".tmp%d" % os.getpid(), "w") as f:
                        json.dump({"sig": sig, "map": m}, f)
                    os.replace(cp + ".tmp%d" % os.getpid(), cp)
                except Exception:
                    pass
            self._rmap = None if renames.is_empty(m) else m
            if self._rmap is not None:
                RENAMED[0] = renames.describe(self._rmap)
        return self._rmap

    def raw(self):
        """the same facts without the normalisation pass (for the path-complete abstract interpreters, which do not depend on
        the form of the code and were validated on the exported AST as it is)"""
        if getattr(self, "_raw", None) is None:
            import copy
            r = copy.copy(self)
            r._loaded = {}
            r.normalize = False
            r._raw = r
            self._raw = r
        return self._raw

    def light(self):
        """the facts with only the loop canonicalisations applied (while / for / index / iterator loops in one form): the view of
        the byte-level abstract interpreters A1 / A2, whose trip-count reasoning needs the loop forms but which were validated on
        expressions and branches exactly as written"""
        if getattr(self, "_light", None) is None:
            import copy
            r = copy.copy(self)
            r._loaded = {}
            r.normalize = True
            r.light_only = True
            r._raw = None
            r._light = r
            self._light = r
        return self._light

    def functions(self, names=None):
        """All exported function instances of the given drivers (default: all but bitpack)."""
        names = self._names(names)
        out = []
        for n in names:
            out += self.load(n)["functions"]
        return out

    def _names(self, names):
        if not names:
            # x_* drivers (e.g. the custom-allocator instantiation) are analysed only by the rules that ask for them by name
            return [d for d in self.drivers if d != "bitpack" and not d.startswith("x_")]
        # thorough tier: the extra instantiation drivers (t_*) are analysed together with every family
        return list(names) + [d for d in self.drivers if d.startswith("t_") and d not in names]

    def by_pattern(self, names=None):
        """pattern location -> first instance."""
        bp = {}
        for fn in self.functions(names):
            bp.setdefault(fn["pat"], fn)
        return bp

    def records(self, names=None):
        names = self._names(names)
        out = []
        for n in names:
            out += self.load(n)["records"]
        return out

    def globals(self, names=None):
        names = self._names(names)
        seen = {}
        for n in names:
            for g in self.load(n)["globals"]:
                seen.setdefault(g["qname"], g)
        return list(seen.values())


# ---------------------------------------------------------------------------------------------
# obligations

def ob(rule, key, site, status, detail, fn=""):
    """rule: rule id; key: stable identity (no line numbers) used for known findings;
    site: file:line for the human; status: discharged | violated | unrecognised | info."""
    return {"rule": rule, "key": key, "site": site, "fn": fn, "status": status, "detail": detail}


def load_known():
    p = os.path.join(VERIF, "known_findings.json")
    if not os.path.exists(p):
        return {"known": [], "fixed": []}
    with open(p) as f:
        return json.load(f)


RENAMED = [[]]


def finish(pid, tier, level, rules_run, obligations, t0, explanation, assumptions, extra_cov=None, notes=None, extra_broken=None):
    """Print the report, compare with known findings, write evidence, exit by contract."""
    known = [k for k in load_known().get("known", []) if k["property"] == pid]
    known_keys = {(k["rule"], k["key"]): k for k in known}
    viol = [o for o in obligations if o["status"] == "violated"]
    unrec = [o for o in obligations if o["status"] == "unrecognised"]
    disc = [o for o in obligations if o["status"] == "discharged"]
    info = [o for o in obligations if o["status"] == "info"]
    listed, unlisted = [], []
    for o in viol:
        (listed if (o["rule"], o["key"]) in known_keys else unlisted).append(o)

    print("property %s tier=%s tree=%s" % (pid, tier, REPO))
    if RENAMED[0]:
        print("  names restored (R0, vlib/renames.py; reports below use the reviewed names): %s" % "; ".join(RENAMED[0][:12]) + (" ... (%d in all)" % len(RENAMED[0]) if len(RENAMED[0]) > 12 else ""))
    for r in rules_run:
        print("  rule %-28s instances=%-4d min=%-4d %s" % (r["rule"], r["instances"], r["min"], r.get("text", "")))
    print("  obligations: %d discharged, %d violated (%d listed as known findings), %d unrecognised, %d informational"
          % (len(disc), len(viol), len(listed), len(unrec), len(info)))
    for o in info[:40]:
        print("  info: [%s] %s  %s: %s" % (o["rule"], o["site"], o["fn"], o["detail"]))

    broken = list(extra_broken or [])
    for r in rules_run:
        if r["instances"] < r["min"]:
            broken.append("rule %s matched %d instances, frozen minimum %d (anchor vanished or rule went vacuous)" % (r["rule"], r["instances"], r["min"]))
    for o in unrec:
        broken.append("unrecognised construct in armed function: [%s] %s %s: %s" % (o["rule"], o["site"], o["fn"], o["detail"]))

    seen = set()
    for o in listed:
        k = (o["rule"], o["key"])
        if k in seen:
            continue
        seen.add(k)
        print("KNOWN-FINDING: property=%s [%s] %s at %s (%s): %s" % (pid, o["rule"], o["key"], o["site"], o["fn"], known_keys[k].get("what", o["detail"])))

    rc = 0
    fdir = os.path.join(VERIF, "findings", pid)
    if unlisted:
        os.makedirs(fdir, exist_ok=True)
        for f in glob.glob(os.path.join(fdir, "*.json")):
            os.remove(f)
        for i, o in enumerate(unlisted):
            path = os.path.join(fdir, "%d.json" % i)
            with open(path, "w") as f:
                json.dump({"property": pid, "obligation": o, "tree": REPO}, f, indent=1)
            print("  violated: [%s] %s" % (o["rule"], o["key"]))
            print("      at %s in %s" % (o["site"], o["fn"]))
            print("      %s" % o["detail"])
            print("VIOLATION property=%s replay=%s" % (pid, path))
        rc = 1
    elif broken:
        for b in broken:
            print("ANALYSIS-BROKEN property=%s reason=%s" % (pid, b))
        rc = 2

    def sample(o):
        return {"rule": o["rule"], "instance": o["key"], "site": o["site"], "function": o["fn"], "status": o["status"], "detail": o["detail"][:300]}
    samples = [sample(o) for o in disc[:: max(1, len(disc) // 12)][:12]] + [sample(o) for o in viol[:12]]
    cov = {
        "explanation": explanation,
        "evaluations": len(obligations) - len(info),
        "distinct_nontrivial": len({(o["rule"], o["key"]) for o in obligations if o["status"] != "info"}),
        "rule": "one obligation per (rule, construct) found in the typed AST of the current tree; distinct = distinct (rule, stable construct key)",
        "samples": samples or [{"note": "no obligations"}],
        "obligations": len(obligations) - len(info),
        "discharged": len(disc),
        "violated_listed_known": len(listed),
        "violated_unlisted": len(unlisted),
        "unrecognised": len(unrec),
        "rules": rules_run,
        "tree_hash": FACTS_HASH[0],
        "known_findings_suppressed": sorted({"%s|%s" % (o["rule"], o["key"]) for o in listed}),
        "analysis_broken": broken,
        "names_restored": list(RENAMED[0]),
    }
    if level == "proof":
        cov["checker_cmd"] = "./check %s --tier %s" % (pid, tier)
        cov["trusted_base"] = ["clang 14 front end and constant evaluator", "tools/dsx exporter", "rules/*.py", "spec/*.json"]
        cov["exhaustive"] = True
    if extra_cov:
        cov.update(extra_cov)
    ev = {
        "property_id": pid, "tier": tier, "seed": int(os.environ.get("VERIF_SEED", "0") or 0), "level": level,
        "coverage": cov, "assumptions": list(assumptions or []) + ["internal names that exist in only one of the reviewed and the current tree are relabelled to the reviewed ones before the rules run (R0, vlib/renames.py; reference spec/names.json); the relabelled names of this run are listed in coverage.names_restored"], "wall_s": round(time.time() - t0, 3), "violations": len(unlisted),
    }
    if notes:
        ev["notes"] = notes
    if not (os.environ.get("VERIF_REPO") and os.environ.get("VERIF_NO_EVIDENCE")):
        # evidence always describes /repo itself; experiments on scratch trees (tools/try_refactor.sh) do not overwrite it
        os.makedirs(os.path.join(VERIF, "evidence"), exist_ok=True)
        with open(os.path.join(VERIF, "evidence", pid + ".json"), "w") as f:
            json.dump(ev, f, indent=1)
    print("result: %s (exit %d), %.2fs" % ({0: "HELD", 1: "VIOLATION", 2: "ANALYSIS-BROKEN"}[rc], rc, time.time() - t0))
    return rc


FACTS_HASH = [""]
