"""A4 header rule: in every byte writer `vector_bytes serialize*(..., unsigned header_size_bytes)`:
 (1) the result vector's size expression depends on the header parameter,
 (2) the write cursor starts at data() + header,
 (3) an end pointer that takes part in an (in)equality self-check equals data() + total, not cursor + total,
 (4) a delegating writer forwards the header parameter to the callee.
Functions are selected by signature (returns std::vector<unsigned char,..>, has an `unsigned int` parameter), not by name.
"""
import json
from a4_shape import strip
from vlib.core import ob


def walk(n, f):
    if isinstance(n, dict):
        f(n)
        for v in n.values():
            walk(v, f)
    elif isinstance(n, list):
        for v in n:
            walk(v, f)


def obligations(facts):
    out = []
    seen = set()
    for fn in facts.functions():
        if not fn["ret"].startswith("std::vector<unsigned char") or fn["pat"] in seen or fn.get("body") is None:
            continue
        hp = [p for p in fn["params"] if p["t"] == "unsigned int"]
        if not hp or fn["kind"] == "lambda":
            continue
        seen.add(fn["pat"])
        hid = hp[-1]["d"]
        rec = (fn.get("rect") or "").replace("datasketches::", "")
        base = "%s::%s" % (rec, fn["name"])
        decls = {}
        walk(fn["body"], lambda n: [decls.__setitem__(v["d"], v) for v in n.get("vars", []) if "d" in v] if n.get("k") == "Decl" else None)
        inline = {d: v["init"] for d, v in decls.items() if v.get("init") is not None}

        def mentions(e, did, depth=0):
            found = [False]

            def v(n):
                if n.get("k") == "Ref":
                    if n["d"] == did:
                        found[0] = True
                    elif n["d"] in inline and depth < 5 and n["d"] != did and mentions(inline[n["d"]], did, depth + 1):
                        found[0] = True
            walk(e, v)
            return found[0]

        vec = [v for v in decls.values() if v["t"].startswith("std::vector<unsigned char") and (v.get("init") or {}).get("k") == "Construct" and v["init"].get("args")
               and (v["init"].get("ptypes") or [""])[0] in ("unsigned long", "unsigned int")]
        if not vec:
            # delegating writer: must forward the header parameter to a callee returning the vector
            calls = []

            def v(n):
                if n.get("k") == "Call" and (n.get("t") or "").startswith("std::vector<unsigned char"):
                    calls.append((n, any(mentions(a, hid) for a in n.get("args", []))))
            walk(fn["body"], v)
            if not calls:
                out.append(ob("header", base + ":form", fn["pat"], "unrecognised", "byte writer neither constructs a sized result vector nor delegates", fn["qname"]))
            for j, (c, ok) in enumerate(calls):
                if ok:
                    out.append(ob("header", base + ":forward#%d" % j, c.get("loc", fn["pat"]), "discharged", "delegates to %s and forwards header_size_bytes" % c.get("cname"), fn["qname"]))
                else:
                    out.append(ob("header", base + ":forward#%d" % j, c.get("loc", fn["pat"]), "violated", "delegating byte writer calls %s without forwarding its header_size_bytes parameter: the returned image has no room for the caller's header" % c.get("cname"), fn["qname"]))
            continue
        v0 = vec[0]
        size = v0["init"]["args"][0]
        if mentions(size, hid):
            out.append(ob("header", base + ":alloc", v0["loc"], "discharged", "result vector size depends on header_size_bytes", fn["qname"]))
        else:
            out.append(ob("header", base + ":alloc", v0["loc"], "violated", "result vector is sized without header_size_bytes (the cursor starts header bytes in: writes run past the end)", fn["qname"]))
        # cursors: pointer locals initialised from the vector's data()
        curs = [c for c in decls.values() if c["t"].endswith("*") and c.get("init") is not None and mentions(c["init"], v0["d"]) and "const" not in c["t"].split("*")[0]]
        # absolute-offset writers (HLL) have no cursor: they index bytes.data() + header + OFF
        cur_ok = [c for c in curs if mentions(c["init"], hid)]
        if curs:
            if cur_ok:
                out.append(ob("header", base + ":cursor", cur_ok[0]["loc"], "discharged", "write cursor starts at data() + header_size_bytes", fn["qname"]))
            else:
                out.append(ob("header", base + ":cursor", curs[0]["loc"], "violated", "write cursor does not start at data() + header_size_bytes", fn["qname"]))
        else:
            out.append(ob("header", base + ":cursor", fn["pat"], "unrecognised", "no write cursor derived from the result vector found", fn["qname"]))
        # end pointers: const pointer locals initialised from cursor/vector + expr and used in ==/!= or relational checks
        cur_ids = [k["d"] for k in curs]
        for c in decls.values():
            if not c["t"].endswith("*") or c.get("init") is None or c["d"] in cur_ids and "const" not in c["t"]:
                continue
            ini = strip(c["init"])
            if ini.get("k") != "Bin" or ini.get("op") != "+":
                continue
            b = strip(ini["l"])
            from_cursor = b.get("k") == "Ref" and b.get("d") in [k["d"] for k in cur_ok]
            if not (from_cursor or mentions(ini["l"], v0["d"])):
                continue
            if c["d"] in [k["d"] for k in cur_ok]:
                continue
            uses_total = mentions(ini["r"], hid)
            eq = [False]

            def vis(n):
                if n.get("k") == "Bin" and n.get("op") in ("!=", "==") and n.get("t") == "bool":
                    if any(strip(n[s]).get("k") == "Ref" and strip(n[s]).get("d") == c["d"] for s in ("l", "r")):
                        eq[0] = True
            walk(fn["body"], vis)
            if from_cursor and uses_total:
                if eq[0]:
                    out.append(ob("header", base + ":endptr", c["loc"], "violated", "end pointer = (cursor already advanced by header) + (total including header) and is used in an equality self-check: header counted twice", fn["qname"]))
                else:
                    out.append(ob("header", base + ":endptr", c["loc"], "info", "end pointer over-long by header_size_bytes (capacity use only)", fn["qname"]))
            else:
                out.append(ob("header", base + ":endptr", c["loc"], "discharged", "end pointer consistent with header", fn["qname"]))
    return out
