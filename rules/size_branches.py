"""A4.2b (structural part): the advertised size function and the byte writer of one type branch on the same predicates over
the object's state.  (A size function that distinguishes `n == 1` while the writer distinguishes `n <= 4` advertises a
different size than is written on the cells in between.)"""
from astu import C, ctxt, gt_pair, eq_const, reach, reach_txt, ctext, strip, walk, txt, short, stmts_of
import a4_twin
from vlib.core import ob


def _polarity_free(c):
    """one key for a predicate and its negation: integer comparisons are brought to ==, < (operands ordered by text)"""
    import re
    m = re.match(r"^\((.*?)(<=|>=|!=|==|<|>)(.*)\)$", c)
    if not m or c.count("(") != c.count(")"):
        return c
    l, op, r = m.group(1), m.group(2), m.group(3)
    # balanced split only
    if l.count("(") != l.count(")") or r.count("(") != r.count(")"):
        return c
    if op in ("!=",):
        op = "=="
    elif op == ">=":
        op = "<"            # !(l >= r) is l < r
    elif op == "<=":
        l, r, op = r, l, "<"   # !(l <= r) is l > r, i.e. r < l
    elif op == ">":
        l, r, op = r, l, "<"
    if op == "==" and l > r:
        l, r = r, l
    return "(%s%s%s)" % (l, op, r)


def conds_of(X, fn):
    inline = X.collect_inline(fn)
    ren, used = {}, set()
    N = a4_twin.TNorm(fn, inline, ren, used)
    N.X = X
    out = set()

    def v(n):
        if n.get("k") in ("If", "Cond"):
            c = N.key(n["c"])
            # only predicates over object state (fields / methods of this), not over locals, cursors or parameters
            if any(tok in c for tok in ("L0", "L1", "L2", "L3", "ptr", "header_size_bytes", "end_ptr", "bytes")):
                return
            c = c[1:] if c.startswith("!") else c
            out.add(_polarity_free(c))
    walk(fn["body"], v)
    return out


def obligations(facts, armed):
    fd = [facts.load(n) for n in facts.drivers if n != "bitpack"]
    X = a4_twin.TExtractor(fd)
    by_rec = {}
    for fn in X.fns:
        if fn.get("rect") is None or fn.get("body") is None:
            continue
        if fn["name"] == "get_serialized_size_bytes":
            by_rec.setdefault(fn["rect"], {}).setdefault("size", []).append(fn)
        if fn["name"] == "serialize" and fn["ret"].startswith("std::vector<unsigned char"):
            by_rec.setdefault(fn["rect"], {}).setdefault("wb", fn)
    out = []
    for rect, d in sorted(by_rec.items()):
        if "size" not in d or "wb" not in d:
            continue
        wc = conds_of(X, d["wb"])
        seen = set()
        for sf in d["size"]:
            if sf["pat"] in seen:
                continue
            seen.add(sf["pat"])
            sc = conds_of(X, sf)
            key = "%s::get_serialized_size_bytes(%s)@%s:branches" % (short(rect), ",".join(p["t"].split("<")[0] for p in sf["params"]), "serde" if "size_of_item" in txt(sf["body"]) else "fixed")
            only_size = sorted(sc - wc)
            only_writer = sorted(c for c in (wc - sc))
            if not only_size:
                out.append(ob("size-branches", key, sf["pat"], "discharged", "every state predicate the size function branches on (%s) is a predicate of the byte writer" % (", ".join(sorted(sc)) or "none"), sf["qname"]))
            elif key in armed:
                out.append(ob("size-branches", key, sf["pat"], "violated", "the size function branches on %s, which the byte writer does not (writer predicates: %s): for states in between, the advertised size differs from the bytes written" % (only_size, sorted(wc)), sf["qname"]))
            else:
                out.append(ob("size-branches", key, sf["pat"], "info", "not comparable: size-only predicates %s" % only_size, sf["qname"]))
    return out
