#!/usr/bin/env python3
"""Prototypes of the small structural rules: theta screens / theta writers / early-break guards (C01, C02),
coin dataflow (C08), iterator boundary agreement (C07), canonicalisation chains (A8)."""
import json, sys, glob, re


def strip(e):
    while isinstance(e, dict) and e.get("k") in ("Cast",):
        e = e["e"]
    if isinstance(e, dict) and e.get("k") == "Construct" and len(e.get("args", [])) == 1:
        return strip(e["args"][0])
    return e


def walk(n, f, parents=()):
    if isinstance(n, dict):
        f(n, parents)
        for v in n.values():
            walk(v, f, parents + (n,))
    elif isinstance(n, list):
        for v in n:
            walk(v, f, parents)


def txt(e):
    e = strip(e)
    if e is None:
        return "?"
    k = e.get("k")
    if k == "Ref":
        return e["n"]
    if k == "Member":
        b = txt(e["b"])
        return e["f"] if b == "this" else b + "." + e["f"]
    if k == "This":
        return "this"
    if k == "Call":
        o = txt(e["obj"]) + "." if e.get("obj") else ""
        return o.replace("this.", "") + e.get("cname", "?") + "(" + ",".join(txt(a) for a in e.get("args", [])) + ")"
    if k == "OpCall":
        a = [txt(x) for x in e.get("args", [])]
        if e["op"] == "()" and a:
            return a[0] + "(" + ",".join(a[1:]) + ")"
        if e["op"] == "[]":
            return a[0] + "[" + a[1] + "]"
        if e["op"] == "*" and len(a) == 1:
            return "*" + a[0]
        return "op" + e["op"] + "(" + ",".join(a) + ")"
    if k == "Bin":
        return "(" + txt(e["l"]) + e["op"] + txt(e["r"]) + ")"
    if k == "Un":
        return e["op"] + txt(e["e"])
    if "v" in e:
        return str(e["v"])
    if k == "Construct":
        return e.get("crec", "").split("::")[-1] + "(" + ",".join(txt(a) for a in e.get("args", [])) + ")"
    if k == "Index":
        return txt(e["b"]) + "[" + txt(e["i"]) + "]"
    return k or "?"


def load():
    fns = []
    for f in sorted(glob.glob("/root/verif-proto/facts/*.json")):
        fns += json.load(open(f))["functions"]
    by_pat = {}
    for fn in fns:
        by_pat.setdefault(fn["pat"], fn)
    return fns, by_pat


def is_theta_expr(e):
    t = txt(e)
    return bool(re.search(r"(^|[._>])(theta_|union_theta_|theta)$", t)) or t in ("theta", "theta_", "union_theta_", "table_.theta_", "key")


def rule_screens(fns, by_pat):
    print("== C01/C02 (a): key-vs-theta screens must accept on '<' (reject on '>=')")
    seen = set()
    for pat, fn in sorted(by_pat.items()):
        if not pat.startswith("theta/") and not pat.startswith("tuple/"):
            continue
        def visit(n, parents):
            if n.get("k") == "Bin" and n.get("op") in ("<", "<=", ">", ">="):
                l, r = txt(n["l"]), txt(n["r"])
                lt, rt = is_theta_expr(n["l"]), is_theta_expr(n["r"])
                if (lt ^ rt) and "MAX_THETA" not in l + r and n.get("t") == "bool":
                    hashside = l if rt else r
                    if not re.search(r"hash|EK\(\)|entry|key|ExtractKey", hashside):
                        return
                    op = n["op"]
                    norm = op if rt else {"<": ">", ">": "<", "<=": ">=", ">=": "<="}[op]   # hash OP theta
                    ok = norm in ("<", ">=")
                    k = (pat, n["loc"])
                    if k not in seen:
                        seen.add(k)
                        print("   %-8s hash %s theta   %-45s %s" % ("ok" if ok else "VIOLATION", norm, fn["name"], n["loc"].split("/")[-1]))
        walk(fn["body"], visit)
    print("   instances:", len(seen))


def rule_theta_writes(fns, by_pat):
    print("\n== C01 (b)/C02 (b): writes of theta fields are init / swap / min-forms / pivot / reset")
    n_sites = 0
    for pat, fn in sorted(by_pat.items()):
        if not pat.startswith("theta/"):
            continue
        def visit(n, parents):
            nonlocal n_sites
            if n.get("k") == "Assign":
                l = strip(n["l"])
                if l.get("k") == "Member" and l.get("f") in ("theta_", "union_theta_") and l.get("isfield"):
                    r = strip(n["r"])
                    form = "other"
                    calls = []
                    walk(r, lambda x, p: calls.append(x.get("callee")) if x.get("k") == "Call" else None)
                    if any(c and c.startswith("std::min") for c in calls):
                        form = "min"
                    elif any(c and c.startswith("std::max") for c in calls):
                        form = "MAX(!)"
                    elif r.get("k") == "OpCall" and r.get("op") == "()":
                        form = "pivot-key"
                    elif r.get("k") == "Call" and r.get("cname") == "starting_theta_from_p":
                        form = "reset-start"
                    elif r.get("k") == "Member" and r.get("f") in ("theta_",):
                        form = "copy-of-theta"
                    n_sites += 1
                    print("   %-14s %-40s %s   %s" % (form, fn["name"], n["loc"].split("/")[-1], txt(n["r"])[:70]))
        walk(fn["body"], visit)
    print("   sites:", n_sites)


def rule_early_break(fns, by_pat):
    print("\n== C02 (a): early `break` in a screen's reject branch must be guarded by <that sketch>.is_ordered()")
    for pat, fn in sorted(by_pat.items()):
        if not pat.startswith("theta/"):
            continue
        def visit(n, parents):
            if n.get("k") == "RangeFor":
                rng = txt(n["range"])
                # find Break statements within body and their guarding Ifs
                def find(b, guards):
                    if isinstance(b, dict):
                        if b.get("k") == "Break":
                            g = [txt(x) for x in guards]
                            ok = any(("%s.is_ordered()" % rng) == x or x == "%s.is_ordered()" % rng.replace("*", "") for x in g)
                            print("   %-9s break in loop over %-10s guards=%s  %s %s" % ("ok" if ok else "VIOLATION", rng, g[-2:], fn["name"], b["loc"].split("/")[-1]))
                            return
                        if b.get("k") == "If":
                            find(b["t"], guards + [b["c"]])
                            if b.get("e"):
                                find(b["e"], guards + [{"k": "Un", "op": "!", "e": b["c"]}])
                            return
                        if b.get("k") in ("For", "While", "RangeFor", "Do", "Switch"):
                            return
                        for v in b.values():
                            find(v, guards)
                    elif isinstance(b, list):
                        for v in b:
                            find(v, guards)
                find(n["b"], [])
        walk(fn["body"], visit)
    # set_difference guard
    for pat, fn in sorted(by_pat.items()):
        def visit(n, parents):
            if n.get("k") == "Call" and (n.get("callee") or "").startswith("std::set_difference"):
                guards = [txt(p["c"]) for p in parents if p.get("k") == "If"]
                print("   set_difference guarded by", guards, fn["name"], n["loc"].split("/")[-1])
        walk(fn["body"], visit)


def rule_coin(fns, by_pat):
    print("\n== C08: coin dataflow")
    for pat, fn in sorted(by_pat.items()):
        calls = []
        walk(fn["body"], lambda n, p: calls.append((n, p)) if n.get("k") in ("OpCall", "Call") and "random_bit" in json.dumps(n.get("args", [])[:1] if n.get("k") == "OpCall" else "") else None)
        if not calls:
            continue
        for n, parents in calls:
            # what does the coin value flow into? (the enclosing Decl var or Assign target)
            tgt = None
            for p in reversed(parents):
                if p.get("k") == "Assign":
                    tgt = txt(p["l"])
                    break
                if "init" in p and "n" in p:
                    tgt = p["n"]
                    break
                if "field" in p:
                    tgt = p["field"] + " (ctor init)"
                    break
            ctrl = [txt(p["c"]) for p in parents if p.get("k") in ("If", "While", "For")]
            inloop = any(p.get("k") in ("For", "While", "RangeFor", "Do") for p in parents)
            print("   %-34s flip -> %-18s control-deps=%s in-loop=%s  %s" % (fn["name"], tgt, ctrl, inloop, n["loc"].split("/")[-1]))


def rule_iterators(fns, by_pat):
    print("\n== C07 (a): iterator ctor vs operator++ boundary comparisons")
    recs = {}
    for fn in fns:
        r = fn.get("rect") or ""
        if re.search(r"iterator$", r) and (fn["kind"] == "ctor" and not fn.get("special") or fn["name"] == "operator++"):
            if fn["name"] == "operator++" and len(fn["params"]) == 1:
                continue
            recs.setdefault(r.split("<")[0] + "::" + r.split("::")[-1], {}).setdefault(fn["name"] if fn["name"] == "operator++" else "ctor", fn)
    for r, d in sorted(recs.items()):
        if "ctor" not in d or "operator++" not in d:
            continue
        def info(fn):
            loops, cmps = 0, []
            def visit(n, parents):
                nonlocal loops
                if n.get("k") in ("While", "Do", "For"):
                    loops += 1
                if n.get("k") in ("Bin", "OpCall") and n.get("op") in ("==", "!=", "<", ">=") and n.get("t") == "bool":
                    a = n.get("args") or [n.get("l"), n.get("r")]
                    cmps.append(txt(a[0]) + n["op"] + txt(a[1]))
            walk(fn["body"], visit)
            for i in fn.get("inits", []):
                walk(i["e"], visit)
            return loops, cmps
        lc, cc = info(d["ctor"])
        li, ci = info(d["operator++"])
        # boundary kinds: comparisons mentioning an end/size/levels bound
        def kinds(cs):
            ks = set()
            for c in cs:
                if "end()" in c or "_end" in c:
                    ks.add("level-end")
                if "levels[" in c:
                    ks.add("levels-array")
                if "size" in c or "num_" in c or "final_idx" in c or "k_" in c:
                    ks.add("count")
                if "bit_pattern" in c:
                    ks.add("bitpattern")
            return ks
        kc, ki = kinds(cc), kinds(ci)
        inner_c = {k for k in kc}
        # the increment's *inner-level* boundary kinds must appear in the ctor
        need = ki - {"count"} if (ki - {"count"}) else ki
        verdict = "ok" if need <= kc and (li == 0 or lc > 0) else "VIOLATION"
        print("   %-9s %-55s ctor loops=%d kinds=%s | ++ loops=%d kinds=%s" % (verdict, r, lc, sorted(kc), li, sorted(ki)))


def rule_chains(fns, by_pat):
    print("\n== A8: canonicalisation chains of typed update overloads (argument type -> ... -> hashed bytes)")
    fam = {}
    for fn in fns:
        if fn["name"] in ("update", "query", "query_and_update") and fn.get("rect") and len(fn["params"]) in (1, 2, 3):
            rect = fn["rect"]
            if not any(x in rect for x in ("update_theta_sketch_alloc", "hll_sketch_alloc", "cpc_sketch_alloc", "bloom_filter_alloc", "update_tuple_sketch")):
                continue
            fam.setdefault((rect, fn["name"]), {}).setdefault(fn["params"][0]["t"], fn)
    def chain(rect, name, fn, depth=0):
        pt = fn["params"][0]["t"]
        # find a call to same-named method with a cast argument (delegation) or a hash call
        res = None
        def visit(n, parents):
            nonlocal res
            if res is not None:
                return
            if n.get("k") == "Call" and n.get("cname") == name and n.get("crec") == rect and n.get("args"):
                a = n["args"][0]
                casts = []
                x = a
                while isinstance(x, dict) and x.get("k") in ("Cast", "Construct"):
                    if x.get("k") == "Cast" and x.get("ck") in ("IntegralCast", "FloatingCast", "IntegralToFloating", "FloatingToIntegral"):
                        casts.append(x["t"])
                    x = x["e"] if x.get("k") == "Cast" else (x["args"][0] if x.get("args") else None)
                target_t = n["args"][0].get("t")
                if isinstance(x, dict) and x.get("k") == "Call" and x.get("cname") == "canonical_double":
                    casts.append("canonical_double->long")
                    target_t = "long"
                if isinstance(x, dict) and x.get("k") == "Un" and x.get("op") == "&":
                    res = [pt, "hash(%s bytes)" % (n["args"][1].get("v") if len(n["args"]) > 1 else "?")]
                    return
                if isinstance(x, dict) and x.get("k") == "Call" and x.get("cname") in ("c_str", "data"):
                    res = [pt, "hash(string bytes)"]
                    return
                nxt = fam[(rect, name)].get(target_t)
                if nxt is not None and nxt is not fn and depth < 6:
                    res = [pt] + chain(rect, name, nxt, depth + 1)
                else:
                    res = [pt, "-> " + str(target_t)]
            if n.get("k") == "Call" and n.get("cname") in ("hash", "MurmurHash3_x64_128") and len(n.get("args", [])) >= 2:
                res = [pt, "hash(%s bytes)" % (n["args"][1].get("v", "len"))]
        walk(fn["body"], visit)
        return res or [pt, "?"]
    for (rect, name), d in sorted(fam.items()):
        print("  ", rect.replace("datasketches::", ""), name)
        for pt, fn in sorted(d.items()):
            if pt.startswith("const void") or "basic_string" in pt:
                continue
            print("       %-16s %s" % (pt, " -> ".join(chain(rect, name, fn))))


if __name__ == "__main__":
    fns, by_pat = load()
    rule_screens(fns, by_pat)
    rule_theta_writes(fns, by_pat)
    rule_early_break(fns, by_pat)
    rule_coin(fns, by_pat)
    rule_iterators(fns, by_pat)
    rule_chains(fns, by_pat)
