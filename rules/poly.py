"""Exact integer polynomials over named symbols (dict monomial -> coeff). Monomial = sorted tuple of symbol names."""
from fractions import Fraction


class Poly:
    __slots__ = ("t",)

    def __init__(self, t=None):
        self.t = {k: v for k, v in (t or {}).items() if v != 0}

    @staticmethod
    def const(c):
        return Poly({(): int(c)})

    @staticmethod
    def sym(name):
        return Poly({(name,): 1})

    def is_const(self):
        return all(k == () for k in self.t)

    def const_value(self):
        return self.t.get((), 0) if self.is_const() else None

    def __add__(self, o):
        o = _p(o)
        r = dict(self.t)
        for k, v in o.t.items():
            r[k] = r.get(k, 0) + v
        return Poly(r)

    __radd__ = __add__

    def __neg__(self):
        return Poly({k: -v for k, v in self.t.items()})

    def __sub__(self, o):
        return self + (-_p(o))

    def __rsub__(self, o):
        return _p(o) - self

    def __mul__(self, o):
        o = _p(o)
        r = {}
        for k1, v1 in self.t.items():
            for k2, v2 in o.t.items():
                k = tuple(sorted(k1 + k2))
                r[k] = r.get(k, 0) + v1 * v2
        return Poly(r)

    __rmul__ = __mul__

    def __eq__(self, o):
        return isinstance(o, (Poly, int)) and self.t == _p(o).t

    def __hash__(self):
        return hash(frozenset(self.t.items()))

    def symbols(self):
        s = set()
        for k in self.t:
            s.update(k)
        return s

    def subst(self, name, repl):
        """substitute symbol `name` by Poly `repl`"""
        repl = _p(repl)
        out = Poly()
        for k, v in self.t.items():
            n = k.count(name)
            rest = tuple(x for x in k if x != name)
            term = Poly({rest: v})
            for _ in range(n):
                term = term * repl
            out = out + term
        return out

    def subst_mono(self, mono, repl):
        """substitute the monomial `mono` (sorted tuple of symbols, treated as one non-negative quantity) by `repl`
        in every term that contains it exactly once as a sub-multiset"""
        repl = _p(repl)
        out = Poly()
        for k, v in self.t.items():
            rest = list(k)
            ok = True
            for x in mono:
                if x in rest:
                    rest.remove(x)
                else:
                    ok = False
                    break
            if ok:
                out = out + Poly({tuple(rest): v}) * repl
            else:
                out = out + Poly({k: v})
        return out

    def nonneg_syntactic(self):
        """True if every coefficient is >= 0 (all symbols denote non-negative quantities)."""
        return all(v >= 0 for v in self.t.values())

    def __repr__(self):
        if not self.t:
            return "0"
        parts = []
        for k in sorted(self.t, key=lambda k: (len(k), k)):
            v = self.t[k]
            if k == ():
                parts.append(str(v))
            else:
                m = "*".join(k)
                parts.append(m if v == 1 else ("-" + m if v == -1 else "%d*%s" % (v, m)))
        return " + ".join(parts).replace("+ -", "- ")


def _p(x):
    if isinstance(x, Poly):
        return x
    return Poly.const(x)
