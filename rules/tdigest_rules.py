"""C17 t-digest: bookkeeping and guard clauses that are visible in the shape of the code (thin structural clauses).
Decided: weight accounting of update / merge / compress, monotone maintenance of the exact extremes, protection of the extreme
centroids, rejection of NaN and of invalid queries, clamps of rank and quantile at the extremes, CDF/PMF assembly.
Not decided: the interpolation arithmetic beyond its direction (interpolation_direction), monotonicity of rank between centroids, the
centroid-count bound, accuracy."""
from astu import C, ctxt, gt_pair, eq_const, reach, reach_txt, ctext, strip, strip_all, walk, walkp, txt, short, is_this_field, stmts_of, always_throws, functions_by, local_decls
from vlib.core import ob

REC = "datasketches::tdigest"


def td(facts):
    """member functions as the rules look at them: private void helpers other than the anchors (merge / compress) seen through"""
    from astu import inlined_body
    fns = functions_by(facts, ["tdigest"])
    by_pat = {f["pat"]: f for f in fns.values()}
    return {p: dict(f, body=inlined_body(f, by_pat, keep=("merge", "compress", "update", "check_split_points"))) for p, f in fns.items() if f.get("rect") == REC and f.get("body") is not None}


def _top(fn):
    return stmts_of(fn["body"])


def _t(s):
    if s.get("k") == "Expr":
        return txt(s["e"]).replace(" ", "")
    if s.get("k") == "Return":
        return "return " + txt(s.get("e")).replace(" ", "")
    if s.get("k") == "If":
        return "if" + txt(s["c"]).replace(" ", "")
    return s.get("k")


def obligations(facts):
    fs = td(facts)
    out = []

    def one(name, pred=lambda f: True):
        c = [f for f in fs.values() if f["name"] == name and pred(f)]
        return c[0] if c else None

    def rep(rule, key, fn, ok, good, bad, loc=None):
        out.append(ob(rule, key, loc or (fn["pat"] if fn else ""), "discharged" if ok else "violated", good if ok else bad, fn["qname"] if fn else ""))
    # 1 update
    fn = one("update")
    if fn is None:
        out.append(ob("tdigest.update", "tdigest::update:anchor", "", "unrecognised", "update not found", ""))
    else:
        st = _top(fn)
        t = [_t(s) for s in st]
        first = st[0] if st else {}
        nan_first = first.get("k") == "If" and "isnan(value)" in txt(first["c"]) and stmts_of(first["t"]) and stmts_of(first["t"])[0].get("k") == "Return"
        rep("tdigest.update", "tdigest::update:nan-rejected-first", fn, nan_first, "NaN is rejected before any state changes", "update does not start with `if (isnan(value)) return`: a NaN enters the buffer / the extremes (all comparisons with it are false, min/max/rank become meaningless)")
        rep("tdigest.update", "tdigest::update:buffers-value", fn, "buffer_.push_back(value)" in t, "every accepted value is buffered unconditionally", "accepted values are not buffered by an unconditional top-level buffer_.push_back(value): total weight no longer equals the number of accepted values (%s)" % t)
        rep("tdigest.update", "tdigest::update:min", fn, C("(min_=min(min_,value))") in t, "min_ = min(min_, value) on every accepted value", "min_ is not maintained as min(min_, value) on every accepted value (%s)" % t)
        rep("tdigest.update", "tdigest::update:max", fn, C("(max_=max(max_,value))") in t, "max_ = max(max_, value) on every accepted value", "max_ is not maintained as max(max_, value) on every accepted value (%s)" % t)
    # 2 total weight
    fn = one("get_total_weight")
    if fn is not None:
        t = [_t(s) for s in _top(fn)]
        rep("tdigest.weight", "tdigest::get_total_weight:formula", fn, t in (["return (centroids_weight_+buffer_.size())"], ["return (buffer_.size()+centroids_weight_)"]), "total weight = centroids_weight_ + buffer_.size()", "total weight is `%s`" % t)
    # 3 public merge and 4 compress
    for name, want_sources, want_weight in (("merge", {"buffer_", "other.buffer_", "other.centroids_"}, ("(buffer_.size()+other.get_total_weight())", "(other.get_total_weight()+buffer_.size())")),
                                            ("compress", {"buffer_"}, ("buffer_.size()",))):
        fn = one(name, lambda f: len(f["params"]) == (1 if name == "merge" else 0))
        if fn is None:
            out.append(ob("tdigest.weight", "tdigest::%s:anchor" % name, "", "unrecognised", "%s not found" % name, ""))
            continue
        sources = set()
        for s in _top(fn):
            if s.get("k") == "RangeFor":
                sources.add(txt(s.get("range")).replace(" ", ""))
            if s.get("k") == "Expr":
                e = strip_all(s["e"])
                if e.get("k") == "Call" and e.get("cname") == "copy" and e.get("args"):
                    a0 = strip_all(e["args"][0])
                    if a0.get("k") == "Call" and a0.get("obj") is not None:
                        sources.add(txt(a0["obj"]).replace(" ", ""))
        calls = []
        walk(fn["body"], lambda n: calls.append(n) if n.get("k") == "Call" and n.get("cname") == "merge" and len(n.get("args", [])) == 2 else None)
        w = txt(calls[0]["args"][1]).replace(" ", "") if calls else "?"
        rep("tdigest.weight", "tdigest::%s:sources" % name, fn, sources == want_sources, "merges %s" % sorted(sources), "the values handed to the internal merge come from %s, expected %s: weight that is counted is not merged in (or the reverse)" % (sorted(sources), sorted(want_sources)))
        rep("tdigest.weight", "tdigest::%s:weight" % name, fn, w in want_weight, "weight passed to the internal merge is %s: exactly the weight of the merged-in sources" % w, "weight passed to the internal merge is `%s`, expected %s: the total weight no longer equals the number of accepted values" % (w, want_weight[0]))
        if name == "merge":
            st = _top(fn)
            g = st[0] if st else {}
            rep("tdigest.weight", "tdigest::merge:empty-other", fn, g.get("k") == "If" and txt(g["c"]).replace(" ", "") == "other.is_empty()", "an empty operand is a no-op", "merge does not start with `if (other.is_empty()) return`")
    # 5 internal merge
    fn = one("merge", lambda f: len(f["params"]) == 2)
    if fn is None:
        out.append(ob("tdigest.merge", "tdigest::merge(buffer,weight):anchor", "", "unrecognised", "internal merge not found", ""))
    else:
        t = [_t(s) for s in _top(fn)]
        adds = [x for x in t if x.startswith("(centroids_weight_+=")]
        rep("tdigest.merge", "tdigest::merge(buffer,weight):adds-weight-once", fn, adds == ["(centroids_weight_+=weight)"], "centroids_weight_ += weight exactly once, unconditionally", "centroids_weight_ is updated by %s at top level (expected exactly one `centroids_weight_ += weight`)" % adds)
        rep("tdigest.merge", "tdigest::merge(buffer,weight):own-centroids-merged", fn, any(x.startswith("copy(centroids_.begin(),centroids_.end(),back_inserter(buffer))") for x in t) and "centroids_.clear()" in t and t.index("centroids_.clear()") > [i for i, x in enumerate(t) if x.startswith("copy(centroids_.begin()")][0] if any(x.startswith("copy(centroids_.begin()") for x in t) else False, "own centroids are copied into the work buffer before being cleared", "own centroids are not copied into the work buffer before centroids_.clear(): their weight stays counted but their values are lost")
        rep("tdigest.merge", "tdigest::merge(buffer,weight):clears-buffer", fn, "buffer_.clear()" in t, "buffer_ is cleared after its values were merged", "buffer_ is not cleared after the merge: its values are counted twice at the next compression")
        rep("tdigest.merge", "tdigest::merge(buffer,weight):min-monotone", fn, C("(min_=min(min_,centroids_.front().get_mean()))") in t, "min_ only decreases (min with the first centroid)", "min_ is not updated as min(min_, first centroid mean): %s" % [x for x in t if x.startswith("(min_=")])
        rep("tdigest.merge", "tdigest::merge(buffer,weight):max-monotone", fn, C("(max_=max(max_,centroids_.back().get_mean()))") in t, "max_ only increases (max with the last centroid)", "max_ is not updated as max(max_, last centroid mean): %s" % [x for x in t if x.startswith("(max_=")])
        # protection of the extremes: add_this is only computed under distance(begin,it) != 1 && distance(end,it) != 1
        prot = []
        walkp(fn["body"], lambda n, ps: prot.append([txt(p["c"]).replace(" ", "") for p in ps if p.get("k") == "If"]) if n.get("k") == "Assign" and txt(n["l"]) == "add_this" else None)
        ok = bool(prot) and all(any(C("(distance(buffer.begin(),it)!=1)") in c and C("(distance(buffer.end(),it)!=1)") in c and "&&" in c for c in g) for g in prot)
        rep("tdigest.merge", "tdigest::merge(buffer,weight):extremes-protected", fn, ok, "a centroid is only absorbed when it is neither the second nor the last in the sorted buffer: the extreme centroids stay singletons, so their means are the exact min / max", "the guard that keeps the first and the last centroid as singletons (distance(begin, it) != 1 && distance(end, it) != 1) no longer controls `add_this` (%s): extremes get averaged and min / max stop being exact" % prot)
    # 6 rank guards
    fn = one("get_rank")
    if fn is not None:
        st = _top(fn)
        t = [_t(s) for s in st]
        heads = []
        for s in st:
            if s.get("k") != "If":
                break
            body = stmts_of(s["t"])
            act = "throw" if always_throws(s["t"]) else ("return " + txt(body[0].get("e"))) if body and body[0].get("k") == "Return" else "?"
            heads.append((txt(s["c"]).replace(" ", ""), act))
        want = [("is_empty()", "throw"), ("isnan(value)", "throw"), (C("(value<min_)"), "return 0"), (C("(value>max_)"), "return 1")]
        rep("tdigest.query", "tdigest::get_rank:guards", fn, heads[:4] == want, "empty and NaN rejected, then rank 0 below min_ and 1 above max_, before anything else", "get_rank starts with %s, expected %s" % (heads[:4], want))
    fn = one("get_quantile")
    if fn is not None:
        st = _top(fn)
        conds = [(txt(s["c"]).replace(" ", ""), ("throw" if always_throws(s["t"]) else ("return " + txt(stmts_of(s["t"])[0].get("e"))) if stmts_of(s["t"]) and stmts_of(s["t"])[0].get("k") == "Return" else "?")) for s in st if s.get("k") == "If"]
        rep("tdigest.query", "tdigest::get_quantile:range-check", fn, ("is_empty()", "throw") in conds[:1] and any(c in (C("((rank<0)||(rank>1))"), C("((rank<0.0)||(rank>1.0))")) and a == "throw" for c, a in conds[:2]), "empty sketch and ranks outside [0, 1] are rejected first", "get_quantile does not reject empty / out-of-range ranks first: %s" % conds[:2])
        rep("tdigest.query", "tdigest::get_quantile:clamp-min", fn, (C("(weight<1)"), "return min_") in conds, "quantile of the lowest unit of weight is min_", "no `if (weight < 1) return min_`: quantile(0) is no longer the exact minimum (%s)" % conds)
        rep("tdigest.query", "tdigest::get_quantile:clamp-max", fn, ((C("(weight>(centroids_weight_-1))"), "return max_") in conds or (C("(weight>(centroids_weight_-1.0))"), "return max_") in conds), "quantile of the highest unit of weight is max_", "no `if (weight > centroids_weight_ - 1.0) return max_`: quantile(1) is no longer the exact maximum (%s)" % conds)
    # queries read the centroids only after the buffer was folded in (compress), unless the same expression also counts the buffer
    for qn in ("get_rank", "get_quantile"):
        fq = one(qn)
        if fq is None:
            continue
        seen = False
        early = None
        for s_ in _top(fq):
            cs = []
            walk(s_, lambda x: cs.append(x) if x.get("k") == "Call" and x.get("cname") == "compress" else None)
            if cs:
                seen = True
                break
            reads_c, reads_b = [], []
            walk(s_, lambda x: reads_c.append(x) if x.get("k") == "Member" and x.get("f") in ("centroids_", "centroids_weight_") else None)
            walk(s_, lambda x: reads_b.append(x) if x.get("k") == "Member" and x.get("f") == "buffer_" else None)
            if reads_c and not reads_b and early is None:
                early = s_
        ok = seen and early is None
        rep("tdigest.query", "tdigest::%s:reads-centroids-after-compress" % qn, fq, ok, "the buffered values are folded into the centroids before the query looks at the centroids", "`%s` looks at the centroids before compress() folded the buffered values in: a sketch that was compressed while holding one value and then received more values answers every query from that single centroid" % (_t(early) if early is not None else "no compress() call"), loc=(early or {}).get("loc"))
    fn = one("get_CDF")
    if fn is not None:
        t = [_t(s) for s in _top(fn)]
        loops = [s for s in _top(fn) if s.get("k") == "For"]
        ok = bool(loops) and "ranks.push_back(get_rank(split_points[i]))" in [_t(x) for x in stmts_of(loops[0]["b"])] + [_t(loops[0]["b"])] and "ranks.push_back(1)" in t and any(x.startswith("check_split_points(") for x in t)
        rep("tdigest.query", "tdigest::get_CDF:assembly", fn, ok, "split points validated; CDF = rank of every split point, then 1", "CDF is not assembled as [get_rank(s_i)..., 1] after check_split_points: %s" % t)
    fn = one("get_PMF")
    if fn is not None:
        loops = [s for s in _top(fn) if s.get("k") == "For"]
        body = [_t(x) for x in stmts_of(loops[0]["b"])] if loops else []
        if loops and not body:
            body = [_t(loops[0]["b"])]
        ok = bool(loops) and body == ["(buckets[i]-=buckets[(i-1)])"] and txt(loops[0].get("c")).replace(" ", "") in (C("(i>0)"), C("(i!=0)"))
        rep("tdigest.query", "tdigest::get_PMF:differences", fn, ok, "PMF = adjacent differences of the CDF, from the back", "PMF loop is %s / %s" % (body, txt(loops[0].get("c")) if loops else "?"))
    return out


def size_limit(facts):
    """the compaction pass of merge(buffer, weight) lets a centroid absorb its neighbour only while the proposed weight stays within
    the TIGHTER of the two size limits, at the left and at the right end of the proposed centroid: min(limit(q0), limit(q2)).  With
    the looser one (max, or a ternary with the arms the other way round) the extreme centroids stop being singletons and the exact
    minimum / maximum are lost in merges."""
    from astu import single_assignment_locals
    fs = td(facts)
    out = []
    for pat, fn in sorted(fs.items()):
        if fn["name"] != "merge" or len(fn.get("params") or []) != 2:
            continue
        key = "tdigest::merge(buffer,weight):size-limit-is-min"
        sal = single_assignment_locals(fn)

        def res(x):
            x = strip_all(x)
            while isinstance(x, dict) and x.get("k") == "Ref" and x.get("d") in sal:
                x = strip_all(sal[x["d"]])
            return x if isinstance(x, dict) else {}
        picks = []

        def v(n):
            if n.get("k") == "Call" and n.get("cname") in ("min", "max", "fmin", "fmax") and len(n.get("args", [])) == 2 and not n.get("obj"):
                a, b = res(n["args"][0]), res(n["args"][1])
                if all(x.get("k") == "Call" and x.get("cname") == "max" and x.get("obj") is not None and "scale_function" in (strip_all(x["obj"]).get("t") or x.get("crec") or "") for x in (a, b)):
                    picks.append(n)
            if n.get("k") == "Cond":
                a, b = res(n["a"]), res(n["e"])
                if all(x.get("k") == "Call" and x.get("cname") == "max" and x.get("obj") is not None for x in (a, b)):
                    picks.append(n)
        walk(fn["body"], v)
        if not picks:
            out.append(ob("tdigest.size-limit", key, fn["pat"], "unrecognised", "the combination of the two scale-function limits was not found in merge()", fn["qname"]))
            continue
        bad = [p for p in picks if not (p.get("k") == "Call" and p.get("cname") in ("min", "fmin"))]
        if bad:
            out.append(ob("tdigest.size-limit", key, bad[0].get("loc", fn["pat"]), "violated", "the size limit of a proposed centroid is `%s`, not the minimum of the limits at its two ends: the looser limit lets the first / last centroid absorb its neighbour, so the extreme centroids stop being singletons (exact min / max are lost when sketches are merged, quantile(0) / quantile(1) drift)" % txt(bad[0], sal)[:160], fn["qname"]))
        else:
            out.append(ob("tdigest.size-limit", key, picks[0].get("loc", fn["pat"]), "discharged", "limit = min(limit at q0, limit at q2)", fn["qname"]))
    return out


def interpolation_direction(facts):
    """get_quantile interpolates between the means of two adjacent centroids with weighted_average(x1, w1, x2, w2) =
    (x1*w1 + x2*w2) / (w1 + w2).  For the quantile to be non-decreasing in the rank the weight paired with the LEFT mean must shrink
    as the target weight (rank * total weight) grows, and the one paired with the RIGHT mean must grow: the coefficient of the
    target weight is negative in w1 and positive in w2 (linear forms through the single-assignment locals).  With the two weights
    the other way round the estimate runs from the right mean back to the left one inside every gap - quantile(rank) goes down while
    rank goes up."""
    import semantics
    from astu import single_assignment_locals
    fs = td(facts)
    out = []
    wa = [f for f in fs.values() if f["name"] == "weighted_average" and len(f.get("params") or []) == 4]
    pairing = None
    if wa:
        r = semantics.symbolic_return(wa[0], params=True)
        if r in (C("(((p0*p1)+(p2*p3))/(p1+p3))"),):
            pairing = "x1~w1"
        elif r in (C("(((p0*p3)+(p2*p1))/(p1+p3))"),):
            pairing = "x1~w2"
    for pat, fn in sorted(fs.items()):
        if fn["name"] != "get_quantile" or not fn.get("params"):
            continue
        sal = single_assignment_locals(fn)
        rank = fn["params"][0]["d"]
        tgt = [d for d, ini in sal.items() if any(x.get("k") == "Ref" and x.get("d") == rank for x in _nodes(ini))]

        def coef(e, depth=0):
            """coefficient of the target weight in e (None: not linear / unknown)"""
            e = strip_all(e)
            if not isinstance(e, dict) or depth > 12:
                return None
            k = e.get("k")
            if k == "Paren":
                return coef(e.get("e"), depth + 1)
            if k == "Ref":
                if e.get("d") in tgt:
                    return 1.0
                if e.get("d") in sal:
                    return coef(sal[e["d"]], depth + 1)
                return 0.0
            if k in ("Int", "Float", "Member", "Call", "Index", "OpCall", "Bool"):
                inner = [x for x in _nodes(e) if x.get("k") == "Ref" and (x.get("d") in tgt)]
                return None if inner else 0.0
            if k == "Un" and e.get("op") == "-":
                c = coef(e.get("e"), depth + 1)
                return None if c is None else -c
            if k == "Bin" and e.get("op") in ("+", "-"):
                a, b = coef(e["l"], depth + 1), coef(e["r"], depth + 1)
                if a is None or b is None:
                    return None
                return a + b if e["op"] == "+" else a - b
            if k == "Bin" and e.get("op") in ("*", "/"):
                a, b = coef(e["l"], depth + 1), coef(e["r"], depth + 1)
                lit = strip_all(e["r"])
                if b == 0.0 and lit.get("k") in ("Int", "Float") and (lit.get("v") or lit.get("f") or 0) > 0 and a is not None:
                    v = float(lit.get("v") if lit.get("k") == "Int" else lit.get("f"))
                    return a * v if e["op"] == "*" else a / v
                if a == 0.0 and b == 0.0:
                    return 0.0
                return None
            return None
        calls = []
        walk(fn["body"], lambda n: calls.append(n) if n.get("k") == "Call" and n.get("cname") == "weighted_average" and len(n.get("args", [])) == 4 else None)
        idx = 0
        for c in calls:
            x1, w1, x2, w2 = c["args"]
            if "get_mean" not in txt(x1) or "get_mean" not in txt(x2):
                continue      # the tail towards max_ (guarded out by the clamps before it)
            key = "tdigest::get_quantile:interpolation#%d" % idx
            idx += 1
            c1, c2 = coef(w1), coef(w2)
            if pairing is None or len(tgt) != 1 or c1 is None or c2 is None or c1 == 0 or c2 == 0:
                out.append(ob("tdigest.interpolation", key, c.get("loc", fn["pat"]), "unrecognised", "cannot relate the interpolation weights `%s`, `%s` to the target weight (helper pairing %s)" % (txt(w1, sal), txt(w2, sal), pairing), fn["qname"]))
                continue
            left_w, right_w = (c1, c2) if pairing == "x1~w1" else (c2, c1)
            if left_w < 0 and right_w > 0:
                out.append(ob("tdigest.interpolation", key, c.get("loc", fn["pat"]), "discharged", "the weight of the left mean falls and the weight of the right mean grows with the target weight", fn["qname"]))
            else:
                out.append(ob("tdigest.interpolation", key, c.get("loc", fn["pat"]), "violated", "between two centroids the left mean is weighted with `%s` (grows with the rank) and the right mean with `%s` (shrinks with the rank): the interpolation runs from the right mean back to the left one inside every gap, so get_quantile is decreasing in the rank there (quantile is not non-decreasing; rank and quantile disagree by up to the gap between adjacent centroids)" % (txt(w1 if pairing == "x1~w1" else w2, sal), txt(w2 if pairing == "x1~w1" else w1, sal)), fn["qname"]))
    return out


def _nodes(n):
    acc = []
    walk(n, lambda x: acc.append(x))
    return acc
