"""A4.3 / A4.4: every linear layout a writer can emit is accepted by the corresponding reader.

Each writer and reader is abstracted to a set of WORDS: sequences of run-merged tokens
  ("fix", n)     n bytes of fixed-width fields / constant-size blocks / padding
  ("var", kind)  a variable-length part: raw / serde / nested:<type>
  ("loop", W)    zero or more repetitions of one of the words in W
obtained by enumerating the paths through the structured body (conditions are ignored: the reader branches on image
flags, the writer on object state).  Obligation: every writer word equals some reader word.  Same-width role swaps are
invisible here (C10 handles constants); lengths of variable parts are compared by kind only."""
from astu import C, ctxt, gt_pair, eq_const, reach, reach_txt, ctext, strip, strip_all, walk, txt, short, stmts_of, functions_by
import a4_shape
import a4_twin
from vlib.core import ob

MAXW = 4000


class RExtractor(a4_twin.TExtractor):
    """adds reader modes: rs (stream reader), rb (byte reader)"""

    def is_istream(self, e):
        return "basic_istream" in (e.get("t") or "")

    def expr(self, fn, e, mode, N):
        if isinstance(e, dict) and mode in ("ws", "wb") and e.get("k") == "Call" and (e.get("cname") or "").startswith("serialize") and (e.get("callee") or "").startswith("datasketches::") and "serde" not in (e.get("callee") or "").lower():
            cal = self.by_pat.get(e.get("cpat"))
            args = e.get("args", [])
            is_nested = (mode == "ws" and args and self.is_stream(args[0])) or (mode == "wb" and ((e.get("t") or "").startswith("std::vector<unsigned char") or (args and (strip(args[0]).get("t") or "").endswith("*"))))
            if cal is not None and cal is not fn and is_nested and len(self.stack) < 5 and cal.get("body") is not None:
                return self.sub(cal, mode)
        if not isinstance(e, dict) or mode not in ("rs", "rb"):
            return super().expr(fn, e, mode, N)
        k = e.get("k")
        if k == "Cast":
            return self.expr(fn, e["e"], mode, N)
        out = []
        if k == "Call":
            callee = e.get("callee") or ""
            cname = e.get("cname") or ""
            args = e.get("args", [])
            if mode == "rs":
                if callee.startswith("datasketches::read") and args and self.is_istream(args[0]):
                    if len(args) == 1:
                        return [("F", e.get("sz"), "?")]
                    if len(args) == 3:
                        n = strip(args[2])
                        return [("F", n["v"], "?")] if "v" in n else [("Raw", N.key(args[2]))]
                if e.get("member") and e.get("obj") is not None and self.is_istream(strip(e["obj"])) and cname in ("read", "ignore"):
                    n = strip(args[-1]) if args else {}
                    return [("F", n["v"], "?")] if "v" in n else [("Raw", N.key(args[-1]) if args else "1")]
                if cname == "deserialize" and args and self.is_istream(args[0]):
                    if self.is_serde(e):
                        return [("Serde", N.key(args[2]) if len(args) > 2 else "?")]
                    cal = self.by_pat.get(e.get("cpat"))
                    if cal is not None and cal is not fn and callee.startswith("datasketches::") and len(self.stack) < 5:
                        return self.sub(cal, mode)
                    return [("Nested", (e.get("crec") or callee).split("<")[0])]
                if any(self.is_istream(a) for a in args) and callee.startswith("datasketches::") and e.get("cpat") in self.by_pat and len(self.stack) < 5:
                    cal = self.by_pat[e["cpat"]]
                    if cal is not fn:
                        return self.sub(cal, mode)
            if mode == "rb":
                if callee == "datasketches::copy_from_mem":
                    if len(args) == 2:
                        return [("F", strip(args[1]).get("sz"), "?")]
                    n = strip(args[2])
                    return [("F", n["v"], "?")] if "v" in n else [("Raw", N.key(args[2]))]
                if cname == "memcpy" and len(args) == 3 and self.from_buffer(args[1]):
                    n = strip(args[2])
                    return [("F", n["v"], "?")] if "v" in n else [("Raw", N.key(args[2]))]
                if cname == "deserialize" and len(args) >= 2 and (strip(args[0]).get("t") or "").endswith("*"):
                    if self.is_serde(e):
                        return [("Serde", N.key(args[3]) if len(args) > 3 else "?")]
                    cal = self.by_pat.get(e.get("cpat"))
                    if cal is not None and cal is not fn and callee.startswith("datasketches::") and len(self.stack) < 5:
                        return self.sub(cal, mode)
                    return [("Nested", (e.get("crec") or callee).split("<")[0])]
                if callee.startswith("datasketches::") and e.get("cpat") in self.by_pat and len(args) >= 2 and (strip(args[0]).get("t") or "").endswith("*") \
                        and cname not in ("copy_from_mem", "copy_to_mem", "check_memory_size", "ensure_minimum_memory", "hex_dump") and len(self.stack) < 5:
                    cal = self.by_pat[e["cpat"]]
                    if cal is not fn and cal.get("body") is not None and any(p["t"] in ("unsigned long",) for p in cal["params"]):
                        return self.sub(cal, mode)
            for a in args:
                out.extend(self.expr(fn, a, mode, N))
            if e.get("obj") is not None:
                out.extend(self.expr(fn, e["obj"], mode, N))
            return out
        if k == "Assign" and mode == "rb":
            l = strip(e["l"])
            if e["op"] == "+=" and (l.get("t") or "").endswith("*"):
                inner = self.expr(fn, e["r"], mode, N)
                if inner:
                    return inner
                rr = strip(e["r"])
                if "v" in rr:
                    return [("F", rr["v"], "0")]
                if rr.get("k") == "Member" and rr.get("f") == "second":
                    return []
                return [("Raw", N.key(e["r"]))]
            return self.expr(fn, e["r"], mode, N)
        if k == "Un" and mode == "rb" and e.get("op") == "*":
            t = strip(e["e"])
            if t.get("k") == "Un" and t.get("op") == "++" and t.get("post"):
                return [("F", 1, "?")]
        for key in ("args", "e", "l", "r", "c", "a", "b", "obj", "i", "init"):
            v = e.get(key)
            if isinstance(v, list):
                for a in v:
                    out.extend(self.expr(fn, a, mode, N))
            elif isinstance(v, dict):
                out.extend(self.expr(fn, v, mode, N))
        return out

    stack = ()

    def is_serde(self, e):
        c = ((e.get("callee") or "") + " " + (e.get("crec") or "")).lower()
        if "serde" in c:
            return True
        # a user-supplied SerDe object: the callee is not a library sketch class
        return not (e.get("callee") or "").startswith("datasketches::")

    def block(self, fn, s, mode, N):
        if s is not None and s.get("k") == "Switch":
            groups, cur = [], None
            for c in stmts_of(s.get("b")):
                if c.get("k") in ("Case", "Default"):
                    cur = []
                    groups.append(cur)
                    inner = c.get("s")
                    while inner is not None and inner.get("k") in ("Case", "Default"):
                        inner = inner.get("s")
                    if inner is not None:
                        cur.extend(self.block(fn, inner, mode, N))
                elif cur is not None:
                    cur.extend(self.block(fn, c, mode, N))
            return [("Cases", N.key(s["c"]), [tuple(g) for g in groups])] if any(groups) else []
        return super().block(fn, s, mode, N)

    def sub(self, cal, mode):
        self.stack = self.stack + (cal["pat"],)
        try:
            saved = self.track
            items = a4_twin.TExtractor.shape_fn(self, cal, mode, track=None)
            self.track = saved
            return [x for x in items if x[0] != "Ret"] if True else items
        finally:
            self.stack = self.stack[:-1]

    def from_buffer(self, e):
        t = txt(e)
        return any(x in t for x in ("ptr", "data", "bytes", "curPos"))


def words(items, limit=MAXW):
    """set of words (tuples of tokens) for a shape item list"""
    return {strip_end(w) for w in _words(items, limit)}


def _words(items, limit=MAXW):
    """words with the ("END",) marker kept on paths that return early"""
    res = [()]
    for it in items:
        k = it[0]
        if k == "Ret":
            # paths that reach Ret stop here: mark them finished
            res = [w + (("END",),) if (not w or w[-1] != ("END",)) else w for w in res]
            continue
        nxt = []
        for w in res:
            if w and w[-1] == ("END",):
                nxt.append(w)
                continue
            if k in ("F",):
                n = it[1] if isinstance(it[1], int) else None
                if n is None:
                    nxt.append(w + (("var", "raw"),))
                elif w and w[-1][0] == "fix":
                    nxt.append(w[:-1] + (("fix", w[-1][1] + n),))
                else:
                    nxt.append(w + (("fix", n),))
            elif k in ("At",):
                nxt.append(w + (("abs",),))
            elif k in ("Raw", "Adv"):
                nxt.append(add_raw(w))
            elif k == "Serde":
                nxt.append(w if (w and w[-1] == ("var", "serde")) else w + (("var", "serde"),))
            elif k == "Nested":
                nxt.append(w + (("var", "nested:" + short(str(it[1]))),))
            elif k == "If":
                for br in (it[2], it[3]):
                    for bw in _words(list(br), limit):
                        nxt.append(join(w, bw))
            elif k in ("Loop",):
                bw = frozenset(strip_end(x) for x in words(list(it[2]), limit))
                bw = frozenset(x for x in bw if x)   # an empty iteration contributes nothing
                if not bw:
                    nxt.append(w)
                elif all(all(t == ("var", "serde") for t in x) for x in bw):
                    nxt.append(w if (w and w[-1] == ("var", "serde")) else w + (("var", "serde"),))
                elif all(all(t[0] == "fix" or t == ("var", "raw") for t in x) for x in bw):
                    # repetitions of fixed-size / raw pieces are one raw block (bulk read == element-wise write)
                    nxt.append(add_raw(w))
                else:
                    nxt.append(w + (("loop", bw),))
            elif k == "Cases":
                for g in it[2]:
                    for bw in _words(list(g), limit):
                        nxt.append(join(w, bw))
                nxt.append(w)
            elif k == "Switch":
                for bw in words(list(it[2]), limit):
                    nxt.append(join(w, bw))
                nxt.append(w)
            else:
                nxt.append(w)
        res = list(dict.fromkeys(nxt))
        if len(res) > limit:
            raise OverflowError("too many paths")
    return set(res)


def add_raw(w):
    if w and w[-1] == ("var", "raw"):
        return w
    return w + (("var", "raw"),)


def strip_end(w):
    return tuple(t for t in w if t != ("END",))


def join(a, b):
    if a and a[-1] == ("END",):
        return a
    if a and b and a[-1][0] == "fix" and b[0][0] == "fix":
        return a[:-1] + (("fix", a[-1][1] + b[0][1]),) + b[1:]
    if a and b and a[-1] == b[0] and a[-1] in (("var", "raw"), ("var", "serde")):
        return a + b[1:]
    return a + b


def fmt(w):
    out = []
    for t in w:
        if t[0] == "fix":
            out.append("%dB" % t[1])
        elif t[0] == "var":
            out.append("<%s>" % t[1])
        elif t[0] == "loop":
            out.append("{" + " | ".join(sorted(fmt(x) for x in t[1])) + "}*")
        else:
            out.append(t[0])
    return " ".join(out) or "(nothing)"


WRITERS = ("serialize", "serialize_compact", "serialize_updatable")
READERS = ("deserialize", "newHll", "newList")


def obligations(facts, exceptions):
    fd = [facts.load(n) for n in facts.drivers if n != "bitpack"]
    X = RExtractor(fd)
    by_rec = {}
    for fn in X.fns:
        if fn.get("rect") is None or fn.get("body") is None or not fn["params"]:
            continue
        p0 = fn["params"][0]["t"]
        if fn["name"] in WRITERS:
            if "basic_ostream" in p0:
                by_rec.setdefault(fn["rect"], {}).setdefault("ws", {}).setdefault(fn["name"], fn)
            elif fn["ret"].startswith("std::vector<unsigned char"):
                by_rec.setdefault(fn["rect"], {}).setdefault("wb", {}).setdefault(fn["name"], fn)
        elif fn["name"] in READERS and fn.get("static"):
            if "basic_istream" in p0:
                by_rec.setdefault(fn["rect"], {}).setdefault("rs", {}).setdefault(fn["name"], fn)
            elif p0.startswith("const void") and len(fn["params"]) > 1 and fn["params"][1]["t"] == "unsigned long":
                by_rec.setdefault(fn["rect"], {}).setdefault("rb", {}).setdefault(fn["name"], fn)
    out = []
    for rect, d in sorted(by_rec.items()):
        for wm, rm, what in (("ws", "rs", "stream"), ("wb", "rb", "bytes")):
            if wm not in d or rm not in d:
                continue
            reader = list(d[rm].values())[0]
            try:
                X.stack = ()
                rw = words(a4_twin.drop_skip(X.shape_fn(reader, rm, track=None)))
            except OverflowError:
                out.append(ob("io-words", "%s:%s:reader" % (short(rect), what), reader["pat"], "info", "reader has too many paths to enumerate", reader["qname"]))
                continue
            for wname, writer in sorted(d[wm].items()):
                key = "%s::%s:%s-reader-accepts" % (short(rect), wname, what)
                try:
                    X.stack = ()
                    ww = words(a4_twin.drop_skip(X.shape_fn(writer, wm, track=None)))
                except OverflowError:
                    out.append(ob("io-words", key, writer["pat"], "info", "writer has too many paths to enumerate", writer["qname"]))
                    continue
                if any(t == ("abs",) for w in ww for t in w):
                    out.append(ob("io-words", key, writer["pat"], "info", "writer uses absolute offsets (not sequential): not compared", writer["qname"]))
                    continue
                missing = sorted((w for w in ww if w not in rw), key=len)
                if not missing:
                    out.append(ob("io-words", key, writer["pat"], "discharged", "all %d layouts the writer can emit are among the %d layouts the reader accepts (e.g. %s)" % (len(ww), len(rw), fmt(sorted(ww, key=len)[-1])[:160]), writer["qname"]))
                elif key in exceptions:
                    out.append(ob("io-words", key, writer["pat"], "info", "not comparable (reviewed): " + exceptions[key], writer["qname"]))
                else:
                    near = min(rw, key=lambda r: _dist(r, missing[0])) if rw else ()
                    out.append(ob("io-words", key, writer["pat"], "violated", "the %s writer can emit the layout `%s`, which the %s reader never consumes (closest accepted layout: `%s`): the reader reads a different number of bytes than were written" % (what, fmt(missing[0])[:200], what, fmt(near)[:200]), writer["qname"]))
    return out


def _dist(a, b):
    return abs(len(a) - len(b)) * 10 + sum(1 for x, y in zip(a, b) if x != y)
