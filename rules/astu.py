"""Small AST utilities shared by the rule modules (facts as exported by tools/dsx)."""
import re


def strip(e):
    while isinstance(e, dict) and e.get("k") == "Cast":
        e = e["e"]
    return e


def strip_all(e):
    """strip casts, copy/move constructions, std::move / std::forward / conditional_forward"""
    while isinstance(e, dict):
        if e.get("k") == "Cast":
            e = e["e"]
        elif e.get("k") == "Construct" and len(e.get("args", [])) == 1 and e.get("ckind") in ("copy", "move"):
            e = e["args"][0]
        elif e.get("k") == "Call" and e.get("cname") in ("move", "forward", "conditional_forward") and len(e.get("args", [])) == 1:
            e = e["args"][0]
        else:
            break
    return e


def walk(n, f):
    if isinstance(n, dict):
        f(n)
        for v in n.values():
            walk(v, f)
    elif isinstance(n, list):
        for v in n:
            walk(v, f)


def walkp(n, f, parents=()):
    """walk with the tuple of enclosing dict nodes"""
    if isinstance(n, dict):
        f(n, parents)
        for v in n.values():
            walkp(v, f, parents + (n,))
    elif isinstance(n, list):
        for v in n:
            walkp(v, f, parents)


def short(q):
    return (q or "").replace("datasketches::", "")


_VALUES = [False]
_GETTERS = [None]


def getter_map(fns):
    """pat -> returned expression of the parameterless member functions whose whole body is `return <expr over fields and constants>`"""
    m = {}
    for f in fns.values():
        if f.get("params") or f.get("body") is None or not f.get("rect"):
            continue
        st = stmts_of(f["body"])
        if len(st) != 1 or st[0].get("k") != "Return" or st[0].get("e") is None:
            continue
        bad = [False]
        walk(st[0]["e"], lambda n: bad.__setitem__(0, True) if n.get("k") in ("Call", "OpCall", "Assign", "Construct", "Lambda", "New") or (n.get("k") == "Un" and n.get("op") in ("++", "--")) or (n.get("k") == "Ref" and n.get("dk") in ("local", "param")) else None)
        if not bad[0]:
            m[f["pat"]] = st[0]["e"]
    return m


class with_getters:
    def __init__(self, fns):
        self.m = getter_map(fns)

    def __enter__(self):
        self.old = _GETTERS[0]
        _GETTERS[0] = self.m

    def __exit__(self, *a):
        _GETTERS[0] = self.old


def txt(e, inl=None, depth=0):
    """readable normalised text of an expression (this-> stripped, casts stripped)"""
    e = strip(e)
    if e is None:
        return "?"
    k = e.get("k")
    if k == "Ref":
        if inl and e.get("d") in inl and depth < 5:
            return txt(inl[e["d"]], inl, depth + 1)
        if _VALUES[0] and "v" in e and e.get("t") != "bool" and (e.get("dk") in ("global", "enum") or e.get("isstatic")):
            return str(e["v"])
        if _VALUES[0] and "fv" in e and e.get("dk") == "global":
            return repr(int(e["fv"]) if isinstance(e["fv"], float) and e["fv"] == int(e["fv"]) and abs(e["fv"]) < 1e15 else e["fv"])      # a named floating constant reads as its value
        return e["n"]
    if "v" in e and k not in ("Call", "Assign", "OpCall") and e.get("t") != "bool":
        return str(e["v"])
    if k == "Int":
        return e["lit"]
    if k == "Bool":
        return "true" if e["b"] else "false"
    if k == "Float":
        return repr(e.get("f"))
    if k == "Null":
        return "nullptr"
    if k == "This":
        return "this"
    if k == "Member":
        b = txt(e["b"], inl, depth)
        return e["f"] if b == "this" else b + "." + e["f"]
    if k == "Bin" or k == "Assign":
        return "(%s%s%s)" % (txt(e["l"], inl, depth), e["op"], txt(e["r"], inl, depth))
    if k == "Un":
        inner = txt(e["e"], inl, depth)
        return (inner + e["op"]) if e.get("post") else (e["op"] + inner)
    if k == "Call":
        o = ""
        if _GETTERS[0] and not e.get("args") and e.get("cpat") in _GETTERS[0] and (e.get("obj") is None or strip(e["obj"]).get("k") == "This") and depth < 5:
            return txt(_GETTERS[0][e["cpat"]], None, depth + 1)      # a trivial accessor of the own object reads as what it returns
        if e.get("obj") is not None:
            o = txt(e["obj"], inl, depth)
            o = "" if o == "this" else o + "."
        return o + e.get("cname", "?") + "(" + ",".join(txt(a, inl, depth) for a in e.get("args", [])) + ")"
    if k == "OpCall":
        a = [txt(x, inl, depth) for x in e.get("args", [])]
        op = e.get("op")
        if op == "[]" and len(a) == 2:
            return "%s[%s]" % (a[0], a[1])
        if op == "()" and a:
            return "%s(%s)" % (a[0], ",".join(a[1:]))
        if len(a) == 2:
            return "(%s%s%s)" % (a[0], op, a[1])
        if len(a) == 1:
            return "%s%s" % (op, a[0])
        return "op%s(%s)" % (op, ",".join(a))
    if k == "Construct":
        a = e.get("args", [])
        if len(a) == 1:
            return txt(a[0], inl, depth)
        return short(e.get("crec", "ctor")).split("<")[0] + "(" + ",".join(txt(x, inl, depth) for x in a) + ")"
    if k == "Cond":
        return "(%s?%s:%s)" % (txt(e["c"], inl, depth), txt(e["a"], inl, depth), txt(e["e"], inl, depth))
    if k == "Index":
        return "%s[%s]" % (txt(e["b"], inl, depth), txt(e["i"], inl, depth))
    if k == "Sizeof":
        return str(e.get("v"))
    return k or "?"


def is_this_field(e, names=None):
    e = strip(e)
    if isinstance(e, dict) and e.get("k") == "Member" and e.get("isfield") and strip(e["b"]).get("k") == "This":
        return names is None or e["f"] in names
    return False


def field_name(e):
    e = strip(e)
    if isinstance(e, dict) and e.get("k") == "Member" and e.get("isfield"):
        return e["f"]
    return None


def calls_in(n):
    out = []
    walk(n, lambda x: out.append(x) if x.get("k") in ("Call", "OpCall") else None)
    return out


def local_decls(fn):
    d = {}
    walk(fn.get("body"), lambda n: [d.__setitem__(v["d"], v) for v in n.get("vars", []) if "d" in v] if n.get("k") == "Decl" else None)
    return d


def stmts_of(s):
    if s is None:
        return []
    if s.get("k") == "Block":
        return s.get("s", [])
    return [s]


def always_exits(s):
    """statement always leaves the enclosing function/loop iteration by return/throw (structured check)"""
    if s is None:
        return False
    k = s.get("k")
    if k == "Return":
        return True
    if k == "Expr" and strip(s["e"]).get("k") == "Throw":
        return True
    if k == "Block":
        return any(always_exits(c) for c in s.get("s", []))
    if k == "If":
        return always_exits(s.get("t")) and always_exits(s.get("e"))
    return False


def always_throws(s):
    if s is None:
        return False
    k = s.get("k")
    if k == "Expr" and strip(s["e"]).get("k") == "Throw":
        return True
    if k == "Block":
        for c in s.get("s", []):
            if always_throws(c):
                return True
            if c.get("k") in ("Return",):
                return False
        return False
    if k == "If":
        return always_throws(s.get("t")) and always_throws(s.get("e"))
    return False


def functions_by(facts, drivers=None):
    """unique function per template pattern"""
    seen = {}
    for fn in facts.functions(drivers):
        if fn.get("body") is None:
            continue
        seen.setdefault(fn["pat"], fn)
    return seen


# ---------------------------------------------------------------------------------------------------------------------------
# canonical text of EXPECTED expressions: rules write the expected form in any orientation and pass it through C(), which
# applies the same conventions as vlib/normalize.py (comparison orientation, sorted min/max arguments, != for !(==))

_FLIP = {"<": ">", ">": "<", "<=": ">=", ">=": "<=", "==": "==", "!=": "!="}
_BINOPS = ["||", "&&", "==", "!=", "<=", ">=", "<<", ">>", "<", ">", "+", "-", "*", "/", "%", "&", "|", "^", "+=", "-=", "=", "|=", "&="]


def _split_top(s, seps):
    """split s at the first top-level occurrence of one of seps (longest first); returns (l, op, r) or None"""
    depth = 0
    i = 0
    n = len(s)
    while i < n:
        ch = s[i]
        if ch in "([":
            depth += 1
        elif ch in ")]":
            depth -= 1
        elif depth == 0:
            for op in sorted(seps, key=len, reverse=True):
                if s.startswith(op, i) and i > 0:
                    # do not split inside identifiers / arrows / template brackets
                    if op in ("<", ">") and (s[i - 1] == "-" or (i + 1 < n and s[i + 1] in "<>=" ) or s[i - 1] in "<>"):
                        continue
                    if op in ("-", "+") and (s[i - 1] in "(,=<>!&|+-*/%^" ):
                        continue
                    if op == "=" and (s[i - 1] in "=!<>+-|&" or (i + 1 < n and s[i + 1] == "=")):
                        continue
                    if op in ("&", "|") and ((i + 1 < n and s[i + 1] == op) or s[i - 1] == op or (i + 1 < n and s[i + 1] == "=")):
                        continue
                    return s[:i], op, s[i + len(op):]
        i += 1
    return None


_INTLIT = re.compile(r"^(0[xX][0-9a-fA-F]+|\d+)[uUlL]*$")


def C(s):
    """canonical form of an expected expression text (fully parenthesised binary operators as printed by txt())"""
    s = s.replace(" ", "")
    if not s:
        return s
    # prefix not
    if s.startswith("!(") and _matching(s, 1) == len(s) - 1:
        inner = C(s[1:])
        if inner.startswith("(") and _matching(inner, 0) == len(inner) - 1:
            sp = _split_top(inner[1:-1], ["==", "!="])
            if sp and sp[1] in ("==", "!="):
                return "(%s%s%s)" % (sp[0], "!=" if sp[1] == "==" else "==", sp[2])
        return "!" + inner
    if s.startswith("(") and _matching(s, 0) == len(s) - 1:
        body = s[1:-1]
        q = _split_top(body, ["?"])
        if q:
            # (c ? a : b): canonicalise the three parts; the polarity of c is left as written
            rest = q[2]
            depth, k = 0, None
            for i, ch in enumerate(rest):
                if ch in "([":
                    depth += 1
                elif ch in ")]":
                    depth -= 1
                elif ch == "?" and depth == 0:
                    depth += 1000      # nested ?: without parentheses: give up on finding the matching colon
                elif ch == ":" and depth == 0 and not (i + 1 < len(rest) and rest[i + 1] == ":") and not (i > 0 and rest[i - 1] == ":"):
                    k = i
                    break
            if k is not None:
                return "(%s?%s:%s)" % (C(q[0]), C(rest[:k]), C(rest[k + 1:]))
        for group in (["||"], ["&&"], ["==", "!=", "<=", ">=", "<", ">"], ["=", "+=", "-=", "|=", "&="], ["<<", ">>"], ["+", "-"], ["*", "/", "%"], ["&", "|", "^"]):
            sp = _split_top(body, group)
            if sp:
                l, op, r = C(sp[0]), sp[1], C(sp[2])
                if op in _FLIP and l > r:
                    l, r, op = r, l, _FLIP[op]
                # E12 / E11 of the facts normaliser: a literal operand of a commutative operator stands on the right, and a
                # multiplication by a power of two is a shift
                if op in ("*", "+", "|", "&", "^") and _INTLIT.match(l) and not _INTLIT.match(r):
                    l, r = r, l
                if op == "*" and _INTLIT.match(r) and not _INTLIT.match(l):
                    try:
                        v = int(r.rstrip("uUlL"), 0)
                        if v >= 2 and v & (v - 1) == 0:
                            op, r = "<<", str(v.bit_length() - 1)
                    except ValueError:
                        pass
                return "(%s%s%s)" % (l, op, r)
        return "(" + C(body) + ")"
    # call: name(args)
    m = _call_split(s)
    if m:
        name, args, tail = m
        args = [C(a) for a in args]
        if name.split(".")[-1] in ("min", "max") and len(args) == 2:
            args = sorted(args)
        return "%s(%s)%s" % (name, ",".join(args), C(tail) if tail.startswith(".") is False and tail else tail)
    return s


def _matching(s, i):
    depth = 0
    for j in range(i, len(s)):
        if s[j] in "([":
            depth += 1
        elif s[j] in ")]":
            depth -= 1
            if depth == 0:
                return j
    return -1


def _call_split(s):
    i = s.find("(")
    if i <= 0 or not (s[i - 1].isalnum() or s[i - 1] in "_>"):
        return None
    j = _matching(s, i)
    if j < 0:
        return None
    name, inner, tail = s[:i], s[i + 1:j], s[j + 1:]
    args, depth, cur = [], 0, ""
    for ch in inner:
        if ch in "([":
            depth += 1
        elif ch in ")]":
            depth -= 1
        if ch == "," and depth == 0:
            args.append(cur)
            cur = ""
        else:
            cur += ch
    if cur or args:
        args.append(cur)
    return name, args, tail


def ctxt(n, inl=None):
    """canonical text of a node after inlining locals: the orientation chosen by the normaliser is by the text *before* inlining, so
    rules that inline re-canonicalise the result before comparing it with C(expected)"""
    return C(txt(n, inl))


def eq_const(n):
    """for `x == CONST` / `CONST != x` returns (x node, constant value, operator) whichever side the constant is on"""
    n = strip(n)
    if isinstance(n, dict) and n.get("k") == "Bin" and n.get("op") in ("==", "!="):
        for a, b in ((n["l"], n["r"]), (n["r"], n["l"])):
            sb = strip(b)
            if isinstance(sb, dict) and "v" in sb and sb.get("k") not in ("Call", "OpCall"):
                return a, sb["v"], n["op"]
    return None


def gt_pair(c):
    """for an ordering comparison returns (greater side, smaller side, strict?) independent of how it is written"""
    c = strip(c)
    if not isinstance(c, dict) or c.get("k") != "Bin":
        return None
    op = c.get("op")
    if op in (">", ">="):
        return c["l"], c["r"], op == ">"
    if op in ("<", "<="):
        return c["r"], c["l"], op == "<"
    return None


def loops_of(n):
    out = []
    walk(n, lambda x: out.append(x) if x.get("k") in ("For", "While", "Do", "RangeFor") else None)
    return out


# ---------------------------------------------------------------------------------------------------------------------------
# reach conditions: the comparisons / tests that are known to hold when control reaches a node, independent of whether the code
# is written with nested ifs, guard clauses (`if (!c) return;`), else branches, `continue` / `break`, `&&` chains or ?:
# ---------------------------------------------------------------------------------------------------------------------------
_NEG_CMP = {"<": ">=", ">": "<=", "<=": ">", ">=": "<", "==": "!=", "!=": "=="}
_FLIP_CMP = {"<": ">", ">": "<", "<=": ">=", ">=": "<=", "==": "==", "!=": "!="}


def _is_float_expr(e):
    e = strip(e)
    t = (e.get("t") or "") if isinstance(e, dict) else ""
    return "float" in t or "double" in t


def _orient(n):
    if isinstance(n, dict) and n.get("k") == "Bin" and n.get("op") in _FLIP_CMP and txt(n["l"]) > txt(n["r"]):
        n = dict(n)
        n["l"], n["r"], n["op"] = n["r"], n["l"], _FLIP_CMP[n["op"]]
    return n


def negate(c):
    """list of literal nodes whose conjunction is the negation of c (integer comparisons are flipped, || is split by de Morgan;
    a negated && or a float ordering stays one `!(...)` literal)"""
    s = strip(c)
    if not isinstance(s, dict):
        return []
    if s.get("k") == "Un" and s.get("op") == "!":
        return literals(s["e"])
    if s.get("k") == "Bin" and s.get("op") == "||":
        return negate(s["l"]) + negate(s["r"])
    if s.get("k") == "Bin" and s.get("op") in _NEG_CMP:
        fl = _is_float_expr(s["l"]) or _is_float_expr(s["r"])
        if not fl or s["op"] in ("==", "!="):
            n = dict(s)
            n["op"] = _NEG_CMP[s["op"]]
            return [_orient(n)]
    if s.get("k") == "Bool":
        n = dict(s)
        n["b"] = not s.get("b")
        return [n]
    if s.get("k") == "Bin" and s.get("op") == "&&":
        # one literal in negation normal form: !(a && b) is the disjunction !a || !b (the same node a written `!a || !b` gives)
        def dis(parts):
            out = parts[0]
            for p2 in parts[1:]:
                out = {"k": "Bin", "op": "||", "l": out, "r": p2, "t": "bool", "sz": 1, "loc": s.get("loc"), "synth": True}
            return out

        def conj(parts):
            out = parts[0]
            for p2 in parts[1:]:
                out = {"k": "Bin", "op": "&&", "l": out, "r": p2, "t": "bool", "sz": 1, "loc": s.get("loc"), "synth": True}
            return out
        nl, nr = negate(s["l"]), negate(s["r"])
        if nl and nr:
            return [dis([conj(nl), conj(nr)])]
    return [{"k": "Un", "op": "!", "e": s, "loc": s.get("loc"), "t": "bool", "sz": 1}]


def literals(c):
    """list of literal nodes whose conjunction is c"""
    s = strip(c)
    if not isinstance(s, dict):
        return []
    if s.get("k") == "Bin" and s.get("op") == "&&":
        return literals(s["l"]) + literals(s["r"])
    if s.get("k") == "Un" and s.get("op") == "!":
        inner = strip(s["e"])
        if isinstance(inner, dict) and (inner.get("k") == "Un" and inner.get("op") == "!" or inner.get("k") == "Bin" and inner.get("op") in ("||",) + tuple(_NEG_CMP)):
            return negate(inner)
    return [_orient(s)]


def leaves(s):
    """statement always leaves the enclosing block: return / throw / break / continue on every path"""
    if s is None:
        return False
    k = s.get("k")
    if k in ("Return", "Break", "Continue"):
        return True
    if k == "Expr" and isinstance(strip(s.get("e")), dict) and strip(s["e"]).get("k") == "Throw":
        return True
    if k == "Block":
        return any(leaves(c) for c in s.get("s", []))
    if k == "If":
        return leaves(s.get("t")) and leaves(s.get("e"))
    return False


_REACH = {}


def _tag(lits, origin):
    return tuple((l, origin) for l in lits)


def reach_map(body):
    """id(node) -> tuple of (literal node, origin) known to hold when the node is evaluated / executed; origin is one of
    if / else / after-exit / after-throw / loop / and / or / cond"""
    key = id(body)
    hit = _REACH.get(key)
    if hit is not None and hit[0] is body:
        return hit[1]
    m = {}

    def ex(e, ctx):
        # expressions: short-circuit operators and ?: refine the context of their later operands
        if isinstance(e, list):
            for x in e:
                ex(x, ctx)
            return
        if not isinstance(e, dict):
            return
        m[id(e)] = ctx
        k = e.get("k")
        if k == "Bin" and e.get("op") == "&&":
            ex(e["l"], ctx)
            ex(e["r"], ctx + _tag(literals(e["l"]), "and"))
            return
        if k == "Bin" and e.get("op") == "||":
            ex(e["l"], ctx)
            ex(e["r"], ctx + _tag(negate(e["l"]), "or"))
            return
        if k == "Cond":
            ex(e.get("c"), ctx)
            ex(e.get("a"), ctx + _tag(literals(e["c"]), "cond"))
            ex(e.get("e"), ctx + _tag(negate(e["c"]), "cond"))
            return
        if k == "Lambda":
            if isinstance(e.get("body"), dict):
                st(e["body"], ())
            return
        for kk, v in e.items():
            if isinstance(v, (dict, list)):
                ex(v, ctx)

    def st(s, ctx, rest_throws=False):
        if not isinstance(s, dict):
            return
        m[id(s)] = ctx
        k = s.get("k")
        if k == "Block":
            cur = ctx
            ss = s.get("s", [])
            for j, c in enumerate(ss):
                # `if (c) { ...; return; } throw ...;` is the guard `if (!c) throw` written the other way round
                st(c, cur, isinstance(c, dict) and c.get("k") == "If" and c.get("e") is None and leaves(c.get("t")) and j + 1 < len(ss) and always_throws({"k": "Block", "s": ss[j + 1:]}))
                if isinstance(c, dict) and c.get("k") == "If":
                    lt, le = leaves(c.get("t")), (leaves(c.get("e")) if c.get("e") is not None else False)
                    if lt and not le:
                        cur = cur + _tag(negate(c["c"]), "after-throw" if always_throws(c.get("t")) else "after-exit")
                    elif le and not lt:
                        cur = cur + _tag(literals(c["c"]), "after-throw" if always_throws(c.get("e")) else "after-exit")
            return
        if k == "If":
            ex(s.get("c"), ctx)
            t_guard = rest_throws or (s.get("e") is not None and always_throws(s["e"]))
            st(s.get("t"), ctx + _tag(literals(s["c"]), "after-throw" if t_guard else "if"))
            if s.get("e") is not None:
                st(s["e"], ctx + _tag(negate(s["c"]), "after-throw" if always_throws(s.get("t")) else "else"))
            return
        if k in ("For", "While"):
            if isinstance(s.get("init"), dict):
                st(s["init"], ctx)
            ex(s.get("c"), ctx)
            inner = ctx + (_tag(literals(s["c"]), "loop") if s.get("c") is not None else ())
            ex(s.get("inc"), inner)
            st(s.get("b"), inner)
            return
        if k in ("Do", "RangeFor"):
            ex(s.get("c"), ctx)
            ex(s.get("range"), ctx)
            st(s.get("b"), ctx)
            return
        if k == "Switch":
            ex(s.get("c"), ctx)
            # statements after `case V:` (up to the next label) run under `c == V` when the previous group cannot fall through
            body = s.get("b")
            if isinstance(body, dict):
                m[id(body)] = ctx
            cur, prev_leaves = ctx, True
            for x in stmts_of(body):
                if not isinstance(x, dict):
                    continue
                if x.get("k") in ("Case", "Default"):
                    if x.get("k") == "Case" and prev_leaves and isinstance(s.get("c"), dict) and isinstance(x.get("v"), dict):
                        lit = _orient({"k": "Bin", "op": "==", "l": s["c"], "r": x["v"], "t": "bool", "sz": 1, "loc": x.get("loc"), "synth": True})
                        cur = ctx + _tag([lit], "case")
                    else:
                        cur = ctx
                    m[id(x)] = cur
                    ex(x.get("v"), ctx)
                    st(x.get("s"), cur)
                    prev_leaves = leaves(x.get("s"))
                else:
                    st(x, cur)
                    prev_leaves = leaves(x)
            return
        if k in ("Case", "Default"):
            ex(s.get("v"), ctx)
            st(s.get("s"), ctx)
            return
        if k == "Try":
            st(s.get("b"), ctx)
            for h in s.get("handlers") or []:
                if isinstance(h, dict):
                    st(h.get("s"), ctx)
            return
        if k == "Decl":
            for v in s.get("vars", []):
                if isinstance(v, dict):
                    ex(v.get("init"), ctx)
            return
        if k in ("Expr", "Return"):
            ex(s.get("e"), ctx)
            return
        # anything else (Break, Continue, ...): expressions inside keep the context
        for kk, v in s.items():
            if isinstance(v, (dict, list)):
                ex(v, ctx)
    st(body, ())
    # a named condition (`const bool take_copy = a && b; if (!take_copy) {..} else {..}`) contributes the literals of the
    # condition it names, like the condition written in place
    bl, written = {}, set()

    def bv(n):
        if n.get("k") == "Decl":
            for v in n.get("vars", []):
                if "d" in v and v.get("init") is not None and (v.get("t") or "").replace("const ", "") == "bool":
                    bl[v["d"]] = v["init"]
        elif n.get("k") == "Assign" and isinstance(strip(n.get("l")), dict) and strip(n["l"]).get("k") == "Ref":
            written.add(strip(n["l"]).get("d"))
    walk(body, bv)
    bl = {d: e for d, e in bl.items() if d not in written}
    if bl:
        memo = {}

        def expand_lit(lit, origin, depth=0):
            l0 = strip(lit)
            if isinstance(l0, dict) and l0.get("k") == "Ref" and l0.get("d") in bl and depth < 3:
                return tuple(x for l2 in literals(bl[l0["d"]]) for x in expand_lit(l2, origin, depth + 1))
            if isinstance(l0, dict) and l0.get("k") == "Un" and l0.get("op") == "!" and isinstance(strip(l0.get("e")), dict) and strip(l0["e"]).get("k") == "Ref" \
                    and strip(l0["e"]).get("d") in bl and depth < 3:
                return tuple(x for l2 in negate(bl[strip(l0["e"])["d"]]) for x in expand_lit(l2, origin, depth + 1))
            return ((lit, origin),)

        def expand(ctx):
            k2 = id(ctx)
            if k2 not in memo:
                memo[k2] = (ctx, tuple(x for lit, origin in ctx for x in expand_lit(lit, origin)))
            return memo[k2][1]
        for nid in list(m):
            if m[nid]:
                m[nid] = expand(m[nid])
    _REACH[key] = (body, m)
    return m


def reach_tagged(body, node):
    return list(reach_map(body).get(id(node), ()))


def reach(body, node, skip=()):
    """literal nodes known to hold when `node` (a statement or expression inside `body`) is reached; `skip`: origins to leave out"""
    return [l for l, o in reach_map(body).get(id(node), ()) if o not in skip]


def reach_txt(body, node, inl=None, skip=()):
    out = []
    for l in reach(body, node, skip):
        t = C(txt(l, inl))
        if t not in out:
            out.append(t)
    return out


def induction_locals(fn):
    """decl ids of locals that are stepped (++ / -- / += / -=) somewhere in the function: loop counters and cursors"""
    out = set()

    def v(n):
        if n.get("k") == "Un" and n.get("op") in ("++", "--"):
            t = strip(n.get("e"))
            if isinstance(t, dict) and t.get("k") == "Ref" and t.get("dk") == "local":
                out.add(t["d"])
        if n.get("k") == "Assign" and n.get("op") in ("+=", "-="):
            t = strip(n.get("l"))
            if isinstance(t, dict) and t.get("k") == "Ref" and t.get("dk") == "local":
                out.add(t["d"])
    walk(fn.get("body"), v)
    return out


# ---------------------------------------------------------------------------------------------------------------------------
# canonical text of an expression inside a function: independent of the names of locals / parameters, of hoisting a
# sub-expression into a const local, and of writing a constant by name or by value
# ---------------------------------------------------------------------------------------------------------------------------
_CINL = {}


def single_assignment_locals(fn):
    """decl id -> init expression for locals that are initialised at their declaration and never written again (no assignment,
    ++ / --, address-of)"""
    decls, written = {}, set()

    def v(n):
        k = n.get("k")
        if k == "Decl":
            for x in n.get("vars", []):
                if "d" in x and x.get("init") is not None:
                    decls[x["d"]] = x["init"]
        elif k == "Assign":
            t = strip(n.get("l"))
            if isinstance(t, dict) and t.get("k") == "Ref":
                written.add(t.get("d"))
        elif k == "Un" and n.get("op") in ("++", "--", "&"):
            t = strip(n.get("e"))
            if isinstance(t, dict) and t.get("k") == "Ref":
                written.add(t.get("d"))
    walk(fn.get("body"), v)
    return {d: e for d, e in decls.items() if d not in written}


def canon_inl(fn):
    """inlining map for txt(): single-assignment locals -> their initialiser; values taken from a stream, other locals and
    parameters -> a synthetic name that does not depend on how the source names them (triggers.canon_env)"""
    hit = _CINL.get(id(fn))
    if hit is not None and hit[0] is fn:
        return hit[1]
    import triggers
    env = triggers.canon_env(fn)
    sa = single_assignment_locals(fn)
    inl = {}
    for d, ident in env.items():
        if ident.startswith("=") and d in sa:
            inl[d] = sa[d]
        else:
            inl[d] = {"k": "Ref", "n": ident if not ident.startswith("=") else "local" + ident, "d": None, "dk": "synthetic"}
    _CINL[id(fn)] = (fn, inl)
    return inl


def ctext(fn, e, values=True):
    """canonical text of e (an expression of fn): locals inlined / renamed canonically, named constants by value, comparisons
    oriented as C() orients them"""
    old = _VALUES[0]
    _VALUES[0] = values
    try:
        return C(txt(e, canon_inl(fn)))
    finally:
        _VALUES[0] = old


# ---------------------------------------------------------------------------------------------------------------------------
# inlined view: statement-level calls of non-public void members of the same class replaced by the callee's body (parameters replaced by
# the arguments), so that a rule sees the same statements whether or not a block was extracted into a private helper
# ---------------------------------------------------------------------------------------------------------------------------
_STRUCT_LIKE = {}


def struct_like(by_pat):
    """record templates all of whose member functions are public (written as `struct`): their helpers cannot be told from their
    interface by access, so any void member called as a statement may be seen through"""
    key = id(by_pat)
    hit = _STRUCT_LIKE.get(key)
    if hit is not None and hit[0] is by_pat:
        return hit[1]
    acc = {}
    for f in by_pat.values():
        if f.get("rect") and f.get("kind") == "method":
            acc.setdefault(f["rect"], set()).add(f.get("access", 0))
    res = {r for r, a in acc.items() if a == {0}}
    _STRUCT_LIKE[key] = (by_pat, res)
    return res


_FRESH = [0]


def _fresh_locals(body):
    """every inlined copy of a helper gets its own local declarations (a helper inlined twice would otherwise share the decl ids
    of its locals between the copies, and whatever is keyed by decl id - initialisers, identities - would mix them up)"""
    decl = set()

    def v(n):
        if n.get("k") == "Decl":
            for x in n.get("vars", []):
                if "d" in x:
                    decl.add(x["d"])
        elif n.get("k") == "RangeFor" and isinstance(n.get("var"), dict) and "d" in n["var"]:
            decl.add(n["var"]["d"])
    walk(body, v)
    if not decl:
        return body
    _FRESH[0] += 1
    base = 100000000 + _FRESH[0] * 100000
    m = {d: base + i for i, d in enumerate(sorted(decl, key=str))}

    def r(n):
        if isinstance(n, list):
            return [r(x) for x in n]
        if not isinstance(n, dict):
            return n
        o = {k: r(v2) for k, v2 in n.items()}
        if "d" in o and o["d"] in m and (o.get("k") == "Ref" or "k" not in o or o.get("k") is None):
            o["d"] = m[o["d"]]
        return o
    return r(body)


def inlined_body(fn, by_pat, depth=2, _stack=(), keep=(), mark=None):
    import copy

    def subst(node, m):
        if isinstance(node, list):
            return [subst(x, m) for x in node]
        if not isinstance(node, dict):
            return node
        if node.get("k") == "Ref" and node.get("d") in m:
            return copy.deepcopy(m[node["d"]])
        if node.get("k") == "This" and "this" in m:
            return copy.deepcopy(m["this"])
        return {k: subst(v, m) for k, v in node.items()}

    def rec(s, d):
        if isinstance(s, list):
            return [rec(x, d) for x in s]
        if not isinstance(s, dict):
            return s
        if s.get("k") == "Expr" and isinstance(strip(s.get("e")), dict) and strip(s["e"]).get("k") == "Call" and d > 0:
            c = strip(s["e"])
            cal = by_pat.get(c.get("cpat"))
            if cal is not None and cal is not fn and cal.get("body") is not None and cal.get("rect") == fn.get("rect") and cal.get("ret") == "void" and (cal.get("access", 2) != 0 or cal.get("rect") in struct_like(by_pat)) and not (keep(cal.get("name") or "") if callable(keep) else cal.get("name") in keep) \
                    and cal["pat"] not in _stack and len(cal.get("params", [])) == len(c.get("args", [])) and (c.get("obj") is None or strip(c["obj"]).get("k") in ("This", "Ref")):
                m = {p["d"]: a for p, a in zip(cal["params"], c["args"])}
                if c.get("obj") is not None and strip(c["obj"]).get("k") == "Ref":
                    m["this"] = strip(c["obj"])      # tgt.helper(..): the helper's `this` is tgt
                body = _fresh_locals(subst(cal["body"], m))
                inner = inlined_body({"body": body, "rect": cal.get("rect"), "pat": cal["pat"]}, by_pat, d - 1, _stack + (fn.get("pat"), cal["pat"]), keep, mark)
                if mark is not None and mark(cal.get("name") or ""):
                    # the call itself stays visible (it is what some rule looks for) and its body follows it
                    return {"k": "Block", "s": [s, {"k": "Block", "s": stmts_of(inner), "loc": s.get("loc"), "inlined_body_of": cal.get("name")}], "loc": s.get("loc"), "marked": cal.get("name")}
                return {"k": "Block", "s": stmts_of(inner), "loc": s.get("loc"), "inlined": cal.get("name")}
        if s.get("k") == "Block":
            out = []
            for x in s.get("s", []):
                r = rec(x, d)
                has_ret = [False]
                if isinstance(r, dict) and r.get("k") == "Block" and r.get("inlined"):
                    walk(r, lambda y: has_ret.__setitem__(0, True) if y.get("k") == "Return" else None)
                if isinstance(r, dict) and r.get("k") == "Block" and r.get("inlined") and not has_ret[0]:
                    out.extend(r.get("s", []))      # the helper's statements take the place of the call (a `return` inside
                    # the helper only leaves the helper: such a body stays a block of its own)
                else:
                    out.append(r)
            return dict({k: v for k, v in s.items() if k != "s"}, s=out)
        return {k: rec(v, d) for k, v in s.items()}
    return rec(fn.get("body"), depth)


def inline_value_decls(fn, by_pat, depth=2):
    """`T x = helper(args);` where helper is a member of the same class called on this object whose body assembles a local
    step by step and returns it last (`T r = a; if (c) r |= b; ...; return r;`): the helper's statements take the place of the
    declaration and x is declared with the returned expression - the function reads as it did before the block was extracted"""
    import copy
    if fn.get("body") is None or depth <= 0:
        return fn

    def subst(node, m):
        if isinstance(node, list):
            return [subst(x, m) for x in node]
        if not isinstance(node, dict):
            return node
        if node.get("k") == "Ref" and node.get("d") in m:
            return copy.deepcopy(m[node["d"]])
        return {k: subst(v, m) for k, v in node.items()}
    changed = [False]

    def rec(s):
        if isinstance(s, list):
            return [rec(x) for x in s]
        if not isinstance(s, dict):
            return s
        if s.get("k") == "Block":
            out = []
            for x in s.get("s", []):
                done = False
                if isinstance(x, dict) and x.get("k") == "Decl" and len(x.get("vars", [])) == 1 and x["vars"][0].get("init") is not None:
                    c = strip_all(x["vars"][0]["init"])
                    cal = by_pat.get(c.get("cpat")) if c.get("k") == "Call" else None
                    if cal is not None and cal is not fn and cal.get("pat") != fn.get("pat") and cal.get("body") is not None and cal.get("rect") == fn.get("rect") and fn.get("rect") \
                            and (c.get("obj") is None or strip(c["obj"]).get("k") == "This") and len(cal.get("params", [])) == len(c.get("args", [])):
                        st = stmts_of(cal["body"])
                        rets = []
                        walk(cal["body"], lambda n: rets.append(n) if n.get("k") == "Return" else None)
                        if len(st) >= 2 and len(rets) == 1 and st[-1].get("k") == "Return" and st[-1].get("e") is not None and any(y.get("k") not in ("Decl", "Return") for y in st):
                            m = {p_["d"]: a for p_, a in zip(cal["params"], c["args"])}
                            body = _fresh_locals(subst({"k": "Block", "s": st}, m))
                            bs = body["s"]
                            v2 = dict(x["vars"][0], init=bs[-1]["e"])
                            out.extend(rec(bs[:-1]))
                            out.append(dict(x, vars=[v2]))
                            changed[0] = True
                            done = True
                if not done:
                    out.append(rec(x))
            return dict({k: v for k, v in s.items() if k != "s"}, s=out)
        return {k: rec(v) for k, v in s.items()}
    body = rec(fn["body"])
    if not changed[0]:
        return fn
    return inline_value_decls(dict(fn, body=body), by_pat, depth - 1)


# ---------------------------------------------------------------------------------------------------------------------------
# truth tables: evaluate a boolean expression under an assignment of its atoms (three-valued: None = unknown), so that a rule
# can require "filter == (A ? U : L) for every assignment" instead of one particular spelling of the expression
# ---------------------------------------------------------------------------------------------------------------------------
def _ite(c, a, b):
    if c is True:
        return a
    if c is False:
        return b
    return a if a == b else None


def _local_value(d, atom, inl, body, depth):
    """value of a local that is assigned in several branches (bool include = false; switch (..) { case A: include = x; .. }):
    folding the assignments in source order, each under the conditions known to hold where it stands"""
    writes = []

    def v(n):
        if n.get("k") == "Decl":
            for x in n.get("vars", []):
                if x.get("d") == d and x.get("init") is not None:
                    writes.append((x, x["init"], n))
        if n.get("k") == "Assign" and n.get("op") == "=" and strip(n.get("l")).get("k") == "Ref" and strip(n["l"]).get("d") == d:
            writes.append((n, n["r"], n))
    walk(body, v)
    if not writes:
        return None
    from triggers import _loc_key
    writes.sort(key=lambda w: _loc_key(w[0]))
    val = None
    first = True
    for node, rhs, where in writes:
        rv = tt_eval(rhs, atom, inl, depth + 1, body)
        if first and node.get("k") != "Assign":
            val = rv
            first = False
            continue
        first = False
        conds = [tt_eval(l, atom, inl, depth + 1, body) for l, o in reach_tagged(body, where) if o != "loop"]
        c = False if any(x is False for x in conds) else (True if all(x is True for x in conds) else None)
        val = _ite(c, rv, val)
    return val


def tt_eval(e, atom, inl=None, depth=0, body=None):
    """atom(node) -> True / False / None ('not an atom I know'); &&, ||, !, ?:, bool literals and single-assignment locals (inl)
    are evaluated structurally"""
    e = strip(e)
    if not isinstance(e, dict):
        return None
    a = atom(e)
    if a is not None:
        return a
    k = e.get("k")
    if k == "Ref" and inl and e.get("d") in inl and depth < 6:
        return tt_eval(inl[e["d"]], atom, inl, depth + 1, body)
    if k == "Ref" and body is not None and e.get("dk") == "local" and depth < 6:
        return _local_value(e.get("d"), atom, inl, body, depth)
    if k == "Bool":
        return bool(e.get("b"))
    if k == "Un" and e.get("op") == "!":
        v = tt_eval(e["e"], atom, inl, depth, body)
        return None if v is None else (not v)
    if k == "Bin" and e.get("op") in ("&&", "||"):
        l, r = tt_eval(e["l"], atom, inl, depth, body), tt_eval(e["r"], atom, inl, depth, body)
        if e["op"] == "&&":
            if l is False or r is False:
                return False
            return True if (l is True and r is True) else None
        if l is True or r is True:
            return True
        return False if (l is False and r is False) else None
    if k == "Cond":
        c = tt_eval(e["c"], atom, inl, depth, body)
        if c is None:
            x, y = tt_eval(e["a"], atom, inl, depth, body), tt_eval(e["e"], atom, inl, depth, body)
            return x if x == y else None
        return tt_eval(e["a"] if c else e["e"], atom, inl, depth, body)
    if k == "Call" and e.get("cname") in ("move", "forward") and e.get("args"):
        return tt_eval(e["args"][0], atom, inl, depth, body)
    return None


def root_views(fns):
    """[(function, body with non-public void helpers of its class seen through)] for the functions that are not themselves such
    helpers: the unit at which "what does this operation do" rules look at the code, so that moving statements into a private
    helper or back does not change what they see"""
    by_pat = {f["pat"]: f for f in fns.values()}
    sl = struct_like(by_pat)
    helper = set()
    for f in fns.values():
        if not f.get("rect") or f.get("body") is None:
            continue

        def hv(n, f=f):
            if n.get("k") == "Expr" and isinstance(strip(n.get("e")), dict) and strip(n["e"]).get("k") == "Call":
                c = strip(n["e"])
                cal = by_pat.get(c.get("cpat"))
                if cal is not None and cal is not f and cal.get("body") is not None and cal.get("rect") == f.get("rect") and cal.get("ret") == "void" \
                        and len(cal.get("params", [])) == len(c.get("args", [])) and (c.get("obj") is None or strip(c["obj"]).get("k") in ("This", "Ref")) \
                        and (cal.get("access", 2) != 0 or cal.get("rect") in sl):
                    helper.add(cal["pat"])
        walk(f["body"], hv)
    out = []
    for pat, f in sorted(fns.items()):
        if f.get("body") is None:
            continue
        if f["pat"] in helper:
            continue
        out.append((f, inlined_body(f, by_pat, depth=3) if f.get("rect") else f["body"]))
    return out


def stmts_flat(s):
    """top-level statements with nested plain blocks (e.g. the body of a helper seen through by inlined_body) spliced in: for
    rules about the ORDER of statements on the straight-line spine of a function"""
    out = []
    for x in stmts_of(s):
        if isinstance(x, dict) and x.get("k") == "Block":
            out.extend(stmts_flat(x))
        else:
            out.append(x)
    return out


def inline_single_returns(node, by_pat, rect, depth=3, file=None):
    """copy of node in which calls of non-public members of `rect` (or free functions of the library) whose whole body is
    `return expr;` are replaced by that expression with the parameters bound to the arguments: a closed form moved into a small
    private helper reads the same as written in place"""
    import copy

    def subst(n, m):
        if isinstance(n, list):
            return [subst(x, m) for x in n]
        if not isinstance(n, dict):
            return n
        if n.get("k") == "Ref" and n.get("d") in m:
            return copy.deepcopy(m[n["d"]])
        return {k: subst(v, m) for k, v in n.items()}

    def rec(n, d):
        if isinstance(n, list):
            return [rec(x, d) for x in n]
        if not isinstance(n, dict):
            return n
        n = {k: rec(v, d) for k, v in n.items()}
        if n.get("k") == "Call" and d > 0 and n.get("cpat") in by_pat:
            cal = by_pat[n["cpat"]]
            b = stmts_of(cal.get("body"))
            own = (cal.get("rect") == rect and rect is not None and (cal.get("access", 2) != 0 or rect in struct_like(by_pat))) \
                or (file is not None and not cal.get("rect") and str(cal.get("pat", "")).rsplit(":", 1)[0] == file)   # helper local to this file
            if own and len(b) == 1 and b[0].get("k") == "Return" and b[0].get("e") is not None and cal.get("params") and len(cal.get("params", [])) == len(n.get("args", [])) \
                    and (n.get("obj") is None or strip(n["obj"]).get("k") == "This"):
                m = {p["d"]: a for p, a in zip(cal["params"], n["args"])}
                return rec(subst(b[0]["e"], m), d - 1)
        return n
    return rec(node, depth)


def inline_local_lambdas(fn):
    """copy of fn's body in which calls of a local lambda whose body is `return expr;` (no captures written) are replaced by that
    expression with the parameters bound to the arguments: `auto pick = [](double a, double b) { return f(a, b); }; .. pick(x, y) ..`
    reads as `f(x, y)`"""
    import copy
    lams = {}

    def dv(n):
        if n.get("k") == "Decl":
            for v in n.get("vars", []):
                ini = strip_all(v.get("init") or {})
                while isinstance(ini, dict) and ini.get("k") == "Construct" and len(ini.get("args", [])) == 1:
                    ini = strip_all(ini["args"][0])
                if isinstance(ini, dict) and ini.get("k") == "Lambda" and "d" in v:
                    st = stmts_of(ini.get("body"))
                    if len(st) == 1 and st[0].get("k") == "Return" and st[0].get("e") is not None and ini.get("params") is not None:
                        lams[v["d"]] = (ini["params"], st[0]["e"])
    walk(fn.get("body"), dv)
    if not lams:
        return fn.get("body")

    def sub(n, m):
        if isinstance(n, list):
            return [sub(x, m) for x in n]
        if not isinstance(n, dict):
            return n
        if n.get("k") == "Ref" and n.get("d") in m:
            return copy.deepcopy(m[n["d"]])
        return {k: sub(v, m) for k, v in n.items()}

    def rec(n, depth=0):
        if isinstance(n, list):
            return [rec(x, depth) for x in n]
        if not isinstance(n, dict):
            return n
        if n.get("k") == "OpCall" and n.get("op") == "()" and n.get("args") and depth < 4:
            f = strip_all(n["args"][0])
            if isinstance(f, dict) and f.get("k") == "Ref" and f.get("d") in lams and len(lams[f["d"]][0]) == len(n["args"]) - 1:
                params, expr = lams[f["d"]]
                m = {p["d"]: rec(a, depth + 1) for p, a in zip(params, n["args"][1:])}
                return rec(sub(expr, m), depth + 1)
        return {k: rec(v, depth) for k, v in n.items()}
    return rec(fn.get("body"))
