"""Small AST utilities shared by the rule modules (facts as exported by tools/dsx)."""


def strip(e):
    while isinstance(e, dict) and e.get("k") == "Cast":
        e = e["e"]
    return e


def strip_all(e):
    """strip casts, copy/move constructions, std::move / std::forward / conditional_forward"""
    while isinstance(e, dict):
        if e.get("k") == "Cast":
            e = e["e"]
        elif e.get("k") == "Construct" and len(e.get("args", [])) == 1 and e.get("ckind") in ("copy", "move"):
            e = e["args"][0]
        elif e.get("k") == "Call" and e.get("cname") in ("move", "forward", "conditional_forward") and len(e.get("args", [])) == 1:
            e = e["args"][0]
        else:
            break
    return e


def walk(n, f):
    if isinstance(n, dict):
        f(n)
        for v in n.values():
            walk(v, f)
    elif isinstance(n, list):
        for v in n:
            walk(v, f)


def walkp(n, f, parents=()):
    """walk with the tuple of enclosing dict nodes"""
    if isinstance(n, dict):
        f(n, parents)
        for v in n.values():
            walkp(v, f, parents + (n,))
    elif isinstance(n, list):
        for v in n:
            walkp(v, f, parents)


def short(q):
    return (q or "").replace("datasketches::", "")


def txt(e, inl=None, depth=0):
    """readable normalised text of an expression (this-> stripped, casts stripped)"""
    e = strip(e)
    if e is None:
        return "?"
    k = e.get("k")
    if k == "Ref":
        if inl and e["d"] in inl and depth < 5:
            return txt(inl[e["d"]], inl, depth + 1)
        return e["n"]
    if "v" in e and k not in ("Call", "Assign", "OpCall") and e.get("t") != "bool":
        return str(e["v"])
    if k == "Int":
        return e["lit"]
    if k == "Bool":
        return "true" if e["b"] else "false"
    if k == "Float":
        return repr(e.get("f"))
    if k == "Null":
        return "nullptr"
    if k == "This":
        return "this"
    if k == "Member":
        b = txt(e["b"], inl, depth)
        return e["f"] if b == "this" else b + "." + e["f"]
    if k == "Bin" or k == "Assign":
        return "(%s%s%s)" % (txt(e["l"], inl, depth), e["op"], txt(e["r"], inl, depth))
    if k == "Un":
        inner = txt(e["e"], inl, depth)
        return (inner + e["op"]) if e.get("post") else (e["op"] + inner)
    if k == "Call":
        o = ""
        if e.get("obj") is not None:
            o = txt(e["obj"], inl, depth)
            o = "" if o == "this" else o + "."
        return o + e.get("cname", "?") + "(" + ",".join(txt(a, inl, depth) for a in e.get("args", [])) + ")"
    if k == "OpCall":
        a = [txt(x, inl, depth) for x in e.get("args", [])]
        op = e.get("op")
        if op == "[]" and len(a) == 2:
            return "%s[%s]" % (a[0], a[1])
        if op == "()" and a:
            return "%s(%s)" % (a[0], ",".join(a[1:]))
        if len(a) == 2:
            return "(%s%s%s)" % (a[0], op, a[1])
        if len(a) == 1:
            return "%s%s" % (op, a[0])
        return "op%s(%s)" % (op, ",".join(a))
    if k == "Construct":
        a = e.get("args", [])
        if len(a) == 1:
            return txt(a[0], inl, depth)
        return short(e.get("crec", "ctor")).split("<")[0] + "(" + ",".join(txt(x, inl, depth) for x in a) + ")"
    if k == "Cond":
        return "(%s?%s:%s)" % (txt(e["c"], inl, depth), txt(e["a"], inl, depth), txt(e["e"], inl, depth))
    if k == "Index":
        return "%s[%s]" % (txt(e["b"], inl, depth), txt(e["i"], inl, depth))
    if k == "Sizeof":
        return str(e.get("v"))
    return k or "?"


def is_this_field(e, names=None):
    e = strip(e)
    if isinstance(e, dict) and e.get("k") == "Member" and e.get("isfield") and strip(e["b"]).get("k") == "This":
        return names is None or e["f"] in names
    return False


def field_name(e):
    e = strip(e)
    if isinstance(e, dict) and e.get("k") == "Member" and e.get("isfield"):
        return e["f"]
    return None


def calls_in(n):
    out = []
    walk(n, lambda x: out.append(x) if x.get("k") in ("Call", "OpCall") else None)
    return out


def local_decls(fn):
    d = {}
    walk(fn.get("body"), lambda n: [d.__setitem__(v["d"], v) for v in n.get("vars", []) if "d" in v] if n.get("k") == "Decl" else None)
    return d


def stmts_of(s):
    if s is None:
        return []
    if s.get("k") == "Block":
        return s.get("s", [])
    return [s]


def always_exits(s):
    """statement always leaves the enclosing function/loop iteration by return/throw (structured check)"""
    if s is None:
        return False
    k = s.get("k")
    if k == "Return":
        return True
    if k == "Expr" and strip(s["e"]).get("k") == "Throw":
        return True
    if k == "Block":
        return any(always_exits(c) for c in s.get("s", []))
    if k == "If":
        return always_exits(s.get("t")) and always_exits(s.get("e"))
    return False


def always_throws(s):
    if s is None:
        return False
    k = s.get("k")
    if k == "Expr" and strip(s["e"]).get("k") == "Throw":
        return True
    if k == "Block":
        for c in s.get("s", []):
            if always_throws(c):
                return True
            if c.get("k") in ("Return",):
                return False
        return False
    if k == "If":
        return always_throws(s.get("t")) and always_throws(s.get("e"))
    return False


def functions_by(facts, drivers=None):
    """unique function per template pattern"""
    seen = {}
    for fn in facts.functions(drivers):
        if fn.get("body") is None:
            continue
        seen.setdefault(fn["pat"], fn)
    return seen


# ---------------------------------------------------------------------------------------------------------------------------
# canonical text of EXPECTED expressions: rules write the expected form in any orientation and pass it through C(), which
# applies the same conventions as vlib/normalize.py (comparison orientation, sorted min/max arguments, != for !(==))

_FLIP = {"<": ">", ">": "<", "<=": ">=", ">=": "<=", "==": "==", "!=": "!="}
_BINOPS = ["||", "&&", "==", "!=", "<=", ">=", "<<", ">>", "<", ">", "+", "-", "*", "/", "%", "&", "|", "^", "+=", "-=", "=", "|=", "&="]


def _split_top(s, seps):
    """split s at the first top-level occurrence of one of seps (longest first); returns (l, op, r) or None"""
    depth = 0
    i = 0
    n = len(s)
    while i < n:
        ch = s[i]
        if ch in "([":
            depth += 1
        elif ch in ")]":
            depth -= 1
        elif depth == 0:
            for op in sorted(seps, key=len, reverse=True):
                if s.startswith(op, i) and i > 0:
                    # do not split inside identifiers / arrows / template brackets
                    if op in ("<", ">") and (s[i - 1] == "-" or (i + 1 < n and s[i + 1] in "<>=" ) or s[i - 1] in "<>"):
                        continue
                    if op in ("-", "+") and (s[i - 1] in "(,=<>!&|+-*/%^" ):
                        continue
                    if op == "=" and (s[i - 1] in "=!<>+-|&" or (i + 1 < n and s[i + 1] == "=")):
                        continue
                    if op in ("&", "|") and ((i + 1 < n and s[i + 1] == op) or s[i - 1] == op or (i + 1 < n and s[i + 1] == "=")):
                        continue
                    return s[:i], op, s[i + len(op):]
        i += 1
    return None


def C(s):
    """canonical form of an expected expression text (fully parenthesised binary operators as printed by txt())"""
    s = s.replace(" ", "")
    if not s:
        return s
    # prefix not
    if s.startswith("!(") and _matching(s, 1) == len(s) - 1:
        inner = C(s[1:])
        if inner.startswith("(") and _matching(inner, 0) == len(inner) - 1:
            sp = _split_top(inner[1:-1], ["==", "!="])
            if sp and sp[1] in ("==", "!="):
                return "(%s%s%s)" % (sp[0], "!=" if sp[1] == "==" else "==", sp[2])
        return "!" + inner
    if s.startswith("(") and _matching(s, 0) == len(s) - 1:
        body = s[1:-1]
        for group in (["||"], ["&&"], ["==", "!=", "<=", ">=", "<", ">"], ["=", "+=", "-=", "|=", "&="], ["<<", ">>"], ["+", "-"], ["*", "/", "%"], ["&", "|", "^"]):
            sp = _split_top(body, group)
            if sp:
                l, op, r = C(sp[0]), sp[1], C(sp[2])
                if op in _FLIP and l > r:
                    l, r, op = r, l, _FLIP[op]
                return "(%s%s%s)" % (l, op, r)
        return "(" + C(body) + ")"
    # call: name(args)
    m = _call_split(s)
    if m:
        name, args, tail = m
        args = [C(a) for a in args]
        if name.split(".")[-1] in ("min", "max") and len(args) == 2:
            args = sorted(args)
        return "%s(%s)%s" % (name, ",".join(args), C(tail) if tail.startswith(".") is False and tail else tail)
    return s


def _matching(s, i):
    depth = 0
    for j in range(i, len(s)):
        if s[j] in "([":
            depth += 1
        elif s[j] in ")]":
            depth -= 1
            if depth == 0:
                return j
    return -1


def _call_split(s):
    i = s.find("(")
    if i <= 0 or not (s[i - 1].isalnum() or s[i - 1] in "_>"):
        return None
    j = _matching(s, i)
    if j < 0:
        return None
    name, inner, tail = s[:i], s[i + 1:j], s[j + 1:]
    args, depth, cur = [], 0, ""
    for ch in inner:
        if ch in "([":
            depth += 1
        elif ch in ")]":
            depth -= 1
        if ch == "," and depth == 0:
            args.append(cur)
            cur = ""
        else:
            cur += ch
    if cur or args:
        args.append(cur)
    return name, args, tail


def ctxt(n, inl=None):
    """canonical text of a node after inlining locals: the orientation chosen by the normaliser is by the text *before* inlining, so
    rules that inline re-canonicalise the result before comparing it with C(expected)"""
    return C(txt(n, inl))


def eq_const(n):
    """for `x == CONST` / `CONST != x` returns (x node, constant value, operator) whichever side the constant is on"""
    n = strip(n)
    if isinstance(n, dict) and n.get("k") == "Bin" and n.get("op") in ("==", "!="):
        for a, b in ((n["l"], n["r"]), (n["r"], n["l"])):
            sb = strip(b)
            if isinstance(sb, dict) and "v" in sb and sb.get("k") not in ("Call", "OpCall"):
                return a, sb["v"], n["op"]
    return None


def gt_pair(c):
    """for an ordering comparison returns (greater side, smaller side, strict?) independent of how it is written"""
    c = strip(c)
    if not isinstance(c, dict) or c.get("k") != "Bin":
        return None
    op = c.get("op")
    if op in (">", ">="):
        return c["l"], c["r"], op == ">"
    if op in ("<", "<="):
        return c["r"], c["l"], op == "<"
    return None


def loops_of(n):
    out = []
    walk(n, lambda x: out.append(x) if x.get("k") in ("For", "While", "Do", "RangeFor") else None)
    return out
