"""Small AST utilities shared by the rule modules (facts as exported by tools/dsx)."""


def strip(e):
    while isinstance(e, dict) and e.get("k") == "Cast":
        e = e["e"]
    return e


def strip_all(e):
    """strip casts, copy/move constructions, std::move / std::forward / conditional_forward"""
    while isinstance(e, dict):
        if e.get("k") == "Cast":
            e = e["e"]
        elif e.get("k") == "Construct" and len(e.get("args", [])) == 1 and e.get("ckind") in ("copy", "move"):
            e = e["args"][0]
        elif e.get("k") == "Call" and e.get("cname") in ("move", "forward", "conditional_forward") and len(e.get("args", [])) == 1:
            e = e["args"][0]
        else:
            break
    return e


def walk(n, f):
    if isinstance(n, dict):
        f(n)
        for v in n.values():
            walk(v, f)
    elif isinstance(n, list):
        for v in n:
            walk(v, f)


def walkp(n, f, parents=()):
    """walk with the tuple of enclosing dict nodes"""
    if isinstance(n, dict):
        f(n, parents)
        for v in n.values():
            walkp(v, f, parents + (n,))
    elif isinstance(n, list):
        for v in n:
            walkp(v, f, parents)


def short(q):
    return (q or "").replace("datasketches::", "")


def txt(e, inl=None, depth=0):
    """readable normalised text of an expression (this-> stripped, casts stripped)"""
    e = strip(e)
    if e is None:
        return "?"
    k = e.get("k")
    if k == "Ref":
        if inl and e["d"] in inl and depth < 5:
            return txt(inl[e["d"]], inl, depth + 1)
        return e["n"]
    if "v" in e and k not in ("Call", "Assign", "OpCall") and e.get("t") != "bool":
        return str(e["v"])
    if k == "Int":
        return e["lit"]
    if k == "Bool":
        return "true" if e["b"] else "false"
    if k == "Float":
        return repr(e.get("f"))
    if k == "Null":
        return "nullptr"
    if k == "This":
        return "this"
    if k == "Member":
        b = txt(e["b"], inl, depth)
        return e["f"] if b == "this" else b + "." + e["f"]
    if k == "Bin" or k == "Assign":
        return "(%s%s%s)" % (txt(e["l"], inl, depth), e["op"], txt(e["r"], inl, depth))
    if k == "Un":
        inner = txt(e["e"], inl, depth)
        return (inner + e["op"]) if e.get("post") else (e["op"] + inner)
    if k == "Call":
        o = ""
        if e.get("obj") is not None:
            o = txt(e["obj"], inl, depth)
            o = "" if o == "this" else o + "."
        return o + e.get("cname", "?") + "(" + ",".join(txt(a, inl, depth) for a in e.get("args", [])) + ")"
    if k == "OpCall":
        a = [txt(x, inl, depth) for x in e.get("args", [])]
        op = e.get("op")
        if op == "[]" and len(a) == 2:
            return "%s[%s]" % (a[0], a[1])
        if op == "()" and a:
            return "%s(%s)" % (a[0], ",".join(a[1:]))
        if len(a) == 2:
            return "(%s%s%s)" % (a[0], op, a[1])
        if len(a) == 1:
            return "%s%s" % (op, a[0])
        return "op%s(%s)" % (op, ",".join(a))
    if k == "Construct":
        a = e.get("args", [])
        if len(a) == 1:
            return txt(a[0], inl, depth)
        return short(e.get("crec", "ctor")).split("<")[0] + "(" + ",".join(txt(x, inl, depth) for x in a) + ")"
    if k == "Cond":
        return "(%s?%s:%s)" % (txt(e["c"], inl, depth), txt(e["a"], inl, depth), txt(e["e"], inl, depth))
    if k == "Index":
        return "%s[%s]" % (txt(e["b"], inl, depth), txt(e["i"], inl, depth))
    if k == "Sizeof":
        return str(e.get("v"))
    return k or "?"


def is_this_field(e, names=None):
    e = strip(e)
    if isinstance(e, dict) and e.get("k") == "Member" and e.get("isfield") and strip(e["b"]).get("k") == "This":
        return names is None or e["f"] in names
    return False


def field_name(e):
    e = strip(e)
    if isinstance(e, dict) and e.get("k") == "Member" and e.get("isfield"):
        return e["f"]
    return None


def calls_in(n):
    out = []
    walk(n, lambda x: out.append(x) if x.get("k") in ("Call", "OpCall") else None)
    return out


def local_decls(fn):
    d = {}
    walk(fn.get("body"), lambda n: [d.__setitem__(v["d"], v) for v in n.get("vars", []) if "d" in v] if n.get("k") == "Decl" else None)
    return d


def stmts_of(s):
    if s is None:
        return []
    if s.get("k") == "Block":
        return s.get("s", [])
    return [s]


def always_exits(s):
    """statement always leaves the enclosing function/loop iteration by return/throw (structured check)"""
    if s is None:
        return False
    k = s.get("k")
    if k == "Return":
        return True
    if k == "Expr" and strip(s["e"]).get("k") == "Throw":
        return True
    if k == "Block":
        return any(always_exits(c) for c in s.get("s", []))
    if k == "If":
        return always_exits(s.get("t")) and always_exits(s.get("e"))
    return False


def always_throws(s):
    if s is None:
        return False
    k = s.get("k")
    if k == "Expr" and strip(s["e"]).get("k") == "Throw":
        return True
    if k == "Block":
        for c in s.get("s", []):
            if always_throws(c):
                return True
            if c.get("k") in ("Return",):
                return False
        return False
    if k == "If":
        return always_throws(s.get("t")) and always_throws(s.get("e"))
    return False


def functions_by(facts, drivers=None):
    """unique function per template pattern"""
    seen = {}
    for fn in facts.functions(drivers):
        if fn.get("body") is None:
            continue
        seen.setdefault(fn["pat"], fn)
    return seen
