"""Zero-expected hazard lints (each matched a confirmed seeded change that no shape rule saw).  They look for constructs that are
almost never intended in this code base; the few instances on the reviewed tree are listed with a reason in spec/hazards.json.
  narrowed-argument   a 64-bit value implicitly converted to a narrower integer parameter of a library function (a seed, a
                      count or a size silently truncated at a call boundary)
  float-limits-min    std::numeric_limits<floating>::min() - the smallest POSITIVE value - where a lowest value is meant
  engine-in-loop      a random engine constructed (seeded) inside a loop: every iteration restarts the same sequence
  use-after-move      a parameter / local read in a later statement of the block in which it was handed to std::move / std::forward
  unsigned-bound      `x - c` over an unsigned x as a loop bound without a guard that x >= c (wraps to a huge bound at x < c)
  twin-initialiser    two locals of one block initialised by the same parameterless getter on the same object
  parallel-copy       the statements of one block that copy an element of several parallel arrays into position d read different
                      source positions
  narrow-accumulate   std::accumulate seeded with an int (float) literal whose result is used as a wider type
  unused-parameter    a named parameter of a member function that is never read (a configuration argument silently dropped)
  swapped-dealloc     a freshly allocated local pointer is swapped with another pointer and then released with its own size
  narrowed-return     a wider local is returned through a narrower integral return type (the count assembled in a uint32_t
                      accumulator leaves the helper as uint16_t)
  narrowed-shift      `T x = a << n` with T narrower than the shifted value and no bound on `a << n` that fits T (1 << lg_k in a
                      16-bit local wraps to 0 at lg_k >= 16)
  cross-object-ratio  in a member function that takes another object of its own class, a quotient whose one side reads only the
                      other object and whose other side reads only this object (an average of the source computed with the
                      destination's count)
  swapped-arguments   a call of a library function in which an argument carries the name of ANOTHER parameter of the callee while
                      that parameter's own position holds something else (`z(n, compression)` for `z(compression, n)`)
  stale-cursor        a loop steps one pointer cursor while it dereferences a second pointer (the start of another array) that
                      is never advanced
Each lint carries a positive control that must be recognised on every run."""
import json
import os
from astu import strip, strip_all, walk, txt, short, stmts_of, functions_by, reach
from vlib.core import ob, VERIF

W = {"unsigned long": 8, "long": 8, "unsigned long long": 8, "long long": 8, "unsigned int": 4, "int": 4, "unsigned short": 2, "short": 2,
     "unsigned char": 1, "char": 1, "signed char": 1}


def _w(t):
    return W.get((t or "").replace("const ", "").strip())


def _exc():
    p = os.path.join(VERIF, "spec", "hazards.json")
    return json.load(open(p)).get("exceptions", {}) if os.path.exists(p) else {}


def _blocks(n, acc):
    if isinstance(n, dict):
        if n.get("k") == "Block":
            acc.append(n)
        for v in n.values():
            _blocks(v, acc)
    elif isinstance(n, list):
        for v in n:
            _blocks(v, acc)
    return acc


def narrowed_arg_nodes(fn):
    out = []

    def v(n):
        if n.get("k") in ("Call", "Construct") and (n.get("callee") or n.get("crec") or "").startswith("datasketches"):
            for a in n.get("args", []):
                if isinstance(a, dict) and a.get("k") == "Cast" and a.get("impl") and a.get("ck") == "IntegralCast" and "v" not in a:
                    fr, to = _w(a.get("from")), _w(a.get("t"))
                    if fr == 8 and to is not None and to < 8:
                        out.append((n, a))
    walk(fn.get("body"), v)
    return out


def float_min_nodes(fn):
    out = []

    def v(n):
        if n.get("k") == "Call" and n.get("cname") == "min" and "numeric_limits<" in (n.get("callee") or "") and any(x in (n.get("callee") or "") for x in ("numeric_limits<double>", "numeric_limits<float>", "numeric_limits<long double>")):
            out.append(n)
    walk(fn.get("body"), v)
    walk(fn.get("inits", []), v)
    return out


ENGINES = ("linear_congruential_engine", "mersenne_twister_engine", "default_random_engine", "minstd_rand", "mt19937", "subtract_with_carry_engine", "random_device")


def engine_in_loop_nodes(fn):
    out = []

    def lv(n):
        if n.get("k") in ("For", "While", "RangeFor", "Do"):
            def inner(x):
                if x.get("k") == "Decl":
                    for y in x.get("vars", []):
                        if any(s in (y.get("t") or "") for s in ENGINES) and "static" not in (y.get("storage") or ""):
                            out.append(y)
            walk(n.get("b"), inner)
    walk(fn.get("body"), lv)
    return out


_BY_PAT = {}


def _consumes(cal, pidx, depth=0):
    """does the library function `cal` hand its pidx-th parameter AS A WHOLE to a constructor, an assignment or a container
    (directly or through further library functions)?  Moving single members out of it does not invalidate the other members."""
    if cal is None or cal.get("body") is None or depth > 3 or pidx >= len(cal.get("params", [])):
        return True
    d = cal["params"][pidx]["d"]
    hit = [False]

    def whole(a):
        a = strip(a)
        if isinstance(a, dict) and a.get("k") == "Call" and a.get("cname") in ("move", "forward", "conditional_forward") and len(a.get("args", [])) == 1:
            r = strip(a["args"][0])
            return isinstance(r, dict) and r.get("k") == "Ref" and r.get("d") == d
        return False

    def v(n):
        if n.get("k") in ("Construct", "New") :
            args = n.get("args") or ([n.get("init")] if isinstance(n.get("init"), dict) else [])
            for a in args:
                if whole(a) or (isinstance(strip(a), dict) and strip(a).get("k") == "Construct" and any(whole(x) for x in strip(a).get("args", []))):
                    hit[0] = True
        if n.get("k") in ("Assign", "OpCall") and n.get("op") == "=":
            r = n.get("r") if n.get("k") == "Assign" else (n.get("args") or [None, None])[1]
            if r is not None and whole(r):
                hit[0] = True
        if n.get("k") == "Call":
            for i, a in enumerate(n.get("args", [])):
                if whole(a):
                    inner = _BY_PAT.get(n.get("cpat"))
                    if inner is None or _consumes(inner, i, depth + 1):
                        hit[0] = True
    walk(cal["body"], v)
    return hit[0]


def use_after_move_nodes(fn):
    out = []
    for b in _blocks(fn.get("body"), []):
        st = stmts_of(b)
        for i, s in enumerate(st):
            if s.get("k") in ("For", "While", "RangeFor", "Do", "If", "Return", "Switch"):
                continue
            moved = []

            def mv(n):
                # the move / forward must be an argument of something that takes the whole object over
                if n.get("k") in ("Call", "Construct"):
                    for i, arg in enumerate(n.get("args", [])):
                        a0 = strip(arg)
                        if isinstance(a0, dict) and a0.get("k") == "Call" and a0.get("cname") in ("move", "forward") and (a0.get("callee") or "").startswith("std::") and len(a0.get("args", [])) == 1:
                            a = strip(a0["args"][0])
                            if isinstance(a, dict) and a.get("k") == "Ref" and a.get("dk") in ("param", "local"):
                                cal = _BY_PAT.get(n.get("cpat")) if n.get("k") == "Call" else None
                                if n.get("k") == "Construct" or cal is None or _consumes(cal, i):
                                    moved.append(a)
            walk(s, mv)
            for m in moved:
                for s2 in st[i + 1:]:
                    uses = []
                    walk(s2, lambda x: uses.append(x) if x.get("k") == "Ref" and x.get("d") == m["d"] else None)
                    if not uses:
                        continue
                    first = strip(s2.get("e")) if s2.get("k") == "Expr" else None
                    if isinstance(first, dict) and first.get("k") in ("Assign", "OpCall") and first.get("op") == "=" and strip(first.get("l") or (first.get("args") or [{}])[0]).get("d") == m["d"]:
                        break   # re-assigned: a fresh value
                    out.append((m, s, s2))
                    break
    return out


def unsigned_bound_nodes(fn):
    out = []

    def lb(n):
        if n.get("k") == "For" and n.get("c") is not None:
            def m(x):
                if x.get("k") == "Bin" and x.get("op") == "-" and isinstance(strip(x["r"]).get("v"), int) and strip(x["r"]).get("v") >= 1 and "v" not in x \
                        and (x.get("t") or "").replace("const ", "").startswith("unsigned") and _w(x.get("t")) in (4, 8):
                    # guarded if something known at the loop says the minuend is large enough
                    lt = txt(x["l"])
                    known = [txt(l) for l in reach(fn["body"], n)] + [txt(l) for l in reach(fn["body"], x)]
                    if not any(lt in k and any(op in k for op in (">", "!=", "<")) for k in known):
                        out.append((n, x))
            walk(n["c"], m)
    walk(fn.get("body"), lb)
    return out


def _idx_of(e):
    e = strip_all(e) if isinstance(e, dict) else {}
    if e.get("k") == "Index":
        return txt(e["b"]), txt(e["i"])
    if e.get("k") == "OpCall" and e.get("op") == "[]" and len(e.get("args", [])) == 2:
        return txt(e["args"][0]), txt(e["args"][1])
    if e.get("k") == "Un" and e.get("op") == "&":
        return _idx_of(e["e"])
    if e.get("k") in ("Call", "Construct") and len(e.get("args", [])) == 1:
        return _idx_of(e["args"][0])
    return None


def parallel_copy_nodes(fn):
    """blocks that copy one logical element of several parallel arrays (X[d] = A[s]; Y[d] = B[s]; new (&Z[d]) T(C[s])): all copies
    into position d read the same source position"""
    out = []
    for b in _blocks(fn.get("body"), []):
        groups = {}
        for s in stmts_of(b):
            if s.get("k") != "Expr":
                continue
            e = strip_all(s["e"])
            d = si = None
            if e.get("k") == "Assign" and e.get("op") == "=":
                d, si = _idx_of(e["l"]), _idx_of(e["r"])
            elif e.get("k") == "New" and e.get("placement") is not None:
                d = _idx_of(e["placement"])
                a = e.get("init") if isinstance(e.get("init"), dict) else None
                si = _idx_of(a) if a is not None else None
            if d and si and d[0] != si[0]:
                groups.setdefault(d[1], []).append((s, si[1]))
        for di, items in groups.items():
            if len(items) >= 2 and len(set(x[1] for x in items)) > 1:
                out.append((di, items))
    return out


def twin_initialiser_nodes(fn):
    """two locals of one block initialised by the same parameterless const getter on the same object (count_a = a.size(); count_b =
    a.size();): the second was meant to read the other object"""
    out = []
    for b in _blocks(fn.get("body"), []):
        seen = {}
        for s in stmts_of(b):
            if s.get("k") != "Decl" or len(s.get("vars", [])) != 1 or s["vars"][0].get("init") is None:
                continue
            v = s["vars"][0]
            i = strip_all(v["init"])
            if i.get("k") == "Call" and i.get("obj") is not None and not i.get("args") and i.get("cconst", True) and strip_all(i["obj"]).get("k") == "Ref":
                t = txt(i)
                if t in seen:
                    out.append((seen[t], v, t))
                seen[t] = v
    return out


def stale_cursor_nodes(fn):
    """a loop that steps one pointer cursor over an array while it dereferences a second pointer - initialised from the start of
    another array (`X.data()`, `X.begin()`, an array parameter) - that is never advanced in the loop: every iteration reads element 0
    of the second array"""
    out = []
    decls = {}
    walk(fn.get("body"), lambda n: [decls.__setitem__(v["d"], v) for v in n.get("vars", []) if "d" in v] if n.get("k") == "Decl" else None)

    def ptr(t):
        return (t or "").replace("const", "").replace(" ", "").endswith("*")

    def lv(L):
        if L.get("k") not in ("For", "While", "Do"):
            return
        stepped, derefs = set(), []

        def sv(n):
            if n.get("k") == "Un" and n.get("op") in ("++", "--") and strip_all(n.get("e") or {}).get("k") == "Ref" and ptr(strip_all(n["e"]).get("t")):
                stepped.add(strip_all(n["e"])["d"])
            if n.get("k") == "Assign" and strip_all(n.get("l") or {}).get("k") == "Ref" and ptr(strip_all(n["l"]).get("t")):
                stepped.add(strip_all(n["l"])["d"])
            if n.get("k") == "Un" and n.get("op") == "*" and strip_all(n.get("e") or {}).get("k") == "Ref" and ptr(strip_all(n["e"]).get("t")):
                derefs.append(strip_all(n["e"]))
        walk(L.get("b"), sv)
        walk(L.get("inc") or {}, sv)
        if not stepped:
            return
        for q in derefs:
            if q["d"] in stepped or q.get("dk") != "local" or q["d"] not in decls:
                continue
            ini = strip_all(decls[q["d"]].get("init") or {})
            if ini.get("k") == "Call" and ini.get("cname") in ("data", "begin", "cbegin") and not ini.get("args"):
                out.append((L, q))
    walk(fn.get("body"), lv)
    return out


def _narrowing(e):
    """(cast, operand) if e is an implicit integral conversion of a non-constant operand to a narrower type"""
    x = e
    while isinstance(x, dict) and x.get("k") == "Paren":
        x = x.get("e")
    if isinstance(x, dict) and x.get("k") == "Cast" and x.get("impl") and x.get("ck") == "IntegralCast":
        op = x.get("e")
        while isinstance(op, dict) and (op.get("k") == "Paren" or (op.get("k") == "Cast" and op.get("impl") and op.get("ck") in ("LValueToRValue", "NoOp"))):
            op = op.get("e")
        if isinstance(op, dict) and op.get("sz") and x.get("sz") and op["sz"] > x["sz"] and "v" not in op:
            return x, op
    return None


def _ubound(e, sa, depth=0):
    """an upper bound of a non-negative integral expression from literals, masks and single-assignment locals; None = unknown"""
    e = strip_all(e) if isinstance(e, dict) else e
    if not isinstance(e, dict) or depth > 6:
        return None
    if isinstance(e.get("v"), int) and not isinstance(e.get("v"), bool):
        return e["v"] if e["v"] >= 0 else None
    if e.get("k") == "Bin" and e.get("op") == "&":
        a, b = _ubound(e["l"], sa, depth + 1), _ubound(e["r"], sa, depth + 1)
        c = [x for x in (a, b) if x is not None]
        return min(c) if c else None
    if e.get("k") == "Bin" and e.get("op") == "<<":
        a, b = _ubound(e["l"], sa, depth + 1), _ubound(e["r"], sa, depth + 1)
        return (a << b) if a is not None and b is not None and b < 64 else None
    if e.get("k") == "Bin" and e.get("op") in ("+", "*", "|"):
        a, b = _ubound(e["l"], sa, depth + 1), _ubound(e["r"], sa, depth + 1)
        if a is None or b is None:
            return None
        return a + b if e["op"] in ("+", "|") else a * b
    if e.get("k") == "Ref" and e.get("d") in sa:
        return _ubound(sa[e["d"]], sa, depth + 1)
    return None


def narrowed_return_nodes(fn):
    out = []

    def v(n):
        if n.get("k") == "Return" and n.get("e") is not None:
            r = _narrowing(n["e"])
            if r:
                o = strip(r[1])
                if o.get("k") == "Ref" and o.get("dk") == "local":
                    out.append((n, o, r[0]))
    walk(fn["body"], v)
    return out


def narrowed_shift_nodes(fn):
    from astu import single_assignment_locals
    out = []
    sa = None

    def v(n):
        nonlocal sa
        if n.get("k") == "Decl":
            for var in n.get("vars", []):
                if var.get("init") is None:
                    continue
                r = _narrowing(var["init"])
                if not r:
                    continue
                op = strip(r[1])
                if op.get("k") == "Bin" and op.get("op") == "<<" and "v" not in strip(op["r"]):
                    if sa is None:
                        sa = single_assignment_locals(fn) if fn.get("params") is not None else {}
                    b = _ubound(op, sa)
                    bits = 8 * (r[0].get("sz") or 0)
                    if b is None or b >= (1 << bits):
                        out.append((var, op, r[0]))
    walk(fn["body"], v)
    return out


def cross_object_ratio_nodes(fn):
    if not fn.get("rect"):
        return []
    cls = short(fn["rect"]).split("::")[-1]
    pds = {p["d"] for p in fn.get("params") or [] if "d" in p and cls in (p.get("t") or "")}
    if not pds:
        return []

    def owners(e):
        o = set()

        def v(n):
            k = n.get("k")
            if k == "Member" and n.get("isfield"):
                b = strip_all(n.get("b") or {})
                if b.get("k") == "This":
                    o.add("this")
                elif b.get("k") == "Ref" and b.get("d") in pds:
                    o.add("other")
                elif b.get("k") != "Member":
                    o.add("x")
            if k == "Call" and n.get("member"):
                b = strip_all(n.get("obj") or {}) if n.get("obj") is not None else {"k": "This"}
                if b.get("k") == "This":
                    o.add("this")
                elif b.get("k") == "Ref" and b.get("d") in pds:
                    o.add("other")
                elif not (b.get("k") == "Member" and b.get("isfield")):
                    o.add("x")
            if k == "Ref" and (n.get("dk") == "local" or (n.get("dk") == "param" and n.get("d") not in pds)):
                o.add("x")
        walk(e, v)
        return o
    out = []

    def v(n):
        if n.get("k") == "Bin" and n.get("op") == "/":
            a, b = owners(n["l"]), owners(n["r"])
            if {tuple(a), tuple(b)} == {("this",), ("other",)}:
                out.append(n)
    walk(fn["body"], v)
    return out


def swapped_argument_nodes(fn, by_pat):
    out = []

    def argname(a):
        a = strip_all(a)
        if a.get("k") == "Ref":
            return (a.get("n") or "").strip("_")
        if a.get("k") == "Member" and a.get("isfield"):
            return (a.get("f") or "").strip("_")
        return None

    def v(n):
        if n.get("k") in ("Call", "Construct") and n.get("cpat") in by_pat:
            cal = by_pat[n["cpat"]]
            ps = [(p.get("n") or "").strip("_") for p in cal.get("params") or []]
            args = n.get("args") or []
            if len(ps) != len(args) or len(ps) < 2:
                return
            names = [argname(a) for a in args]
            for i in range(len(ps)):
                for j in range(len(ps)):
                    if i != j and names[i] and ps[j] and names[i] == ps[j] and names[i] != ps[i] and names[j] != ps[j]:
                        if not any(x[0] is n for x in out):
                            out.append((n, cal, i, j, names, ps))
    walk(fn["body"], v)
    return out


def narrow_accumulate_nodes(fn):
    """std::accumulate / std::reduce / std::inner_product whose accumulator type comes from an `int` (or float) initial value although
    the result is used as a wider type: the partial sums are kept in the narrow type (truncated to 32 bits / to float / to an
    integer) however wide the elements and the binary operation are"""
    from astu import walkp
    out = []

    def v(n, ps):
        if n.get("k") == "Call" and n.get("cname") in ("accumulate", "reduce", "inner_product") and (n.get("callee") or "").startswith("std::"):
            rt = (n.get("t") or "").replace("const ", "")
            par = ps[-1] if ps else {}
            if par.get("k") == "Cast" and par.get("impl") and par.get("ck") in ("IntegralToFloating", "IntegralCast", "FloatingCast"):
                wt = (par.get("t") or "").replace("const ", "")
                wide = {"int": ("double", "float", "long", "unsigned long", "long long", "unsigned long long"), "unsigned int": ("double", "long", "unsigned long", "unsigned long long"), "float": ("double",)}
                if wt in wide.get(rt, ()):
                    out.append((n, rt, wt))
    walkp(fn.get("body"), v)
    return out


def swapped_dealloc_nodes(fn):
    """`T* p = alloc.allocate(n); ...; std::swap(member_, p); alloc.deallocate(p, n);` - after the swap p is the OTHER block, which
    was allocated with its own size: releasing it with n hands the allocator a wrong size"""
    from triggers import _loc_key
    out = []
    allocs = {}

    def dv(n):
        if n.get("k") == "Decl":
            for v in n.get("vars", []):
                ini = strip_all(v.get("init") or {})
                if "d" in v and ini.get("k") == "Call" and ini.get("cname") == "allocate" and ini.get("args"):
                    allocs[v["d"]] = (v, txt(ini["args"][0]).replace(" ", ""))
    walk(fn.get("body"), dv)
    if not allocs:
        return out
    swaps, deallocs = [], []

    def sv(n):
        if n.get("k") == "Call" and n.get("cname") == "swap" and len(n.get("args", [])) == 2:
            for a in n["args"]:
                a = strip_all(a)
                if a.get("k") == "Ref" and a.get("d") in allocs:
                    swaps.append((n, a["d"]))
        if n.get("k") == "Call" and n.get("cname") == "deallocate" and len(n.get("args", [])) == 2:
            a = strip_all(n["args"][0])
            if a.get("k") == "Ref" and a.get("d") in allocs:
                deallocs.append((n, a["d"], txt(n["args"][1]).replace(" ", "")))
    walk(fn.get("body"), sv)
    for dn, d, size in deallocs:
        if size == allocs[d][1] and any(sd == d and _loc_key(sn) < _loc_key(dn) for sn, sd in swaps):
            out.append((dn, allocs[d][0], size))
    return out


def hazards(facts, fams=None):
    fns = functions_by(facts)
    _BY_PAT.clear()
    _BY_PAT.update({f["pat"]: f for f in fns.values()})
    exc = _exc()
    out = []
    scanned = 0
    by_pat_all = {f["pat"]: f for f in fns.values()}
    for pat, fn in sorted(fns.items()):
        if fn.get("body") is None or (fams and not any(pat.startswith(f) for f in fams)):
            continue
        scanned += 1
        base = short(fn.get("patq") or fn["name"])
        found = []
        for call, a in narrowed_arg_nodes(fn):
            found.append(("narrowed-argument", "%s->%s" % (base, call.get("cname") or short(call.get("crec") or "ctor")), a.get("loc"),
                          "`%s` (%s) is implicitly converted to %s in the call of %s: the upper bits are dropped silently (a 64-bit seed, count or size no longer reaches the callee)" % (txt(a), a.get("from"), a.get("t"), call.get("cname") or short(call.get("crec") or ""))))
        for n in float_min_nodes(fn):
            found.append(("float-limits-min", base, n.get("loc"), "`%s` is the smallest positive value, not the lowest one: a running maximum seeded with it never goes below ~1e-308 (use lowest() or -infinity)" % txt(n)))
        for y in engine_in_loop_nodes(fn):
            found.append(("engine-in-loop", "%s:%s" % (base, y.get("t", "")[:30]), y.get("loc"), "random engine `%s` is constructed inside a loop: every iteration restarts the same sequence, so all draws are equal" % y.get("n")))
        for m, s, s2 in use_after_move_nodes(fn):
            found.append(("use-after-move", "%s:%s" % (base, m.get("n")), s2.get("loc"), "`%s` is read after it was handed to std::move / std::forward in an earlier statement of the same block: for an rvalue argument the value is gone" % m.get("n")))
        for n, x in unsigned_bound_nodes(fn):
            found.append(("unsigned-bound", base, n.get("loc"), "loop bound `%s` subtracts from an unsigned value with no guard that it is large enough: at 0 the bound wraps to a huge number and the loop runs off the data" % txt(n["c"])))
        for v1, v2, t in twin_initialiser_nodes(fn):
            found.append(("twin-initialiser", "%s:%s" % (base, v2.get("n")), v2.get("loc"), "`%s` and `%s` are both initialised with `%s`: one of two sibling values is read from the wrong object (sizes, counts or thetas of the two operands get mixed up)" % (v1.get("n"), v2.get("n"), t)))
        for di, items in parallel_copy_nodes(fn):
            found.append(("parallel-copy", base, items[0][0].get("loc"), "the element copied into position `%s` is read from different source positions (%s) in the statements of one block: parallel arrays (items / weights / marks) get out of step" % (di, ", ".join(sorted(set(x[1] for x in items))))))
        for n, rt, wt in narrow_accumulate_nodes(fn):
            found.append(("narrow-accumulate", base, n.get("loc"), "std::%s accumulates in `%s` (the type of its initial value) and the result is then widened to `%s`: the partial sums are truncated to the narrow type, whatever the element type and the binary operation return (e.g. a total weight above 2^31 wraps)" % (n.get("cname"), rt, wt)))
        for n, cal, i, j, names, ps in swapped_argument_nodes(fn, by_pat_all):
            found.append(("swapped-arguments", "%s->%s" % (base, cal["name"]), n.get("loc"), "`%s` is passed as argument %d of %s, whose parameter %d is called `%s` (parameter %d is `%s`): the arguments are in another order than the callee declares them" % (names[i], i, cal["name"], j, ps[j], i, ps[i])))
        for n in cross_object_ratio_nodes(fn):
            found.append(("cross-object-ratio", base, n.get("loc"), "`%s` divides a quantity of one object by a quantity of the other (this object and the argument of the same class): a per-item average, a rate or a fraction of the source is computed with the destination's count, so what is merged in is weighted wrongly whenever the two differ" % txt(n)))
        for n, o, c in narrowed_return_nodes(fn):
            found.append(("narrowed-return", "%s:%s" % (base, o.get("n")), n.get("loc"), "the local `%s` (%s) is returned through the narrower return type %s: the upper bits are dropped silently at the end of the helper (a count above %d comes back wrapped)" % (o.get("n"), o.get("t"), c.get("t"), (1 << (8 * (c.get("sz") or 1))) - 1)))
        for var, op, c in narrowed_shift_nodes(fn):
            found.append(("narrowed-shift", "%s:%s" % (base, var.get("n")), var.get("loc") or op.get("loc"), "`%s %s = %s`: the shifted value is computed in a wider type and stored in %d bits, and nothing bounds it below 2^%d (e.g. 1 << lg_k wraps to 0 for lg_k >= %d): whatever is derived from it (a table size, a standard error) is computed from the truncated value" % (var.get("t"), var.get("n"), txt(op), 8 * (c.get("sz") or 0), 8 * (c.get("sz") or 0), 8 * (c.get("sz") or 0))))
        if fn.get("rect"):
            used = set()
            walk(fn["body"], lambda x: used.add(x.get("d")) if x.get("k") == "Ref" else None)
            walk(fn["body"], lambda x: used.update(x.get("uses") or []) if x.get("k") == "Throw" else None)      # read by an error message
            walk(fn.get("inits") or [], lambda x: used.add(x.get("d")) if x.get("k") == "Ref" else None)
            for pm in fn.get("params") or []:
                if pm.get("n") and pm.get("d") not in used:
                    found.append(("unused-parameter", "%s:%s" % (base, pm["n"]), fn["pat"], "the named parameter `%s` of %s is never read: what the caller passes (a kernel, a comparator, a seed, a size) is silently replaced by a default inside" % (pm["n"], base)))
        for dn, v, size in swapped_dealloc_nodes(fn):
            found.append(("swapped-dealloc", "%s:%s" % (base, v.get("n")), dn.get("loc"), "`%s` was allocated with `%s` but has been swapped with another pointer before it is released with the same `%s`: the block released is the other one, which was allocated with its own size - an allocator that uses the size passed to deallocate (pools, accounting) is handed a wrong one" % (v.get("n"), size, size)))
        for L, q in stale_cursor_nodes(fn):
            found.append(("stale-cursor", "%s:%s" % (base, q.get("n")), L.get("loc"), "the loop steps a pointer over one array but dereferences `%s` (the start of another array) without ever advancing it: every iteration reads element 0 of that array instead of the element that corresponds to the current position" % q.get("n")))
        cnt = {}
        for rule, key, loc, detail in found:
            k0 = "%s:%s" % (rule, key)
            i = cnt.get(k0, 0)
            cnt[k0] = i + 1
            k = "%s#%d" % (k0, i)
            if k in exc:
                out.append(ob("lint.hazard", k, loc or fn["pat"], "info", "reviewed instance: %s" % exc[k], fn["qname"]))
            else:
                out.append(ob("lint.hazard", k, loc or fn["pat"], "violated", detail, fn["qname"]))
    out.append(ob("lint.hazard", "all:functions-scanned", "", "discharged", "%d functions scanned for 15 hazard patterns" % scanned, ""))
    # positive controls
    ctl_fn = {"body": {"k": "Block", "s": [
        {"k": "Expr", "e": {"k": "Call", "cname": "f", "callee": "datasketches::f", "args": [{"k": "Cast", "impl": True, "ck": "IntegralCast", "from": "unsigned long", "t": "unsigned int", "e": {"k": "Ref", "n": "seed", "d": 1, "dk": "param", "t": "unsigned long"}}]}},
        {"k": "Expr", "e": {"k": "Call", "cname": "min", "callee": "std::numeric_limits<double>::min", "args": []}},
    ]}, "inits": []}
    ok = len(narrowed_arg_nodes(ctl_fn)) == 1 and len(float_min_nodes(ctl_fn)) == 1
    out.append(ob("lint.hazard", "control:positive", "", "discharged" if ok else "unrecognised", "positive controls (narrowed argument, numeric_limits<double>::min()) are recognised", ""))
    return out
