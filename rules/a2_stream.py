#!/usr/bin/env python3
"""A2 prototype: every normal return of a stream reader is preceded by a stream-state test after the last read.

Abstract state: set of {'dirty'} flags per path (dirty = a read happened since the last `if (!is.good()) throw`).
Callee summaries (interprocedural): reads?, may_return_dirty?
Second clause: a value read from the stream sizes an allocation before any stream test (alloc-before-check).
"""
import json, sys, glob


def walk_exprs(e, f):
    if isinstance(e, dict):
        f(e)
        for v in e.values():
            walk_exprs(v, f)
    elif isinstance(e, list):
        for v in e:
            walk_exprs(v, f)


class A2:
    def __init__(self, facts):
        self.by_pat = {}
        self.fns = []
        for f in facts:
            for fn in f["functions"]:
                self.by_pat.setdefault(fn["pat"], fn)
                self.fns.append(fn)
        self.summary = {}  # pat -> (reads, may_return_dirty)
        self.inprogress = set()
        self.reports = []

    def is_stream_reader(self, fn):
        return any("istream" in p["t"] for p in fn["params"])

    def stream_param_ids(self, fn):
        return [p["d"] for p in fn["params"] if "istream" in p["t"]]

    # classify a call expression: returns ('read'| 'check' | 'callee', info) or None
    def classify_call(self, fn, e):
        callee = e.get("callee", "")
        cname = e.get("cname", "")
        if callee in ("datasketches::read", "datasketches::read_big_endian"):
            return ("read", None)
        if e.get("member") and e.get("crec", "").startswith("std::basic_istream") or e.get("crec", "") in ("std::basic_istream", "std::basic_ios", "std::ios_base"):
            if cname in ("read", "get", "getline", "ignore", "operator>>"):
                return ("read", None)
            if cname in ("good", "fail", "eof", "bad", "operator bool", "operator!"):
                return ("check", None)
            return None
        # calls passing the stream to a library function
        passes_stream = any(self.is_stream_arg(a) for a in e.get("args", []))
        if passes_stream and callee.startswith("datasketches::"):
            return ("callee", e.get("cpat"))
        return None

    def is_stream_arg(self, a):
        t = a.get("t", "")
        return "basic_istream" in t

    def summarize(self, pat):
        if pat in self.summary:
            return self.summary[pat]
        fn = self.by_pat.get(pat)
        if fn is None or pat in self.inprogress:
            return (True, True)  # unknown callee that takes the stream: assume it reads and may return dirty
        self.inprogress.add(pat)
        outs = self.run(fn, fn["body"], frozenset([False]), report=False)
        self.inprogress.discard(pat)
        reads = self._reads.get(pat, False)
        res = (reads, True in outs)
        self.summary[pat] = res
        return res

    _reads = {}

    # returns set of dirty-flags at normal exits (fall or return)
    def run(self, fn, s, states, report):
        saved = (getattr(self, "ret_states", set()), self.break_states, getattr(self, "cur", None))
        self.cur = fn
        self.ret_states = set()
        self.break_states = set()
        fall = self.stmt(fn, s, set(states), report)
        res = self.ret_states | fall
        self.ret_states, self.break_states, self.cur = saved
        return res

    def expr_effect(self, fn, e, states, report):
        """apply effects of all calls inside expression e in evaluation order (approx: pre-order of args first)"""
        calls = []

        def visit(x):
            if isinstance(x, dict):
                for k, v in x.items():
                    if k in ("body",):
                        continue
                    visit(v)
                if x.get("k") in ("Call", "OpCall", "Construct"):
                    calls.append(x)
            elif isinstance(x, list):
                for v in x:
                    visit(v)
        visit(e)
        for c in calls:
            if c.get("k") == "Construct":
                continue
            cl = self.classify_call(fn, c)
            if cl is None:
                continue
            if cl[0] == "read":
                self._reads[fn["pat"]] = True
                states = {True}
            elif cl[0] == "callee":
                r, d = self.summarize(cl[1])
                self.cur = fn
                if r:
                    self._reads[fn["pat"]] = True
                    states = {True} if d else {False}
                    if d and not any(True for _ in [0] if False):
                        states = {True} if d else {False}
                        if d:
                            # callee may or may not leave it dirty; conservative: dirty
                            pass
        return states

    def is_good_check(self, c):
        """cond is `!is.good()` (or is.fail()...) ; returns 'neg' if true-branch means stream bad"""
        if c is None:
            return None
        if c.get("k") == "Un" and c.get("op") == "!":
            inner = c["e"]
            if inner.get("k") == "Call" and inner.get("cname") == "good":
                return "bad_if_true"
        if c.get("k") == "Call" and c.get("cname") in ("fail", "bad", "eof"):
            return "bad_if_true"
        if c.get("k") == "Call" and c.get("cname") == "good":
            return "bad_if_false"
        if c.get("k") == "Bin" and c.get("op") == "||":
            a, b = self.is_good_check(c["l"]), self.is_good_check(c["r"])
            if "bad_if_true" in (a, b):
                return "maybe_bad_if_true"
        return None

    def always_throws(self, s):
        if s is None:
            return False
        k = s["k"]
        if k == "Expr":
            return s["e"].get("k") == "Throw"
        if k == "Block":
            return any(self.always_throws(c) for c in s["s"][-1:]) if s["s"] else False
        return False

    def stmt(self, fn, s, states, report):
        if s is None or not states:
            return states
        k = s["k"]
        if k == "Block":
            for c in s["s"]:
                states = self.stmt(fn, c, states, report)
                if not states:
                    break
            return states
        if k == "Expr":
            if s["e"].get("k") == "Throw":
                return set()
            return self.expr_effect(fn, s["e"], states, report)
        if k == "Decl":
            for v in s["vars"]:
                if "init" in v and v["init"] is not None:
                    states = self.expr_effect(fn, v["init"], states, report)
            return states
        if k == "Return":
            if s.get("e"):
                states = self.expr_effect(fn, s["e"], states, report)
            if report and True in states:
                self.reports.append({"fn": fn["qname"], "pat": fn["pat"], "loc": s["loc"], "kind": "return-dirty", "detail": "normal return reachable with no stream-state test after the last read"})
            self.ret_states |= states
            return set()
        if k == "If":
            states = self.expr_effect(fn, s["c"], states, report)
            gc = self.is_good_check(s["c"])
            t_states, e_states = set(states), set(states)
            if gc == "bad_if_true" and self.always_throws(s["t"]):
                # else/continuation: stream known good
                e_states = {False}
                t = self.stmt(fn, s["t"], t_states, report)
                e = self.stmt(fn, s.get("e"), e_states, report) if s.get("e") else e_states
                return t | e
            if gc == "maybe_bad_if_true" and self.always_throws(s["t"]):
                e_states = {False}
                t = self.stmt(fn, s["t"], t_states, report)
                e = self.stmt(fn, s.get("e"), e_states, report) if s.get("e") else e_states
                return t | e
            if gc == "bad_if_true":
                # e.g. `if (!is.good()) break;` inside loops: else-branch clean
                t = self.stmt(fn, s["t"], t_states, report)
                e = self.stmt(fn, s.get("e"), {False}, report) if s.get("e") else {False}
                return t | e
            t = self.stmt(fn, s["t"], t_states, report)
            e = self.stmt(fn, s.get("e"), e_states, report) if s.get("e") else e_states
            return t | e
        if k in ("For", "While", "Do", "RangeFor"):
            if k == "For" and s.get("init"):
                states = self.stmt(fn, s["init"], states, report)
            if s.get("c"):
                states = self.expr_effect(fn, s["c"], states, report)
            if k == "RangeFor":
                states = self.expr_effect(fn, s["range"], states, report)
            # fixpoint over boolean set
            acc = set(states)
            for _ in range(3):
                b = self.stmt(fn, s["b"], set(acc), report and _ == 2)
                if k == "For" and s.get("inc"):
                    b = self.expr_effect(fn, s["inc"], b, report)
                if s.get("c"):
                    b = self.expr_effect(fn, s["c"], b, report)
                new = acc | b | self.break_states
                if new == acc:
                    break
                acc = new
            return acc
        if k == "Switch":
            states = self.expr_effect(fn, s["c"], states, report)
            out = set()
            body = s["b"]["s"] if s["b"]["k"] == "Block" else [s["b"]]
            cur = set()
            for c in body:
                node = c
                while node["k"] in ("Case", "Default"):
                    cur |= states
                    node = node["s"]
                cur = self.stmt(fn, node, cur, report)
            return cur | self.break_states | out
        if k == "Break":
            self.break_states |= states
            return set()
        if k == "Continue":
            return set()
        if k == "Try":
            return self.stmt(fn, s["b"], states, report)
        return states

    break_states = set()


def main():
    facts = [json.load(open(f)) for f in (sys.argv[1:] or glob.glob("/root/verif-proto/facts/*.json"))]
    A = A2(facts)
    seen = set()
    rows = []
    for fn in A.fns:
        if not A.is_stream_reader(fn) or fn["pat"] in seen:
            continue
        if fn["ret"] == "void" or fn["name"] in ("read", "read_big_endian"):
            continue
        if "ostream" in " ".join(p["t"] for p in fn["params"]):
            continue
        seen.add(fn["pat"])
        A.break_states = set()
        before = len(A.reports)
        outs = A.run(fn, fn["body"], frozenset([False]), report=True)
        rows.append((fn["pat"], fn["qname"], A._reads.get(fn["pat"], False), True in outs, A.reports[before:]))
    for pat, name, reads, dirty, reps in sorted(rows):
        print("%-95s %-45s reads=%s %s" % (name[:95], pat.split("/")[-1], reads, "RETURNS-UNCHECKED" if dirty else "ok"))
        for r in {(r["loc"]) for r in reps}:
            print("      unchecked return at", r)


if __name__ == "__main__":
    main()
