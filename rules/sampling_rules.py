"""C16 (VarOpt) and C18 (EBPPS): bookkeeping clauses visible in the shape of the code (thin structural clauses).
C16 decided: weight validation and counting of accepted items, the update dispatch conditions, H items report their stored weight
and R items the reservoir weight, sample count formula, union accounting of n, r_/total_wt_r_ coupling.
C18 decided: weight validation, the closed forms new_cum / new_wt_max / new_rho, unconditional state update, merge accounting
(n, cumulative weight, maximum weight, smaller k), smaller-into-larger orientation, sample assembly.
Not decided for either: conservation of total weight as arithmetic, unbiasedness / inclusion probabilities, the downsampling case
analysis."""
from astu import walkp, C, ctxt, gt_pair, eq_const, reach, reach_txt, ctext, strip, strip_all, walk, walkp, txt, short, is_this_field, stmts_of, always_throws, functions_by, local_decls
from vlib.core import ob


def _t(s):
    if s.get("k") == "Expr":
        return txt(s["e"]).replace(" ", "")
    if s.get("k") == "Return":
        return "return " + txt(s.get("e")).replace(" ", "")
    if s.get("k") == "If":
        return "if" + txt(s["c"]).replace(" ", "")
    if s.get("k") == "Decl":
        return ";".join("%s=%s" % (v["n"], txt(v.get("init")).replace(" ", "")) for v in s.get("vars", []))
    return s.get("k")


_ANCHORS = ("update", "merge", "internal_update", "internal_merge", "downsample", "update_warmup_phase", "update_light", "update_heavy_r_eq1", "update_heavy_general",
            "grow_candidate_set", "downsample_candidate_set", "decrease_k_by_1", "transition_from_warmup", "convert_to_heap", "move_one_to_partial", "subsample", "reset")


def _fn(fs, rec, name, pred=lambda f: True):
    """the function as the rules look at it: private void helpers that are not anchors of a rule are seen through, and small
    private `return expr;` helpers are read as their expression"""
    from astu import inlined_body, inline_single_returns
    c = [f for f in fs.values() if f.get("rect") == rec and f["name"] == name and f.get("body") is not None and pred(f)]
    if not c:
        return None
    by_pat = {f["pat"]: f for f in fs.values()}
    f = c[0]
    body = inlined_body(f, by_pat, keep=_ANCHORS)
    body = inline_single_returns(body, by_pat, f.get("rect"))
    return dict(f, body=body)


def _weight_guard(fn, out, rule, key):
    # canonical form (vlib/normalize.py): `if (bad weight) throw;` followed by `if (0 == weight) return;`
    st = stmts_of(fn["body"])
    first = st[0] if st else {}
    second = st[1] if len(st) > 1 else {}
    c = txt(first.get("c")).replace(" ", "") if first.get("k") == "If" else ""
    ok1 = first.get("k") == "If" and always_throws(first.get("t")) and C("(weight<0)") in c.replace("0.0", "0") and "isnan(weight)" in c and "isinf(weight)" in c and "&&" not in c
    ok2 = second.get("k") == "If" and txt(second.get("c")).replace(" ", "").replace("0.0", "0") == C("(weight==0)") and stmts_of(second.get("t")) and stmts_of(second["t"])[0].get("k") == "Return"
    out.append(ob(rule, key + ":weight-validated-first", fn["pat"], "discharged" if ok1 and ok2 else "violated",
                  "negative / NaN / infinite weights throw and zero weights return before any state changes" if ok1 and ok2 else "the update does not start with `if (weight < 0 || isnan(weight) || isinf(weight)) throw; if (weight == 0) return` (found `%s` / `%s`): an invalid weight reaches the totals / the sample" % (c, txt(second.get("c")) if second.get("k") == "If" else second.get("k")), fn["qname"]))


def varopt(facts):
    fs = functions_by(facts, ["sampling"])
    R = "datasketches::var_opt_sketch"
    out = []
    fn = _fn(fs, R, "update", lambda f: len(f["params"]) == 3)
    if fn is None:
        return [ob("varopt.update", "var_opt_sketch::update:anchor", "", "unrecognised", "update(item, weight, mark) not found", "")]
    _weight_guard(fn, out, "varopt.update", "var_opt_sketch::update")
    st = stmts_of(fn["body"])
    t = [_t(s) for s in st]
    incs = [x for x in t if x in ("++n_", "n_++", "(n_+=1)")]
    allinc = []
    walk(fn["body"], lambda n: allinc.append(n) if (n.get("k") == "Un" and n.get("op") == "++" and is_this_field(n["e"], ("n_",))) or (n.get("k") == "Assign" and is_this_field(n["l"], ("n_",))) else None)
    out.append(ob("varopt.update", "var_opt_sketch::update:counts-once", fn["pat"], "discharged" if len(incs) == 1 and len(allinc) == 1 else "violated", "n_ is incremented exactly once, unconditionally, for every accepted item" if len(incs) == 1 and len(allinc) == 1 else "n_ is modified %d time(s), %d at top level: n must equal the number of accepted items" % (len(allinc), len(incs)), fn["qname"]))
    # dispatch: as a truth function of  W := r_ == 0,  H0 := h_ == 0,  P := weight <= peek_min(),  B := weight < hypothetical tau,
    # R1 := r_ == 1, each phase routine must be called exactly under its condition - whatever the nesting, the names of the
    # intermediate booleans, or the order of the branches
    from astu import single_assignment_locals, tt_eval, reach_tagged, eq_const
    inl = single_assignment_locals(fn)
    wd = fn["params"][1]["d"] if len(fn.get("params", [])) > 1 else None
    TAU = C("((weight+total_wt_r_)/((r_+1)-1))")

    def mk_atom(v):
        def atom(n):
            if n.get("k") != "Bin":
                return None
            ec = eq_const(n)
            if ec and is_this_field(ec[0], ("r_",)) and ec[1] in (0, 1):
                val = v["W"] if ec[1] == 0 else v["R1"]
                return val if ec[2] == "==" else (not val)
            if ec and is_this_field(ec[0], ("h_",)) and ec[1] == 0:
                return v["H0"] if ec[2] == "==" else (not v["H0"])
            gp = gt_pair(n)
            if gp and strip_all(gp[1]).get("k") == "Ref" and strip_all(gp[1]).get("d") == wd:
                big = C(txt(gp[0], inl))
                if not gp[2] and big == "peek_min()":
                    return v["P"]
                if gp[2] and big == TAU:
                    return v["B"]
            return None
        return atom
    sites = {}
    walk(fn["body"], lambda n: sites.setdefault(n["cname"], []).append(n) if n.get("k") == "Call" and n.get("cname") in ("update_warmup_phase", "update_light", "update_heavy_r_eq1", "update_heavy_general") and (n.get("obj") is None or strip(n["obj"]).get("k") == "This") else None)
    expect = {
        "update_warmup_phase": lambda v: v["W"],
        "update_light": lambda v: (not v["W"]) and (v["H0"] or v["P"]) and v["B"],
        "update_heavy_r_eq1": lambda v: (not v["W"]) and not ((v["H0"] or v["P"]) and v["B"]) and v["R1"],
        "update_heavy_general": lambda v: (not v["W"]) and not ((v["H0"] or v["P"]) and v["B"]) and not v["R1"],
    }
    probs = []
    for name, f in expect.items():
        if len(sites.get(name, [])) != 1:
            probs.append("%s is called %d times" % (name, len(sites.get(name, []))))
            continue
        lits = [l for l, o in reach_tagged(fn["body"], sites[name][0]) if o not in ("after-throw",)]
        # the accepted-weight guard (weight == 0 -> return) is not part of the dispatch
        lits = [l for l in lits if not (strip(l).get("k") == "Bin" and strip(l).get("op") in ("==", "!=") and wd in (strip_all(strip(l)["l"]).get("d"), strip_all(strip(l)["r"]).get("d")))]
        import itertools
        for W, H0, P, B, R1 in itertools.product((True, False), repeat=5):
            if W and R1:
                continue
            v = {"W": W, "H0": H0, "P": P, "B": B, "R1": R1}
            vals = [tt_eval(l, mk_atom(v), inl) for l in lits]
            got = False if any(x is False for x in vals) else (True if all(x is True for x in vals) else None)
            if got is None or got != bool(f(v)):
                probs.append("%s is reached under `%s`" % (name, " && ".join(txt(l, inl) for l in lits)))
                break
    ok = not probs
    why = "; ".join(probs)[:400] + "; expected warm-up iff r_ == 0, light iff (h_ == 0 || weight <= peek_min()) && weight < (weight + total_wt_r_) / r_, else r_ == 1 ? heavy_r_eq1 : heavy_general"
    out.append(ob("varopt.update", "var_opt_sketch::update:dispatch", fn["pat"], "discharged" if ok else "violated", "warm-up while r_ == 0; light iff the item is not heavier than the lightest H item and lighter than the hypothetical tau; otherwise heavy (r_ == 1 special-cased)" if ok else why, fn["qname"]))
    # sample count
    fn2 = _fn(fs, R, "get_num_samples")
    if fn2 is not None:
        t2 = [_t(s) for s in stmts_of(fn2["body"])]
        ok = t2 in (["num_in_sketch=(h_+r_)", "return " + C("min(num_in_sketch,k_)")], ["return " + C("min((h_+r_),k_)")])
        out.append(ob("varopt.query", "var_opt_sketch::get_num_samples:formula", fn2["pat"], "discharged" if ok else "violated", "number of samples = min(h_ + r_, k_)" if ok else "get_num_samples is %s" % t2, fn2["qname"]))
    # iterator weights
    for cls, extra in (("datasketches::var_opt_sketch::const_iterator", False), ("datasketches::var_opt_sketch::iterator", True)):
        leaf = cls.split("::")[-1]
        it = [f for f in fs.values() if (f.get("rect") or "").startswith("datasketches::var_opt_sketch<") and (f.get("rect") or "").endswith("::" + leaf) and f["name"] == "operator*" and f.get("body") is not None]
        if not it:
            out.append(ob("varopt.query", "%s::operator*:anchor" % short(cls), "", "unrecognised", "operator* not found", ""))
            continue
        f = it[0]
        # the weight handed out with the item: the second component of the returned pair, with the locals it is computed from
        # replaced by their values (an if / else-if chain assigning a local and a nested ?: give the same expression)
        from triggers import plainly_assigned_locals
        pa = {d: v[0] for d, v in plainly_assigned_locals(f).items() if len(v) == 1}
        rets = []
        walk(f["body"], lambda n: rets.append(n) if n.get("k") == "Return" and n.get("e") is not None else None)
        got = "?"
        if len(rets) == 1:
            r = strip_all(rets[0]["e"])
            while r.get("k") in ("Construct", "Call") and len(r.get("args", [])) == 1:
                r = strip_all(r["args"][0])
            if r.get("k") in ("Construct", "Call") and len(r.get("args", [])) == 2:
                got = C(txt(r["args"][1], pa))
        ok = False
        if True:
            if extra:
                ok = got == C("((idx_<sk_.h_)?sk_.weights_[idx_]:((idx_==(final_idx_-1))?(sk_.total_wt_r_-cum_r_weight_):r_item_wt_))")
            else:
                ok = got == C("((idx_<sk_.h_)?sk_.weights_[idx_]:r_item_wt_)")
        out.append(ob("varopt.query", "%s::operator*:weights" % short(cls), f["pat"], "discharged" if ok else "violated", "H items report their stored weight, R items the reservoir weight%s" % (" (the last R item takes the remainder so that the weights sum to total_wt_r_)" if extra else "") if ok else "iterator weight selection changed: the weight returned with the item is `%s`" % got, f["qname"]))
    # union accounting
    U = "datasketches::var_opt_union"
    for f in [g for g in fs.values() if g.get("rect") == U and g["name"] == "merge_items" and g.get("body") is not None]:
        st = stmts_of(f["body"])
        t = [_t(s) for s in st]
        form = "rvalue" if "&&" in f["params"][0]["t"] else "lvalue"
        adds = [x for x in t if x.startswith("(n_+=")]
        ok = t[:1] == ["if" + C("(sketch.n_==0)")] and adds == ["(n_+=sketch.n_)"]
        out.append(ob("varopt.union", "var_opt_union::merge_items(%s):n-accounting" % form, f["pat"], "discharged" if ok else "violated", "an empty input is a no-op; otherwise n_ += sketch.n_ exactly once" if ok else "union accounting of n is %s / first statement %s" % (adds, t[:1]), f["qname"]))
    # union: the running outer tau accumulates a reservoir only when its tau EQUALS the current outer tau
    rt = [g for g in fs.values() if g.get("rect") == U and g["name"] == "resolve_tau" and g.get("body") is not None]
    for f in rt:
        acc_ = []
        walkp(f["body"], lambda x, ps: acc_.append((x, [p for p in ps if p.get("k") == "If"])) if x.get("k") == "Assign" and x.get("op") == "+=" and is_this_field(x["l"], ("outer_tau_numer_", "outer_tau_denom_")) else None)
        ok = bool(acc_)
        why = "no accumulation of outer_tau_numer_ / outer_tau_denom_ found"
        for x, ifs in acc_:
            inner = ifs[-1] if ifs else None
            # the accumulation must sit in the THEN branch of an `==` test between the two taus
            good = False
            if inner is not None:
                c = strip_all(inner["c"])
                inthen = [False]
                walk(inner.get("t"), lambda y: inthen.__setitem__(0, True) if y is x else None)
                good = inthen[0] and c.get("k") == "Bin" and c.get("op") == "==" and "tau" in txt(c)
            if not good:
                ok = False
                why = "`%s` is not guarded by an equality test of the sketch's tau and the outer tau (guard: %s): a reservoir with a SMALLER tau is pooled into the outer tau, get_result() then takes the pseudo-exact shortcut and items sampled at different thresholds share one averaged weight (subset sums biased)" % (txt(x), txt(inner["c"]) if inner is not None else "else-branch / none")
        out.append(ob("varopt.union", "var_opt_union::resolve_tau:accumulate-only-on-equal-tau", f["pat"], "discharged" if ok else "violated", "outer tau is replaced by a larger tau, accumulated on an equal tau, untouched by a smaller one" if ok else why, f["qname"]))
    return out


def _blocks(n, acc):
    if isinstance(n, dict):
        if n.get("k") == "Block":
            acc.append(n)
        for v in n.values():
            _blocks(v, acc)
    elif isinstance(n, list):
        for v in n:
            _blocks(v, acc)
    return acc


def _walk_list(n):
    acc = []
    walk(n, lambda x: acc.append(x))
    return acc


def _callnames(n):
    out = []
    walk(n, lambda x: out.append(x.get("cname")) if x.get("k") == "Call" and x.get("cname") else None)
    return out


def ebpps(facts):
    fs = functions_by(facts, ["sampling"])
    R = "datasketches::ebpps_sketch"
    out = []
    fn = _fn(fs, R, "internal_update")
    if fn is None:
        return [ob("ebpps.update", "ebpps_sketch::internal_update:anchor", "", "unrecognised", "internal_update not found", "")]
    _weight_guard(fn, out, "ebpps.update", "ebpps_sketch::internal_update")
    t = [_t(s) for s in stmts_of(fn["body"])]
    from astu import single_assignment_locals
    inl = single_assignment_locals(fn)   # whether or not the intermediate values are declared const
    stored = {}
    for st_ in stmts_of(fn["body"]):
        if st_.get("k") == "Expr":
            e = strip(st_["e"])
            if e.get("k") == "Assign" and e.get("op") == "=" and is_this_field(e["l"]):
                stored[strip(e["l"])["f"]] = C(txt(e["r"], inl).replace(" ", "").replace("1.0", "1"))
    want = {"cumulative_wt_": C("(cumulative_wt_+weight)"), "wt_max_": C("max(wt_max_,weight)"), "rho_": C("min((1/max(wt_max_,weight)),(k_/(cumulative_wt_+weight)))")}
    bad = {k: stored.get(k) for k, v in want.items() if stored.get(k) != v}
    out.append(ob("ebpps.update", "ebpps_sketch::internal_update:closed-forms", fn["pat"], "discharged" if not bad else "violated", "stored unconditionally: cumulative_wt_ + weight, max(wt_max_, weight), rho = min(1 / new wt_max, k_ / new cumulative weight)" if not bad else "the values stored at the end of the update are %s, expected %s" % (bad, {k: want[k] for k in bad}), fn["qname"]))
    ok = "++n_" in t or "n_++" in t
    out.append(ob("ebpps.update", "ebpps_sketch::internal_update:state-stored", fn["pat"], "discharged" if ok else "violated", "n_ is incremented unconditionally for every accepted item" if ok else "n_ is not incremented unconditionally at top level", fn["qname"]))
    repl = [C(txt(strip_all(s_["e"])["args"][1], inl).replace(" ", "").replace("1.0", "1")) for s_ in stmts_of(fn["body"]) if s_.get("k") == "Expr" and strip_all(s_["e"]).get("k") == "Call" and strip_all(s_["e"]).get("cname") == "replace_content" and len(strip_all(s_["e"]).get("args", [])) == 2]
    ok = "sample_.merge(tmp_)" in t and repl == [C("(min((1/max(wt_max_,weight)),(k_/(cumulative_wt_+weight)))*weight)")] and any(x.replace("0.0", "0") == "if" + C("(cumulative_wt_>0)") for x in t)
    out.append(ob("ebpps.update", "ebpps_sketch::internal_update:sample-step", fn["pat"], "discharged" if ok else "violated", "existing sample is down-sampled (when non-empty), the new item enters with probability mass new_rho * weight" if ok else "sample step changed: %s / %s" % (repl, t), fn["qname"]))
    fn = _fn(fs, R, "internal_merge")
    if fn is not None:
        inl = single_assignment_locals(fn)
        last = {}
        for st_ in stmts_of(fn["body"]):
            if st_.get("k") == "Expr":
                e = strip(st_["e"])
                if e.get("k") == "Assign" and e.get("op") == "=" and is_this_field(e["l"]):
                    last[strip(e["l"])["f"]] = C(txt(e["r"], inl).replace(" ", ""))
        need = {"cumulative_wt_": C("(cumulative_wt_+sk.cumulative_wt_)"), "wt_max_": C("max(wt_max_,sk.wt_max_)"), "n_": C("(n_+sk.n_)"), "k_": C("min(k_,sk.k_)")}
        missing = ["%s (stored: %s)" % (k, last.get(k)) for k, v in need.items() if last.get(k) != v]
        out.append(ob("ebpps.merge", "ebpps_sketch::internal_merge:accounting", fn["pat"], "discharged" if not missing else "violated", "merge stores n_ + other.n_, the summed cumulative weight, the larger maximum weight and the smaller k" if not missing else "merge does not finally store the expected value of %s: c = min(k, cumulative weight / maximum weight) no longer holds after the merge" % ", ".join(missing), fn["qname"]))
    for f in [g for g in fs.values() if g.get("rect") == R and g["name"] == "merge" and g.get("body") is not None]:
        form = "rvalue" if "&&" in f["params"][0]["t"] else "lvalue"
        # whatever the nesting: nothing happens for an input without weight, and the swap (this <-> heavier input) happens exactly
        # when the input is heavier - read off the conditions known to hold at the swap and at the merge calls
        from astu import reach_tagged
        swaps, merges = [], []
        walk(f["body"], lambda x: swaps.append(x) if x.get("k") == "Call" and x.get("cname") == "swap" else None)
        walk(f["body"], lambda x: merges.append(x) if x.get("k") == "Call" and x.get("cname") == "internal_merge" else None)
        zero = C("(sk.get_cumulative_weight()!=0)")
        heavier = C("(sk.get_cumulative_weight()>get_cumulative_weight())")

        def lits(n):
            return sorted(set(C(txt(l).replace("0.0", "0")) for l, o in reach_tagged(f["body"], n)))
        c2 = " && ".join(lits(swaps[0])) if swaps else ""
        ml = [lits(m) for m in merges]
        notheavier = ("!" + heavier, C("(sk.get_cumulative_weight()<=get_cumulative_weight())"))
        two = len(ml) == 2 and sorted(len(x) for x in ml) == [2, 2] and any(heavier in x for x in ml) and any(any(nh in x for nh in notheavier) for x in ml)
        one = len(ml) == 1 and ml[0] == [zero]       # swap if heavier, then one unconditional replay
        ok = len(swaps) == 1 and lits(swaps[0]) == sorted([zero, heavier]) and all(zero in x for x in ml) and (two or one)
        out.append(ob("ebpps.merge", "ebpps_sketch::merge(%s):orientation" % form, f["pat"], "discharged" if ok else "violated", "an input without weight is a no-op; the lighter sketch is always replayed into the heavier one (swap when the input is heavier)" if ok else "merge orientation changed (`%s`): replaying the heavier sketch into the lighter one gives items a contribution to c above 1" % c2, f["qname"]))
    # every down-sampling step by new_rho / rho_ is followed, in the same block, by rho_ = new_rho (the ratio of the NEXT step
    # is taken against the rho that was actually applied)
    for f in [g for g in fs.values() if g.get("rect") == R and g["name"] in ("internal_update", "internal_merge") and g.get("body") is not None]:
        blocks = []
        _blocks(f["body"], blocks)
        j = 0
        for b in blocks:
            st = stmts_of(b)
            for i, s_ in enumerate(st):
                ds = []
                walk(s_, lambda x: ds.append(x) if x.get("k") == "Call" and x.get("cname") == "downsample" and "rho_" in txt(x) else None)
                if not ds or s_.get("k") not in ("If", "Expr"):
                    continue
                inner = []
                _blocks(s_, inner)
                if any(any(y is ds[0] for y in _walk_list(bb)) for bb in inner):
                    continue  # the call belongs to a nested block, which is visited on its own
                inl = {d: v["init"] for d, v in local_decls(f).items() if v.get("init") is not None and v.get("const")}
                num = strip_all(ds[0]["args"][0])
                new_rho = txt(num["l"]).replace(" ", "") if num.get("k") == "Bin" and num.get("op") == "/" else "?"
                later = [_t(x) for x in st[i + 1:]]
                ok = ("(rho_=%s)" % new_rho) in later
                out.append(ob("ebpps.rho", "ebpps_sketch::%s:rho-follows-downsample#%d" % (f["name"], j), ds[0]["loc"], "discharged" if ok else "violated", "the sample is down-sampled by %s / rho_ and rho_ is then set to %s" % (new_rho, new_rho) if ok else "the sample is down-sampled by %s / rho_ but rho_ is not set to %s afterwards in this block: the next step divides by a rho that was never applied, and c drifts below min(k, W / w_max)" % (new_rho, new_rho), f["qname"]))
                j += 1
    S = "datasketches::ebpps_sample"
    fn = _fn(fs, S, "move_one_to_partial")
    RI = random_index_names(fs)
    if fn is not None:
        calls = []
        walk(fn["body"], lambda x: calls.append(x) if x.get("k") == "Call" and x.get("cname") in RI else None)
        decls = local_decls(fn)
        rnd = [v for v in decls.values() if v.get("init") is not None and any((r + "(") in txt(v["init"]) for r in RI)]
        used = False
        if rnd:
            refs = []
            walk(fn["body"], lambda x: refs.append(x) if x.get("k") == "Ref" and x.get("d") == rnd[0]["d"] else None)
            idxuse = []
            walk(fn["body"], lambda x: idxuse.append(x) if x.get("k") in ("Index", "OpCall") and any(y.get("k") == "Ref" and y.get("d") == rnd[0]["d"] for y in _walk_list(x)) and "data_" in txt(x) else None)
            used = bool(idxuse)
        ok = bool(calls) and used and any("data_.size()" in txt(c) for c in calls)
        out.append(ob("ebpps.sample", "ebpps_sample::move_one_to_partial:random-choice", fn["pat"], "discharged" if ok else "violated", "the item demoted to the partial slot is data_[random_idx(data_.size())]" if ok else "the item demoted to the partial slot is not chosen by random_idx(data_.size()): when data_ was not shuffled just before (two call paths), the same positions are always evicted and inclusion stops being proportional to weight", fn["qname"]))
    fn = _fn(fs, S, "get_sample")
    if fn is not None:
        t = [_t(s) for s in stmts_of(fn["body"])]
        ok = any("result_size=(data_.size()+(include_partial?1:0))" in x.replace("static_cast<uint32_t>", "") or "result_size=" in x and "include_partial?1:0" in x for x in t) and any(x.startswith("copy(data_.begin(),data_.end(),back_inserter(result))") for x in t) and "if include_partial" in [x.replace("if", "if ") for x in t] + t or any(x == "ifinclude_partial" for x in t)
        ok = ok and any(("include_partial=" + C("(next_double()<c_frac)")) in x for x in t)
        out.append(ob("ebpps.sample", "ebpps_sample::get_sample:assembly", fn["pat"], "discharged" if ok else "violated", "the sample is every full item plus the partial item with probability frac(c): floor(c) or ceil(c) items, all from the input" if ok else "sample assembly changed: %s" % t, fn["qname"]))
    return out


_RIDX = {}


def random_index_names(fns):
    """names of the helpers that draw a uniform index below their single argument (random_idx, next_int in the reviewed tree),
    recognised by what they do: one integral parameter, the shared engine random_utils::rand, a uniform_int_distribution"""
    k = id(fns)
    if k not in _RIDX:
        names = set()
        for f in fns.values():
            if f.get("body") is None or len(f.get("params") or []) != 1:
                continue
            eng, dist = [False], [False]

            def v(n):
                if n.get("k") in ("Ref", "Member") and (n.get("q") or "").endswith("random_utils::rand"):
                    eng[0] = True
                if "uniform_int_distribution" in (n.get("t") or "") or "uniform_int_distribution" in (n.get("crec") or "") or "uniform_int_distribution" in (n.get("callee") or ""):
                    dist[0] = True
            walk(f["body"], v)
            if eng[0] and dist[0]:
                names.add(f["name"])
        _RIDX[k] = tuple(sorted(names | {"random_idx", "next_int"}))
    return _RIDX[k]


def partial_shuffle(facts):
    """a partial Fisher-Yates pass (position i swapped with a uniformly chosen one of the `len - i` positions not yet fixed) adds
    the random offset to the CURRENT position: `i + random(len - i)`, or `it + random(len - i)` with `it` stepped together with i.
    An offset taken from the start of the array picks the partner among the first `len - i` slots, most of them already fixed: the
    surviving subset is no longer uniform."""
    from astu import induction_locals
    fns = functions_by(facts, ["sampling"])
    out = []
    n_sites = 0
    for pat, fn in sorted(fns.items()):
        if fn.get("body") is None:
            continue
        ind = induction_locals(fn)
        from astu import single_assignment_locals
        sal = single_assignment_locals(fn)
        idx = [0]

        def v(n, ps):
            if not (n.get("k") == "Call" and (n.get("cname") or "") in random_index_names(fns) and len(n.get("args", [])) == 1):
                return
            a = strip_all(n["args"][0])
            hops = 0
            while a.get("k") == "Ref" and a.get("d") in sal and hops < 4:      # `remaining = len - i; random(remaining)`
                a = strip_all(sal[a["d"]])
                hops += 1
            if not (a.get("k") == "Bin" and a.get("op") == "-" and strip_all(a["r"]).get("k") == "Ref" and strip_all(a["r"]).get("d") in ind):
                return
            i_d = strip_all(a["r"])["d"]
            loops = [p for p in ps if p.get("k") in ("For", "While", "Do")]
            if not loops:
                return
            L = loops[-1]
            # cursors stepped in the loop header / body together with i
            stepped = set()
            walk([L.get("inc") or {}, L.get("b") or {}], lambda x: stepped.add(strip_all(x.get("e") or (x.get("args") or [{}])[0]).get("d")) if x.get("k") in ("Un", "OpCall") and x.get("op") == "++" else None)
            key = "%s:partial-shuffle#%d" % (short(fn["patq"]), idx[0])
            idx[0] += 1
            ok = False
            child = n
            for p in reversed(ps):
                if p.get("k") in ("Cast", "Paren", "Construct"):
                    child = p
                    continue
                if (p.get("k") == "Bin" and p.get("op") == "+") or (p.get("k") == "OpCall" and p.get("op") == "+"):
                    others = [x for x in ((p.get("l"), p.get("r")) if p.get("k") == "Bin" else tuple(p.get("args", []))) if x is not child]
                    for o in others:
                        refs = []
                        walk(o, lambda x: refs.append(x.get("d")) if x.get("k") == "Ref" else None)
                        calls = []
                        walk(o, lambda x: calls.append(x) if x.get("k") == "Call" else None)
                        if (i_d in refs or any(r in stepped for r in refs)) and not calls:
                            ok = True
                break
            if ok:
                out.append(ob("sampling.shuffle", key, n.get("loc", fn["pat"]), "discharged", "the partner of position i is i + random(len - i)", fn["qname"]))
            else:
                out.append(ob("sampling.shuffle", key, n.get("loc", fn["pat"]), "violated", "random(%s) is not added to the current position: the swap partner is drawn from the first `len - i` slots instead of the positions not yet fixed, so the selected subset is not uniform (inclusion frequencies are biased)" % txt(a), fn["qname"]))
        walkp(fn["body"], v)
    return out


def _random_decisions(fn):
    """[(canonical condition, effects of the then-arm, effects of the else-arm)] for every if whose condition draws a random number;
    an effect is the text of a statement-level call / assignment of the arm, locals read through their initialisers"""
    from astu import canon_inl, inline_local_lambdas
    sal = canon_inl(fn)       # single-assignment locals read as their initialiser, all other locals by a name-independent identity
    fn = dict(fn, body=inline_local_lambdas(fn))      # `pick(a, b)` of a local one-expression lambda reads as its expression
    out = []
    opaque = [False]

    def eff(arm):
        res = []
        for st in stmts_of(arm) if arm is not None else []:
            if st.get("k") == "Expr":
                res.append(C(txt(st["e"], sal).replace(" ", "")))
            elif st.get("k") == "If":
                res.append("if(%s){%s}else{%s}" % (C(txt(st["c"], sal).replace(" ", "")), ";".join(eff(st.get("t"))), ";".join(eff(st.get("e")))))
            elif st.get("k") == "Return" and st.get("e") is not None:
                res.append("return " + C(txt(st["e"], sal).replace(" ", "")))
            else:
                res.append(st.get("k"))
        return res

    def v(n):
        if n.get("k") == "If":
            draws = []
            walk(n["c"], lambda x: draws.append(x) if x.get("k") == "Call" and (x.get("cname") or "").startswith(("next_double", "random_")) else None)
            lam = []
            walk(n["c"], lambda x: lam.append(x) if x.get("k") == "OpCall" and x.get("op") == "()" else None)
            if lam:
                opaque[0] = True
            if draws:
                out.append([C(txt(n["c"], sal).replace(" ", "")), eff(n.get("t")), eff(n.get("e"))])
    walk(fn["body"], v)
    return out, opaque[0]


def ebpps_merge_decisions(facts):
    """ebpps_sample::merge decides by three random draws which partial item becomes a full item / stays partial, each with a
    probability that is a closed form of the two fractional parts.  The decisions (condition, what either arm does) equal the
    reviewed ones (spec/ebpps_merge.json), compared after canonicalisation with locals read through their initialisers; a draw
    hidden in a local lambda cannot be related and is reported for review."""
    import json, os
    from vlib.core import VERIF
    fns = functions_by(facts, ["sampling"])
    sp = json.load(open(os.path.join(VERIF, "spec", "ebpps_merge.json")))["decisions"]
    out = []
    for pat, fn in sorted(fns.items()):
        if fn["name"] != "merge" or "ebpps_sample" not in (fn.get("rect") or "") or fn.get("body") is None:
            continue
        key = "ebpps_sample::merge:random-decisions"
        got, opaque = _random_decisions(fn)
        want = [list(x) for x in sp]
        if sorted(map(json.dumps, got)) == sorted(map(json.dumps, want)):
            out.append(ob("ebpps.merge", key, fn["pat"], "discharged", "%d random decisions with the reviewed probabilities and effects" % len(got), fn["qname"]))
        elif opaque or len(got) != len(want):
            out.append(ob("ebpps.merge", key, fn["pat"], "unrecognised", "the random decisions of merge() are written in a form that cannot be related to the reviewed ones (%d found, %d reviewed%s): re-review spec/ebpps_merge.json" % (len(got), len(want), "; a draw sits inside a local lambda" if opaque else ""), fn["qname"]))
        else:
            diff = [g for g in got if g not in want]
            out.append(ob("ebpps.merge", key, fn["pat"], "violated", "a random decision of merge() differs from the reviewed one: `%s` -> %s / %s: the probabilities with which the two partial items are promoted / kept are exchanged or changed, so inclusion is no longer proportional to weight" % (diff[0][0][:140], diff[0][1], diff[0][2]), fn["qname"]))
        break
    return out


VAROPT_DECISION_FNS = ("choose_delete_slot", "choose_weighted_delete_slot", "pick_random_slot_in_r", "update_heavy_r_eq1", "downsample_candidate_set")


def varopt_decisions(facts):
    """VarOpt's unbiasedness rests on a handful of random decisions whose probabilities are closed forms of the candidate weights
    (keep the single M candidate with probability (num_cands - 1) * w_M / wt_cands, ..).  Every `if` of the var_opt_sketch member
    functions whose condition draws a random number is compared - condition and what either arm does, canonicalised, parameters by
    position, locals read through their initialisers - with the reviewed table spec/varopt_decisions.json."""
    import json, os
    from vlib.core import VERIF
    from astu import canon_inl
    fns = functions_by(facts, ["sampling"])
    sp = json.load(open(os.path.join(VERIF, "spec", "varopt_decisions.json")))["decisions"]
    out = []
    got_all = varopt_decision_inventory(fns)
    for name, want in sorted(sp.items()):
        key = "var_opt_sketch::%s:random-decisions" % name
        if name not in got_all:
            out.append(ob("varopt.decisions", key, "", "unrecognised", "no random decision found in var_opt_sketch::%s (reviewed: %d): re-review spec/varopt_decisions.json" % (name, len(want)), ""))
            continue
        got, fn, opaque = got_all[name]
        if sorted(map(json.dumps, got)) == sorted(map(json.dumps, [list(x) for x in want])):
            out.append(ob("varopt.decisions", key, fn["pat"], "discharged", "%d random decision(s) with the reviewed probability and effects" % len(got), fn["qname"]))
        elif opaque or len(got) != len(want):
            out.append(ob("varopt.decisions", key, fn["pat"], "unrecognised", "the random decisions of %s cannot be related to the reviewed ones (%d found, %d reviewed): re-review spec/varopt_decisions.json" % (name, len(got), len(want)), fn["qname"]))
        else:
            diff = [g for g in got if g not in [list(x) for x in want]]
            out.append(ob("varopt.decisions", key, fn["pat"], "violated", "a random decision of %s differs from the reviewed one: `%s` -> %s / %s: the probability with which a candidate is kept or evicted changed, so inclusion is no longer proportional to weight (the subset-sum estimates become biased)" % (name, diff[0][0][:160], diff[0][1], diff[0][2]), fn["qname"]))
    return out


def varopt_decision_inventory(fns):
    res = {}
    for pat, fn in sorted(fns.items()):
        if fn.get("rect") != "datasketches::var_opt_sketch" or fn.get("body") is None:
            continue
        # parameters by position
        f2 = fn
        got, opaque = _random_decisions(f2)
        if got and fn["name"] not in res:
            penv = {p["n"]: "p%d" % i for i, p in enumerate(fn.get("params") or []) if p.get("n")}
            import re as _re

            def ren(t):
                for n_, r_ in penv.items():
                    t = _re.sub(r"(?<![A-Za-z0-9_.])%s(?![A-Za-z0-9_])" % _re.escape(n_), r_, t)
                return t
            got = [[ren(g[0]), [ren(x) for x in g[1]], [ren(x) for x in g[2]]] for g in got]
            res[fn["name"]] = (got, fn, opaque)
    return res
