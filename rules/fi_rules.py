"""C12 frequent items: purge-amount conservation chain, bound algebra, filter pairing, merge bookkeeping, probe displacement."""
import astu
from astu import C, ctxt, gt_pair, eq_const, reach, reach_txt, ctext, strip, strip_all, walk, walkp, txt, short, is_this_field, field_name, stmts_of, always_throws, functions_by, local_decls
from vlib.core import ob

SK = "datasketches::frequent_items_sketch"
MAP = "datasketches::reverse_purge_hash_map"


def fns_of(facts):
    return functions_by(facts, ["fi"])


def returns_of(fn):
    r = []
    walk(fn["body"], lambda n: r.append(n) if n.get("k") == "Return" and n.get("e") is not None else None)
    return r


def purge_chain(facts):
    fns = fns_of(facts)
    out = []
    by = {}
    for pat, fn in fns.items():
        by.setdefault((fn.get("rect"), fn["name"]), []).append(fn)
    # 1. every call to map.adjust_or_insert in the sketch adds its result to offset
    idx = 0
    for pat, fn in sorted(fns.items()):
        if fn.get("rect") != SK:
            continue

        def v(n, ps):
            nonlocal idx
            if n.get("k") == "Call" and n.get("cname") == "adjust_or_insert" and (n.get("crec") or "") == MAP:
                key = "frequent_items_sketch::%s:purge-amount#%d" % (fn["name"], idx)
                idx += 1
                par = None
                for p in reversed(ps):
                    if p.get("k") in ("Assign", "Decl", "Expr", "Return"):
                        par = p
                        break
                if par and par.get("k") == "Assign" and par.get("op") == "+=" and is_this_field(par["l"], ("offset",)):
                    out.append(ob("fi.chain", key, n["loc"], "discharged", "offset += map.adjust_or_insert(...)", fn["qname"]))
                else:
                    out.append(ob("fi.chain", key, n["loc"], "violated", "the amount returned by map.adjust_or_insert (what a purge subtracted from every counter) is not added to offset: upper bounds fall below true weights after a purge", fn["qname"]))
        walkp(fn["body"], v)
    # 2. the chain inside the map: adjust_or_insert -> resize_or_purge_if_needed -> purge -> subtract_and_keep_positive_only(amount)
    def single(name):
        l = by.get((MAP, name), [])
        return l[0] if l else None
    aoi, rop, purge = single("adjust_or_insert"), single("resize_or_purge_if_needed"), single("purge")
    if not (aoi and rop and purge):
        out.append(ob("fi.chain", "reverse_purge_hash_map:chain", "fi/include/reverse_purge_hash_map_impl.hpp", "unrecognised", "adjust_or_insert / resize_or_purge_if_needed / purge not all found", ""))
        return out
    # purge returns the amount it subtracted
    sub = []
    walk(purge["body"], lambda n: sub.append(n) if n.get("k") == "Call" and n.get("cname") == "subtract_and_keep_positive_only" else None)
    rets = returns_of(purge)
    key = "reverse_purge_hash_map::purge:returns-subtracted-amount"
    if sub and rets and all(txt(r["e"]) == txt(sub[0]["args"][0]) for r in rets):
        out.append(ob("fi.chain", key, purge["pat"], "discharged", "purge() returns `%s`, the amount passed to subtract_and_keep_positive_only" % txt(sub[0]["args"][0]), purge["qname"]))
    else:
        out.append(ob("fi.chain", key, purge["pat"], "violated", "purge() subtracts `%s` from every counter but returns `%s`" % (txt(sub[0]["args"][0]) if sub else "?", [txt(r["e"]) for r in rets]), purge["qname"]))
    # resize_or_purge_if_needed returns purge()'s value on the purge path
    inl = {d: v["init"] for d, v in local_decls(rop).items() if v.get("init") is not None}
    rets = returns_of(rop)
    key = "reverse_purge_hash_map::resize_or_purge_if_needed:forwards-purge-amount"
    fw = [r for r in rets if "purge()" in txt(r["e"], inl)]
    purge_calls = []
    walk(rop["body"], lambda n: purge_calls.append(n) if n.get("k") == "Call" and n.get("cname") == "purge" else None)
    if purge_calls and fw:
        out.append(ob("fi.chain", key, rop["pat"], "discharged", "returns the value of purge() on the purge path", rop["qname"]))
    else:
        out.append(ob("fi.chain", key, rop["pat"], "violated", "the value returned by purge() is dropped (returns: %s)" % [txt(r["e"], inl) for r in rets], rop["qname"]))
    # adjust_or_insert returns resize_or_purge_if_needed() on the insert path
    rets = returns_of(aoi)
    key = "reverse_purge_hash_map::adjust_or_insert:forwards-purge-amount"
    if any("resize_or_purge_if_needed()" in txt(r["e"]) for r in rets):
        out.append(ob("fi.chain", key, aoi["pat"], "discharged", "returns resize_or_purge_if_needed() when a key was inserted", aoi["qname"]))
    else:
        out.append(ob("fi.chain", key, aoi["pat"], "violated", "does not return the purge amount (returns: %s)" % [txt(r["e"]) for r in rets], aoi["qname"]))
    return out


def bounds(facts):
    fns = fns_of(facts)
    out = []
    want = {
        "get_lower_bound": ["map.get(item)"],
        "get_upper_bound": ["(map.get(item)+offset)", "(offset+map.get(item))"],
        "get_maximum_error": ["offset"],
    }
    for pat, fn in sorted(fns.items()):
        if fn.get("rect") != SK:
            continue
        if fn["name"] in want and len(fn["params"]) <= 1:
            rets = [txt(r["e"]) for r in returns_of(fn)]
            key = "frequent_items_sketch::%s:formula" % fn["name"]
            if len(rets) == 1 and rets[0] in want[fn["name"]]:
                out.append(ob("fi.bounds", key, fn["pat"], "discharged", "returns %s" % rets[0], fn["qname"]))
            else:
                out.append(ob("fi.bounds", key, fn["pat"], "violated", "returns %s, expected %s (upper - lower must equal the maximum error)" % (rets, want[fn["name"]][0]), fn["qname"]))
        if fn["name"] == "get_estimate":
            import semantics
            from astu import single_assignment_locals
            inl = single_assignment_locals(fn)
            cases = semantics.return_cases(fn, inl)
            rets = [v for c, v in cases]
            conds = [c for c, v in cases]
            key = "frequent_items_sketch::get_estimate:formula"
            pos = [C("(map.get(item)>0)"), C("(map.get(item)!=0)")]
            neg = [C("(map.get(item)<=0)"), C("(map.get(item)==0)")]
            ok_cases = len(cases) == 2 and any(c == [p] and v == C("(map.get(item)+offset)") for c, v in cases for p in pos) and any(c == [q] and v == "0" for c, v in cases for q in neg)
            if ok_cases:
                out.append(ob("fi.bounds", key, fn["pat"], "discharged", "weight > 0 ? weight + offset : 0", fn["qname"]))
            else:
                out.append(ob("fi.bounds", key, fn["pat"], "violated", "estimate is %s under %s, expected weight + offset when tracked and 0 otherwise" % (rets, conds), fn["qname"]))
        if fn["name"] == "get_frequent_items" and len(fn["params"]) == 2:
            # the condition under which a row is appended to the result, whatever its spelling (nested if, `continue` guard, a
            # bool local, && / || / ?:): as a truth function of  err_type,  U := count + offset > threshold,  L := count > threshold
            # it must equal  err_type == NO_FALSE_NEGATIVES ? U : L
            from astu import single_assignment_locals, tt_eval, reach_tagged
            inl = single_assignment_locals(fn)
            key = "frequent_items_sketch::get_frequent_items:filter-pairing"
            pushes = []
            walk(fn["body"], lambda n: pushes.append(n) if n.get("k") == "Call" and n.get("cname") in ("push_back", "emplace_back") else None)
            err_d, thr_d = fn["params"][0]["d"], fn["params"][1]["d"]
            ok, got = False, "?"
            if pushes:
                lits = [l for l, o in reach_tagged(fn["body"], pushes[0]) if o != "loop"]
                got = " && ".join(txt(l, inl) for l in lits)

                def mk_atom(err, U, L):
                    def atom(n):
                        ec = eq_const(n) if n.get("k") == "Bin" else None
                        if ec and strip(ec[0]).get("k") == "Ref" and strip(ec[0]).get("d") == err_d:
                            return (ec[1] == err) if ec[2] == "==" else (ec[1] != err)
                        gp = gt_pair(n) if n.get("k") == "Bin" else None
                        if gp and gp[2] and strip(gp[1]).get("k") == "Ref" and strip(gp[1]).get("d") == thr_d:
                            big = txt(gp[0], inl)
                            if ".second" in big and "offset" in big:
                                return U
                            if ".second" in big:
                                return L
                        return None
                    return atom
                ok = bool(lits)
                nfn = [1]   # enum frequent_items_error_type { NO_FALSE_POSITIVES, NO_FALSE_NEGATIVES }
                walk(fn["body"], lambda n: nfn.__setitem__(0, n["v"]) if n.get("k") == "Ref" and n.get("n") == "NO_FALSE_NEGATIVES" and "v" in n else None)
                for err in (0, 1):
                    for U, L in ((True, True), (True, False), (False, False)):
                        vals = [tt_eval(l, mk_atom(err, U, L), inl, 0, fn["body"]) for l in lits]
                        val = False if any(v is False for v in vals) else (True if all(v is True for v in vals) else None)
                        if val is None or val != (U if err == nfn[0] else L):
                            ok = False
            if ok:
                out.append(ob("fi.filter", key, pushes[0]["loc"], "discharged", "NO_FALSE_NEGATIVES <-> upper bound > threshold; NO_FALSE_POSITIVES <-> lower bound > threshold (truth table over err_type, U, L)", fn["qname"]))
            else:
                out.append(ob("fi.filter", key, fn["pat"], "violated", "filter is `%s`: NO_FALSE_NEGATIVES must test the upper bound (count + offset) and NO_FALSE_POSITIVES the lower bound (count)" % got, fn["qname"]))
            # descending sort on estimate
            lam = []
            walk(fn["body"], lambda n: lam.append(n) if n.get("k") == "Lambda" else None)
            key = "frequent_items_sketch::get_frequent_items:descending"
            lt = txt(returns_of({"body": lam[0]["body"]})[0]["e"]) if lam and returns_of({"body": lam[0]["body"]}) else "?"
            if lt.replace(" ", "") == C("(a.get_estimate()>b.get_estimate())"):
                out.append(ob("fi.filter", key, fn["pat"], "discharged", "sorted by estimate, descending", fn["qname"]))
            else:
                out.append(ob("fi.filter", key, fn["pat"], "violated", "result ordering comparator is `%s`, not a.get_estimate() > b.get_estimate()" % lt, fn["qname"]))
    return out


def bookkeeping(facts):
    fns = fns_of(facts)
    out = []
    for pat, fn in sorted(fns.items()):
        if fn.get("rect") != SK:
            continue
        if fn["name"] == "update" and len(fn["params"]) == 2:
            st = stmts_of(fn["body"])
            seq = []
            for s in st:
                t = txt(s.get("e")) if s.get("k") == "Expr" else ("if(%s)return" % txt(s["c"]) if s.get("k") == "If" else s.get("k"))
                seq.append(t)
            key = "frequent_items_sketch::update(%s):order" % ("&&" if fn["params"][0]["t"].endswith("&&") else "const&")
            i_chk = next((i for i, t in enumerate(seq) if t.startswith("check_weight(")), None)
            i_tot = next((i for i, t in enumerate(seq) if t == "(total_weight+=weight)"), None)
            i_map = next((i for i, t in enumerate(seq) if "adjust_or_insert" in t), None)
            if None not in (i_chk, i_tot, i_map) and i_chk < i_tot < i_map:
                out.append(ob("fi.book", key, fn["pat"], "discharged", "check_weight; total_weight += weight; offset += map.adjust_or_insert", fn["qname"]))
            else:
                out.append(ob("fi.book", key, fn["pat"], "violated", "update does not perform check_weight -> total_weight += weight -> map update in this order (%s)" % seq, fn["qname"]))
        if fn["name"] == "merge":
            body = txt(fn["body"]) if False else ""
            st = stmts_of(fn["body"])
            texts = [txt(s.get("e")) if s.get("k") == "Expr" else (";".join("%s=%s" % (v["n"], txt(v.get("init"))) for v in s.get("vars", [])) if s.get("k") == "Decl" else s.get("k")) for s in st]
            key = "frequent_items_sketch::merge(%s):bookkeeping" % ("&&" if fn["params"][0]["t"].endswith("&&") else "const&")
            has_off = any(t.replace(" ", "") == "(offset+=other.offset)" for t in texts)
            sum_decl = next((i for i, t in enumerate(texts) if "total_weight" in t and "other" in t and "=" in t and st[i].get("k") == "Decl"), None)
            loop_at = next((i for i, s in enumerate(st) if s.get("k") == "RangeFor"), None)
            set_tot = next((i for i, t in enumerate(texts) if t.startswith("(total_weight=")), None)
            ok = has_off and None not in (sum_decl, loop_at, set_tot) and sum_decl < loop_at < set_tot
            # alternative (equally correct) form: the replay does not go through update(), and the total is added directly
            if not ok and has_off and loop_at is not None:
                calls_update = [False]
                walk(st[loop_at], lambda n: calls_update.__setitem__(0, True) if n.get("k") == "Call" and n.get("cname") == "update" else None)
                adds_total = any(t.replace(" ", "") in ("(total_weight+=other.total_weight)", "(total_weight+=other.get_total_weight())") for t in texts)
                ok = (not calls_update[0]) and adds_total
            if ok:
                out.append(ob("fi.book", key, fn["pat"], "discharged", "offset += other.offset; total weight = sum computed before the replay, assigned after it", fn["qname"]))
            else:
                out.append(ob("fi.book", key, fn["pat"], "violated", "merge does not (a) add other.offset, (b) compute the merged total before replaying the other sketch's entries and assign it afterwards: %s" % texts, fn["qname"]))
        if fn["name"] == "is_empty":
            t = txt(returns_of(fn)[0]["e"]) if returns_of(fn) else "?"
            key = "frequent_items_sketch::is_empty:considers-total-weight"
            if "total_weight" in t:
                out.append(ob("fi.book", key, fn["pat"], "discharged", "is_empty() = %s" % t, fn["qname"]))
            else:
                out.append(ob("fi.book", key, fn["pat"], "violated", "is_empty() = %s ignores total_weight: a sketch whose tracked items were all purged reports empty, and merge()/serialize() then drop its total weight and error offset" % t, fn["qname"]))
    return out


def probe_displacement(facts):
    """hash_delete: the displacement compared with / subtracted from states_ is a counter advanced with every (wrapping)
    probe step, never a difference of table indices"""
    fns = fns_of(facts)
    out = []
    for pat, fn in sorted(fns.items()):
        if fn.get("rect") != MAP or fn["name"] != "hash_delete":
            continue
        key = "reverse_purge_hash_map::hash_delete:displacement-counter"
        loops = []
        walk(fn["body"], lambda n: loops.append(n) if n.get("k") in ("While", "For") and n.get("init") is None and n.get("inc") is None else None)
        if not loops:
            out.append(ob("fi.probe", key, fn["pat"], "unrecognised", "no probe loop", fn["qname"]))
            continue
        body = stmts_of(loops[0]["b"])
        adv = [s for s in body if s.get("k") == "Expr" and s["e"].get("k") == "Assign" and txt(s["e"]["l"]) == "probe" and "&mask" in txt(s["e"]["r"]).replace(" ", "")]
        incs = [strip(s["e"]) for s in body if s.get("k") == "Expr" and strip(s["e"]).get("k") == "Un" and strip(s["e"]).get("op") == "++" and strip(strip(s["e"])["e"]).get("k") == "Ref"]
        problems = []
        if not adv:
            problems.append("probe is not advanced with `(probe + 1) & mask` at the top level of the loop")
        counter = strip(incs[0]["e"])["n"] if incs else None
        if counter is None:
            problems.append("no displacement counter is incremented together with the probe")
        uses = []
        walk(loops[0], lambda n: uses.append(n) if n.get("k") == "Bin" and n.get("op") in (">", "-") and "states_[probe]" in txt(n["l"]) else None)
        for u in uses:
            r = txt(u["r"])
            if counter is None or r != counter:
                problems.append("states_[probe] %s `%s`: the distance is not the wrapping step counter%s" % (u["op"], r, " `%s`" % counter if counter else ""))
        if not uses:
            problems.append("states_[probe] is never compared with the displacement")
        if problems:
            out.append(ob("fi.probe", key, loops[0]["loc"], "violated", "; ".join(problems) + " (an index difference is wrong once the probe wraps past the end of the table: survivors behind the wrap become unreachable)", fn["qname"]))
        else:
            out.append(ob("fi.probe", key, loops[0]["loc"], "discharged", "displacement `%s` is incremented with every wrapping probe step and is what states_[probe] is compared with / reduced by" % counter, fn["qname"]))
    return out


def single_pass_subtract(facts):
    """reverse purge: subtract_and_keep_positive_only visits every slot exactly once per purge, from the top of each probe cluster
    downwards, so that the entries hash_delete() shifts back into a freed slot have already been handled (their counter was
    reduced when their own slot was visited).  Each visited active slot is either deleted (counter <= amount) or reduced, never
    examined again: a second comparison of the same slot against `amount` treats an already-reduced survivor as if it still had
    to lose `amount` and evicts entries whose counter was in (amount, 2 * amount]."""
    fs = fns_of(facts)
    out = []
    for pat, fn in sorted(fs.items()):
        if fn["name"] != "subtract_and_keep_positive_only":
            continue
        # statement-level calls of private void helpers are seen through (the scan body may have been extracted into one)
        from astu import inlined_body
        by_pat = {f["pat"]: f for f in fs.values()}
        body = inlined_body(fn, by_pat, keep=("hash_delete",))
        loops = [s for s in stmts_of(body) if s.get("k") == "For" and any(x.get("k") == "Call" and x.get("cname") == "hash_delete" for x in _nodes(s))]
        if len(loops) < 1:
            out.append(ob("fi.single-pass", "reverse_purge_hash_map::subtract_and_keep_positive_only:loops", fn["pat"], "unrecognised", "scan loops not found", fn["qname"]))
            continue
        for j, lp in enumerate(loops):
            nested = []
            walk(lp["b"], lambda n: nested.append(n) if n.get("k") in ("For", "While", "Do", "RangeFor") else None)
            dels = []
            walk(lp["b"], lambda n: dels.append(n) if n.get("k") == "Call" and n.get("cname") == "hash_delete" else None)
            cmps = []
            amount = fn["params"][0]["d"] if fn.get("params") else None
            walk(lp["b"], lambda n: cmps.append(n) if n.get("k") == "Bin" and n.get("op") in ("<=", "<", ">", ">=") and any(x.get("k") == "Ref" and x.get("d") == amount for x in _nodes(n)) else None)
            key = "reverse_purge_hash_map::subtract_and_keep_positive_only:scan#%d:one-visit-per-slot" % j
            ok = not nested and len(dels) == 1 and len(cmps) == 1
            out.append(ob("fi.single-pass", key, lp["loc"], "discharged" if ok else "violated", "each visited slot is compared with the purge amount once and then deleted or reduced" if ok else "the scan body has %d nested loop(s), %d hash_delete call(s) and %d comparison(s) with `amount`: a slot refilled by hash_delete() is examined again although its new occupant already lost `amount` - entries with counter in (amount, 2 * amount] are evicted and their upper bound falls below their true weight" % (len(nested), len(dels), len(cmps)), fn["qname"]))
    if not out:
        out.append(ob("fi.single-pass", "anchor", "", "unrecognised", "subtract_and_keep_positive_only not found", ""))
    return out


def _nodes(n):
    acc = []
    walk(n, lambda x: acc.append(x))
    return acc


def probe_masks(facts):
    """every probe index of the reverse-purge hash map is reduced modulo the CURRENT table size: `& ((1 << lg_cur_size_) - 1)`.  A mask
    built from lg_max_size_ (or any other size) probes outside the arrays while the table is still growing."""
    from astu import single_assignment_locals
    fs = fns_of(facts)
    out = []
    n = 0
    for pat, fn in sorted(fs.items()):
        if fn.get("rect") != "datasketches::reverse_purge_hash_map" or fn.get("body") is None:
            continue
        sa = single_assignment_locals(fn)
        idx = [0]

        def v(x):
            nonlocal n
            if x.get("k") == "Bin" and x.get("op") == "&":
                for side in ("l", "r"):
                    t = txt(x[side], sa).replace(" ", "")
                    if t.startswith("((1<<") and t.endswith(")-1)"):
                        key = "reverse_purge_hash_map::%s:probe-mask#%d" % (fn["name"], idx[0])
                        idx[0] += 1
                        n += 1
                        if t == "((1<<lg_cur_size_)-1)":
                            out.append(ob("fi.mask", key, x.get("loc", fn["pat"]), "discharged", "index & ((1 << lg_cur_size_) - 1)", fn["qname"]))
                        else:
                            out.append(ob("fi.mask", key, x.get("loc", fn["pat"]), "violated", "probe index is masked with `%s`, not with the current table size: while lg_cur_size_ < lg_max_size_ the probe sequence leaves the arrays (tracked items are not found: lower bound, estimate and upper bound read 0; out-of-bounds reads)" % t, fn["qname"]))
        with astu.with_getters(fs):      # `index_mask()` reads as `(1 << lg_cur_size_) - 1`
            walk(fn["body"], v)
    if n < 5:
        out.append(ob("fi.mask", "anchor", "", "unrecognised", "only %d probe masks found" % n, ""))
    return out


def purge_sample(facts):
    """purge(): the purge amount is the median of min(MAX_SAMPLE_SIZE, num_active_) ACTIVE counters: the loop that collects the
    sample runs until that many samples are taken (its condition reads the sample counter - the local that indexes the sample
    buffer), not over a fixed number of table cells.  Scanning only the first `limit` cells takes the median of the few active
    entries that happen to sit in the low part of the table."""
    fns = fns_of(facts)
    out = []
    for pat, fn in sorted(fns.items()):
        if fn["name"] != "purge" or MAP not in (fn.get("rect") or ""):
            continue
        key = "reverse_purge_hash_map::purge:sample-of-active-counters"
        stores = []

        def v(n, ps):
            if n.get("k") == "Assign" and n.get("op") == "=":
                l = strip_all(n["l"])
                idx = None
                if l.get("k") == "Index":
                    idx = strip_all(l.get("i") or {})
                elif l.get("k") == "OpCall" and l.get("op") == "[]" and len(l.get("args", [])) == 2:
                    idx = strip_all(l["args"][1])
                if isinstance(idx, dict) and "values_" in txt(n["r"]):
                    while idx.get("k") == "Un" and idx.get("op") in ("++",):
                        idx = strip_all(idx.get("e") or {})
                    if idx.get("k") == "Ref" and idx.get("dk") == "local":
                        loops = [p for p in ps if p.get("k") in ("For", "While", "Do")]
                        stores.append((n, idx, loops))
        walkp(fn["body"], v)
        if len(stores) != 1 or not stores[0][2]:
            out.append(ob("fi.sample", key, fn["pat"], "unrecognised", "the loop that copies active counters into the sample buffer was not found", fn["qname"]))
            continue
        n, cnt, loops = stores[0]
        L = loops[-1]
        refs = []
        walk(L.get("c") or {}, lambda x: refs.append(x.get("d")) if x.get("k") == "Ref" else None)
        active = []
        walk(L.get("b") or {}, lambda x: active.append(x) if x.get("k") == "Call" and x.get("cname") == "is_active" else None)
        if cnt["d"] in refs:
            out.append(ob("fi.sample", key, L.get("loc", fn["pat"]), "discharged", "the sampling loop runs until `%s` samples of active cells are taken" % cnt["n"], fn["qname"]))
        else:
            out.append(ob("fi.sample", key, L.get("loc", fn["pat"]), "violated", "the sampling loop is bounded by `%s`, which does not read the sample counter `%s`: it scans a fixed number of table cells instead of collecting that many active counters, so the purge amount is the median of whatever sits in the low part of the table (the error can exceed epsilon * N)" % (txt(L.get("c")), cnt["n"]), fn["qname"]))
    return out
