#!/usr/bin/env python3
"""A5 prototype: special-member completeness, assignment peers, allocate/deallocate size agreement, foreign allocators."""
import json, sys, glob, re


def strip(e):
    while isinstance(e, dict) and e.get("k") == "Cast":
        e = e["e"]
    return e


def walk(n, f):
    if isinstance(n, dict):
        f(n)
        for v in n.values():
            walk(v, f)
    elif isinstance(n, list):
        for v in n:
            walk(v, f)


def key(e, inl=None, depth=0):
    e = strip(e)
    if e is None:
        return "?"
    k = e.get("k")
    if "v" in e and k not in ("Call", "Assign"):
        return str(e["v"])
    if k == "Int":
        return e["lit"]
    if k == "Ref":
        if inl and e["d"] in inl and depth < 5:
            return key(inl[e["d"]], inl, depth + 1)
        return e["n"]
    if k == "This":
        return "this"
    if k == "Member":
        b = key(e["b"], inl, depth)
        return e["f"] if b == "this" else b + "." + e["f"]
    if k == "Bin":
        l, r = key(e["l"], inl, depth), key(e["r"], inl, depth)
        if e["op"] in ("+", "*"):
            l, r = sorted([l, r])
        if e["op"] == "<<" and l == "1":
            return "pow2(%s)" % r
        return "(%s%s%s)" % (l, e["op"], r)
    if k == "Call":
        o = key(e["obj"], inl, depth) + "." if e.get("obj") else ""
        if o == "this.":
            o = ""
        return o + e.get("cname", "?") + "(" + ",".join(key(a, inl, depth) for a in e.get("args", [])) + ")"
    if k == "Construct" and len(e.get("args", [])) == 1:
        return key(e["args"][0], inl, depth)
    if k == "Cond":
        return "(%s?%s:%s)" % (key(e["c"], inl, depth), key(e["a"], inl, depth), key(e["e"], inl, depth))
    if k == "Sizeof":
        return str(e.get("v"))
    return k or "?"


def main():
    files = sys.argv[1:] or sorted(glob.glob("/root/verif-proto/facts/*.json"))
    recs = {}
    fns = []
    for f in files:
        d = json.load(open(f))
        for r in d["records"]:
            recs.setdefault(r["tmpl"], r)
        fns += d["functions"]
    seen = set()
    print("== special-member completeness (copy/move ctor init lists; assignment swaps/assigns)")
    by_rec = {}
    for fn in fns:
        if fn.get("special") and fn["pat"] not in seen:
            seen.add(fn["pat"])
            by_rec.setdefault(fn["rect"], {})[fn["special"]] = fn
    for rect, sp in sorted(by_rec.items()):
        r = recs.get(rect)
        if not r:
            continue
        fields = [f["n"] for f in r["fields"]]
        probs = []
        for kind, fn in sorted(sp.items()):
            other = fn["params"][0]["d"] if fn["params"] else None
            if kind in ("copy-ctor", "move-ctor"):
                inited = {}
                for i in fn.get("inits", []):
                    if "field" in i and i.get("written"):
                        inited[i["field"]] = i["e"]
                # fields assigned in body
                body_assigned = set()
                walk(fn["body"], lambda n: body_assigned.add(strip(n["l"]).get("f")) if n.get("k") == "Assign" and strip(n["l"]).get("k") == "Member" and strip(strip(n["l"])["b"]).get("k") == "This" else None)
                for f in fields:
                    if f not in inited and f not in body_assigned:
                        probs.append("%s: field %s not initialised" % (kind, f))
                    elif f in inited:
                        # must mention other.f (or be a reset literal followed by body assignment)
                        mentions = []
                        walk(inited[f], lambda n: mentions.append(n.get("f") or n.get("cname")) if n.get("k") in ("Member", "Call") and strip(n.get("b") or n.get("obj") or {}).get("d") == other else None)
                        if not mentions and f not in body_assigned:
                            lit = strip(inited[f])
                            if lit.get("k") not in ("Null", "Bool", "Int") and "v" not in lit:
                                probs.append("%s: field %s initialised from %s, not from other" % (kind, f, key(inited[f])))
                            else:
                                probs.append("%s: field %s reset to literal %s and never rebuilt" % (kind, f, key(inited[f])))
                        elif mentions and f not in [m for m in mentions] and not any(m and (m == f or m.startswith("get_") or m.startswith("is_")) for m in mentions):
                            probs.append("%s: field %s initialised from other.%s" % (kind, f, mentions))
            else:
                # assignment: every field swapped or assigned, and the peer is right
                handled = {}
                local_copy = set()
                walk(fn["body"], lambda n: [local_copy.add(v["d"]) for v in n.get("vars", []) if "d" in v] if n.get("k") == "Decl" else None)

                def visit(n):
                    if n.get("k") == "Call" and n.get("cname") == "swap" and len(n.get("args", [])) == 2:
                        a, b = strip(n["args"][0]), strip(n["args"][1])
                        if a.get("k") == "Member" and strip(a["b"]).get("k") == "This":
                            peer = strip(b)
                            peer_base = strip(peer.get("b", {})) if peer.get("k") == "Member" else {}
                            handled[a["f"]] = ("swap", peer.get("f"), peer_base.get("d"), peer_base.get("dk"))
                    if n.get("k") == "Assign":
                        a = strip(n["l"])
                        if a.get("k") == "Member" and strip(a["b"]).get("k") == "This":
                            handled.setdefault(a["f"], ("assign", None, None, None))
                    if n.get("k") == "OpCall" and n.get("op") == "=" and n.get("args"):
                        a = strip(n["args"][0])
                        if a.get("k") == "Member" and strip(a["b"]).get("k") == "This":
                            handled.setdefault(a["f"], ("assign", None, None, None))
                walk(fn["body"], visit)
                for f in fields:
                    if f not in handled:
                        if r["fields"][fields.index(f)].get("mutable") or f == "sorted_view_":
                            continue
                        probs.append("%s: field %s neither swapped nor assigned" % (kind, f))
                    else:
                        how, pf, pd, pdk = handled[f]
                        if how == "swap":
                            if pf != f:
                                probs.append("%s: field %s swapped with peer field %s" % (kind, f, pf))
                            if kind == "copy-assign" and pd == other:
                                probs.append("%s: field %s swapped with the const source `other`, not with the local copy" % (kind, f))
                            if kind == "move-assign" and pd != other:
                                probs.append("%s: field %s swapped with something that is not the source" % (kind, f))
        print("%-55s %s" % (rect, "OK (%s)" % ",".join(sorted(sp)) if not probs else "ISSUES"))
        for p in probs:
            print("      ", p)

    print("\n== allocate / deallocate size agreement per record field")
    alloc_sites = {}
    dealloc_sites = {}
    seen = set()
    for fn in fns:
        if fn["pat"] in seen or not fn.get("rect"):
            continue
        seen.add(fn["pat"])
        inl = {}
        walk(fn["body"], lambda n: [inl.__setitem__(v["d"], v["init"]) for v in n.get("vars", []) if v.get("init") is not None and v.get("const")] if n.get("k") == "Decl" else None)

        def visit(n):
            if n.get("k") == "Assign" and n["op"] == "=":
                l, r = strip(n["l"]), strip(n["r"])
                if l.get("k") == "Member" and strip(l["b"]).get("k") == "This" and r.get("k") == "Call" and r.get("cname") == "allocate":
                    alloc_sites.setdefault((fn["rect"], l["f"]), []).append((fn["name"], n["loc"], key(r["args"][0], inl)))
            if n.get("k") == "Call" and n.get("cname") == "deallocate" and len(n.get("args", [])) == 2:
                p = strip(n["args"][0])
                if p.get("k") == "Member" and strip(p["b"]).get("k") == "This":
                    dealloc_sites.setdefault((fn["rect"], p["f"]), []).append((fn["name"], n["loc"], key(n["args"][1], inl)))
                elif p.get("k") == "Ref":
                    dealloc_sites.setdefault((fn["rect"], "<local:%s>" % p["n"]), []).append((fn["name"], n["loc"], key(n["args"][1], inl)))
        walk(fn["body"], visit)
        for i in fn.get("inits", []):
            if "field" in i:
                r = strip(i["e"])
                if r and r.get("k") == "Call" and r.get("cname") == "allocate":
                    alloc_sites.setdefault((fn["rect"], i["field"]), []).append((fn["name"], r["loc"], key(r["args"][0], inl)))
    for (rect, f) in sorted(set(alloc_sites) | set(dealloc_sites)):
        a = alloc_sites.get((rect, f), [])
        dd = dealloc_sites.get((rect, f), [])
        print("%-50s %-22s alloc sizes %s | dealloc sizes %s" % (rect.replace("datasketches::", ""), f, sorted(set(x[2] for x in a)), sorted(set(x[2] for x in dd))))

    print("\n== deleter classes: deallocate size vs constructor-stored count")
    seen = set()
    for fn in fns:
        if fn["name"] == "operator()" and "deleter" in (fn.get("rect") or "") and fn["pat"] not in seen:
            seen.add(fn["pat"])
            sizes = []
            walk(fn["body"], lambda n: sizes.append(key(n["args"][1])) if n.get("k") == "Call" and n.get("cname") == "deallocate" else None)
            r = recs.get(fn["rect"])
            flds = [f["n"] for f in r["fields"]] if r else []
            bad = [s for s in sizes if s not in flds and not any(s == f for f in flds)]
            print("%-70s dealloc(%s) fields %s %s" % (fn["rect"].replace("datasketches::", ""), ",".join(sizes), flds, "MISMATCH" if bad else "ok"))


if __name__ == "__main__":
    main()
