"""Flag / section coherence of the serialized formats: when a reader decides from a flag bit of the image whether a section
follows (`if (has_entries) { read ... }`), the writers of that class must decide the flag and the section from the same state:
the condition under which the bit is set shares a state atom with the condition that guards some block of writes.  A flag taken
from one predicate (`!is_empty()`) while the section is written under another (`get_num_retained() > 0`) gives images whose flag
announces a section that is not there (or hides one that is) in the states where the two predicates differ."""
from astu import C, strip, strip_all, walk, walkp, txt, short, stmts_of, functions_by, single_assignment_locals, reach
from vlib.core import ob
import layout_rules

def _is_read(n):
    nm = n.get("cname") or ""
    return n.get("k") == "Call" and (nm in ("read", "copy_from_mem", "ignore", "memcpy") or nm.startswith(("deserialize", "read_", "copy_from")))


def _is_write(n):
    nm = n.get("cname") or ""
    return n.get("k") == "Call" and (nm in ("write", "copy_to_mem", "memcpy", "fill_n") or nm.startswith(("serialize", "write_", "copy_")) )


def _calls(fn, pred):
    out = []
    walk(fn["body"], lambda x: out.append(x) if pred(x) else None)
    return out


BY_PAT = {}


def _atoms(e, inl, depth=0):
    """state atoms of a condition: leaves below && / || / ! / ?: and comparisons with 0, as canonical text (locals that are
    assigned once read as their initialiser)"""
    e = strip_all(e)
    if not isinstance(e, dict) or depth > 10:
        return set()
    k = e.get("k")
    if k == "Paren":
        return _atoms(e.get("e"), inl, depth + 1)
    if k == "Un" and e.get("op") == "!":
        return _atoms(e.get("e"), inl, depth + 1)
    if k == "Bin" and e.get("op") in ("&&", "||"):
        return _atoms(e["l"], inl, depth + 1) | _atoms(e["r"], inl, depth + 1)
    if k == "Bin" and e.get("op") in ("==", "!=", ">", "<", ">=", "<="):
        for a, b in (("l", "r"), ("r", "l")):
            if (strip_all(e[a]).get("k") == "Int" and strip_all(e[a]).get("v") in (0, 1)) or strip_all(e[a]).get("k") == "Null":
                return _atoms(e[b], inl, depth + 1)
    if k == "Ref" and e.get("d") in inl:
        return _atoms(inl[e["d"]], inl, depth + 1)
    if k == "Cond":
        return _atoms(e["c"], inl, depth + 1) | _atoms(e["a"], inl, depth + 1) | _atoms(e["e"], inl, depth + 1)
    if k in ("Int", "Bool", "Null"):
        return set()
    res = {C(txt(e, inl).replace(" ", ""))}
    if k == "Call" and e.get("cpat") in BY_PAT and depth < 4 and (e.get("obj") is None or strip_all(e["obj"]).get("k") == "This"):
        # a predicate / size helper of the class: the state its own conditions and results read counts too
        cal = BY_PAT[e["cpat"]]
        if cal.get("body") is not None and len(str(cal["body"])) < 20000:
            cinl = single_assignment_locals(cal)
            cst = stmts_of(cal["body"])
            if len(cst) == 1 and cst[0].get("k") == "Return" and cst[0].get("e") is not None:
                res.update(_atoms(cst[0]["e"], cinl, depth + 2))      # a getter reads as what it returns

            def cv(n):
                if n.get("k") in ("If", "Cond") and n.get("c") is not None:
                    res.update(_atoms(n["c"], cinl, depth + 2))
                if n.get("k") == "Return" and n.get("e") is not None and (cal.get("ret") or "") == "bool":
                    res.update(_atoms(n["e"], cinl, depth + 2))
            walk(cal["body"], cv)
    return res


def _mask_values(e):
    """constants a value is masked with inside e"""
    out = set()

    def v(n):
        if n.get("k") == "Bin" and n.get("op") == "&":
            for a in ("l", "r"):
                x = strip_all(n[a])
                if isinstance(x, dict) and isinstance(x.get("v"), int) and not isinstance(x.get("v"), bool) and x.get("k") not in ("Call", "OpCall"):
                    out.add(x["v"])
    walk(e, v)
    return out


def obligations(facts, families=None):
    fns = functions_by(facts, families) if families else functions_by(facts)
    BY_PAT.clear()
    BY_PAT.update({f["pat"]: f for f in functions_by(facts).values()})
    # reader side: class -> mask -> reader function, for flags that gate reads
    gates = {}
    for key, terms, var, fn in layout_rules.flag_rows(facts):
        rect = fn.get("rect")
        if not rect or (families and not any(str(fn.get("pat", "")).startswith(f + "/") for f in families)):
            continue
        masks = _mask_values(var["init"])
        if len(masks) != 1 or "d" not in var:
            continue
        # booleans derived from the flag (single-assignment bool locals whose initialiser reads it)
        sa = single_assignment_locals(fn)
        fam = {var["d"]}
        grew = True
        while grew:
            grew = False
            for d, ini in sa.items():
                if d in fam:
                    continue
                refs = []
                walk(ini, lambda x: refs.append(x.get("d")) if x.get("k") == "Ref" else None)
                if any(r in fam for r in refs):
                    fam.add(d)
                    grew = True
        gating = []
        for rc in _calls(fn, _is_read):
            for lit in reach(fn["body"], rc):
                refs = []
                walk(lit, lambda x: refs.append(x.get("d")) if x.get("k") == "Ref" else None)
                # the named flag, or (reach reads named conditions as what they name) the bit test itself
                if any(r in fam for r in refs) or (masks & _mask_values(lit)):
                    gating.append(rc)
                    break
        if gating:
            gates.setdefault(rect, {}).setdefault(next(iter(masks)), []).append((fn, var))
    out = []
    for rect, by_mask in sorted(gates.items()):
        writers = [f for f in fns.values() if f.get("rect") == rect and f["name"].startswith("serialize") and f.get("body") is not None]
        for w in sorted(writers, key=lambda f: f["pat"]):
            inl = single_assignment_locals(w)
            # bits set: (cond ? K : 0) terms
            sets = {}

            def sv(n):
                if n.get("k") == "Cond":
                    a, b = strip_all(n["a"]), strip_all(n["e"])
                    if isinstance(a.get("v"), int) and not isinstance(a.get("v"), bool) and b.get("v") == 0 and a["v"] != 0:
                        sets.setdefault(a["v"], []).append(n["c"])
                    elif isinstance(b.get("v"), int) and not isinstance(b.get("v"), bool) and a.get("v") == 0 and b["v"] != 0:
                        sets.setdefault(b["v"], []).append(n["c"])
            walk(w["body"], sv)
            watoms = set()
            for wc in _calls(w, _is_write):
                for lit in reach(w["body"], wc):
                    watoms.update(_atoms(lit, inl))
            kind = "stream" if any("basic_ostream" in (p.get("t") or "") for p in w.get("params", [])) else "bytes"
            for mask, readers in sorted(by_mask.items()):
                conds = [c for m, cs in sets.items() if m & mask for c in cs]
                if not conds:
                    continue
                key = "%s::%s(%s):flag-0x%x~section" % (short(rect), w["name"], kind, mask)
                fatoms = set()
                for c in conds:
                    fatoms |= _atoms(c, inl)
                if fatoms & watoms:
                    out.append(ob("flag.section", key, w["pat"], "discharged", "bit 0x%x is set from %s, which also guards a block of writes; the readers (%s) branch on it" % (mask, sorted(fatoms & watoms)[0], readers[0][0]["name"]), w["qname"]))
                elif not watoms:
                    out.append(ob("flag.section", key, w["pat"], "info", "no conditional block of writes in this writer", w["qname"]))
                else:
                    out.append(ob("flag.section", key, w["pat"], "violated", "bit 0x%x is set from `%s`, but no block of writes is guarded by that state (write conditions read %s), while %s::%s reads a section only when the bit is set: in the states where the two predicates differ the flag announces a section that is not written (or hides one that is)" % (mask, ", ".join(sorted(fatoms)), sorted(watoms), short(rect), readers[0][0]["name"]), w["qname"]))
    return out
