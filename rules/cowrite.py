"""Counter / bound coupling (Engler-style 'fields that are updated together'): candidates were discovered statistically
over all mutators of each record, then confirmed by reading and frozen in spec/couplings.json.  Rule: every member function
that directly modifies field A of its record also directly modifies field B (exemptions are single named functions with a
reason).  A second row type covers raw inserters: a function that calls `o.<callee>()` on another object must set o.<field>."""
import json
import os
from astu import C, ctxt, gt_pair, eq_const, reach, reach_txt, ctext, strip, strip_all, walk, txt, short, is_this_field, functions_by
from vlib.core import ob, VERIF


def root_field(e, self_ids=()):
    e = strip(e)
    while isinstance(e, dict) and e.get("k") in ("Index", "OpCall", "Un"):
        if e.get("k") == "Index":
            e = strip(e["b"])
        elif e.get("k") == "OpCall":
            e = strip(e["args"][0]) if e.get("args") else {}
        else:
            e = strip(e["e"])
    if isinstance(e, dict) and e.get("k") == "Member" and e.get("isfield"):
        b = strip(e["b"])
        if b.get("k") == "This":
            return ("this", e["f"])
        if b.get("k") == "Ref":
            return (b.get("d"), e["f"])
    return None


def direct_writes(fn):
    W = set()
    elems = {}    # element variable of a range-for -> what it ranges over: writing the element writes the container
    walk(fn["body"], lambda n: elems.__setitem__((n.get("var") or {}).get("d"), n.get("range")) if n.get("k") == "RangeFor" and (n.get("var") or {}).get("ref", True) else None)

    def add(x):
        sx = strip(x)
        if isinstance(sx, dict) and sx.get("k") == "Ref" and sx.get("d") in elems and elems[sx["d"]] is not None:
            x = elems[sx["d"]]
        r = root_field(x)
        if r:
            W.add(r)

    def v(n):
        k = n.get("k")
        if k == "Assign":
            add(n["l"])
        elif k == "Un" and n.get("op") in ("++", "--"):
            add(n["e"])
        elif k == "Call" and n.get("cname") == "swap":
            for a in n.get("args", []):
                add(a)
        elif k == "Call" and n.get("member") and n.get("obj") is not None and not n.get("cconst", True):
            add(n["obj"])
        elif k == "OpCall" and n.get("op") in ("=", "+=", "-=", "|=", "&=") and n.get("args"):
            add(n["args"][0])
        elif k == "New" and n.get("placement") is not None:
            walk(n["placement"], lambda x: add(x) if x.get("k") == "Member" else None)
    walk(fn["body"], v)
    return W


def spec():
    with open(os.path.join(VERIF, "spec", "couplings.json")) as f:
        return json.load(f)


def obligations(facts, records=None):
    sp = spec()
    fns = functions_by(facts)
    from astu import root_views
    views = root_views(fns)     # private void helpers are seen through; a function that is only such a helper is not a unit
    out = []
    for row in sp["cowrite"]:
        rect = "datasketches::" + row["record"]
        if records is not None and row["record"] not in records:
            continue
        a, b = row["a"], row["b"]
        n = 0
        for fn0, body in views:
            fn = dict(fn0, body=body)
            if fn.get("rect") != rect or fn["kind"] not in ("method",) or fn.get("special") or fn.get("const"):
                continue
            W = {f for (o, f) in direct_writes(fn) if o == "this"}
            if a not in W:
                continue
            n += 1
            key = "%s::%s:%s-with-%s" % (row["record"], fn["name"], a, b)
            if b in W:
                out.append(ob("cowrite", key, fn["pat"], "discharged", "modifies %s and %s together" % (a, b), fn["qname"]))
            elif fn["name"] in row.get("exempt", {}):
                out.append(ob("cowrite", key, fn["pat"], "info", "reviewed exemption: " + row["exempt"][fn["name"]], fn["qname"]))
            else:
                out.append(ob("cowrite", key, fn["pat"], "violated", "%s::%s modifies `%s` without modifying `%s` (%s): every other mutator keeps the two in step" % (row["record"], fn["name"], a, b, row["why"]), fn["qname"]))
        if n == 0:
            out.append(ob("cowrite", "%s:%s-with-%s:anchor" % (row["record"], a, b), "", "unrecognised", "no function of %s modifies %s any more (anchor vanished)" % (row["record"], a), ""))
    for row in sp.get("elements", []):
        rect = "datasketches::" + row["record"]
        if records is not None and row["record"] not in records:
            continue
        n = 0
        for pat, fn in sorted(fns.items()):
            if fn.get("rect") != rect or fn.get("special"):
                continue
            hits = []

            def ve(x):
                if x.get("k") == "Un" and x.get("op") in row["ops"]:
                    t = strip(x["e"])
                    base = idx = None
                    if t.get("k") == "Index":
                        base, idx = strip(t["b"]), strip_all(t["i"])
                    elif t.get("k") == "OpCall" and t.get("op") == "[]" and len(t.get("args", [])) == 2:
                        base, idx = strip(t["args"][0]), strip_all(t["args"][1])
                    if base is not None and is_this_field(base, (row["field"],)) and idx.get("v") == row["index"]:
                        hits.append(x)
            walk(fn["body"], ve)
            if not hits:
                continue
            n += 1
            W = {f for (o, f) in direct_writes(fn) if o == "this"}
            key = "%s::%s:%s[%d]%s-with-%s" % (row["record"], fn["name"], row["field"], row["index"], row["ops"][0], row["b"])
            if row["b"] in W:
                out.append(ob("cowrite", key, hits[0]["loc"], "discharged", "%s%s[%d] and %s are modified together" % (row["ops"][0], row["field"], row["index"], row["b"]), fn["qname"]))
            else:
                out.append(ob("cowrite", key, hits[0]["loc"], "violated", "%s::%s does `%s%s[%d]` without updating `%s`: %s (other callers of this function inherit the stale flag)" % (row["record"], fn["name"], row["ops"][0], row["field"], row["index"], row["b"], row["why"]), fn["qname"]))
        if n == 0:
            out.append(ob("cowrite", "%s:%s[%d]:anchor" % (row["record"], row["field"], row["index"]), "", "unrecognised", "no function of %s does %s%s[%d] any more (anchor vanished)" % (row["record"], row["ops"][0], row["field"], row["index"]), ""))
    for row in sp["callers"]:
        rect = "datasketches::" + row["record"]
        if records is not None and row["record"] not in records:
            continue
        for pat, fn in sorted(fns.items()):
            objs = set()

            def v(n):
                if n.get("k") == "Call" and n.get("cname") == row["callee"] and (n.get("crec") or "") == rect and n.get("obj") is not None:
                    o = strip(n["obj"])
                    if o.get("k") == "Ref":
                        objs.add((o["d"], o["n"]))
            walk(fn["body"], v)
            if not objs:
                continue
            W = direct_writes(fn)
            for d, name in sorted(objs):
                key = "%s:%s.%s-sets-%s" % (short(fn["patq"]), name, row["callee"], row["field"])
                if (d, row["field"]) in W:
                    out.append(ob("cowrite", key, fn["pat"], "discharged", "%s.%s(...) is followed by an update of %s.%s" % (name, row["callee"], name, row["field"]), fn["qname"]))
                else:
                    out.append(ob("cowrite", key, fn["pat"], "violated", "%s calls %s.%s(), which %s, but never sets %s.%s: %s" % (fn["name"], name, row["callee"], row["callee_contract"], name, row["field"], row["why"]), fn["qname"]))
    return out
