"""Theta / Tuple structural rules (C01, C02, C13): strict screens, theta writers, pivot agreement, ordered-only
shortcuts, emptiness, duplicate suppression, builder/reset agreement, seed checks."""
import re
from astu import C, ctxt, gt_pair, eq_const, reach, reach_txt, ctext, strip, strip_all, walk, walkp, txt, short, is_this_field, field_name, local_decls, stmts_of, always_exits, functions_by
from vlib.core import ob

class _U64:
    def __contains__(self, t):
        t = (t or "").replace("const ", "").replace(" &&", "").replace(" &", "").strip()
        return t == "unsigned long"


U64 = _U64()
SEED_THETA_FIELDS = ("theta_", "union_theta_")


def in_family(fn, fams=("theta/", "tuple/")):
    return any(fn["pat"].startswith(f) for f in fams)


class ThetaFlow:
    """which expressions are theta-valued (fixpoint over fields, functions, locals, parameters)"""

    def __init__(self, fns):
        self.fns = fns  # pat -> fn
        self.fields = set(SEED_THETA_FIELDS)
        self.funcs = set()      # pats of functions returning a theta value
        self.decls = set()      # (pat, decl id) of theta-valued locals/params
        for _ in range(6):
            before = (len(self.fields), len(self.funcs), len(self.decls))
            for pat, fn in fns.items():
                if not in_family(fn, ("theta/", "tuple/")):
                    continue
                self.scan(fn)
            if (len(self.fields), len(self.funcs), len(self.decls)) == before:
                break

    def tv(self, fn, e):
        e = strip_all(e)
        if not isinstance(e, dict):
            return False
        k = e.get("k")
        if k == "Member" and e.get("isfield") and e["f"] in self.fields:
            return True
        if k == "Ref" and (fn["pat"], e.get("d")) in self.decls:
            return True
        if k == "Call":
            if e.get("cpat") in self.funcs:
                return True
            if (e.get("callee") or "").startswith(("std::min", "std::max")) and any(self.tv(fn, a) for a in e.get("args", [])):
                return True
        if k == "Cond" and (self.tv(fn, e["a"]) or self.tv(fn, e["e"])):
            return True
        return False

    def scan(self, fn):
        pat = fn["pat"]

        def visit(n):
            k = n.get("k")
            if k == "Decl":
                for v in n.get("vars", []):
                    if v.get("init") is not None and v.get("t") in U64 and self.tv(fn, v["init"]):
                        self.decls.add((pat, v["d"]))
            if k == "Return" and n.get("e") is not None and fn["ret"] in U64 and self.tv(fn, n["e"]):
                self.funcs.add(pat)
            if k in ("Call", "Construct") and n.get("cpat") in self.fns:
                cal = self.fns[n["cpat"]]
                if in_family(cal):
                    for p, a in zip(cal["params"], n.get("args", [])):
                        if p["t"] in U64 and self.tv(fn, a):
                            self.decls.add((cal["pat"], p["d"]))
        walk(fn["body"], visit)
        for i in fn.get("inits", []):
            if "field" in i:
                x = strip_all(i["e"])
                if isinstance(x, dict) and x.get("k") == "Ref" and (pat, x.get("d")) in self.decls:
                    self.fields.add(i["field"])
            walk(i.get("e"), visit)


def is_const_expr(e):
    e = strip_all(e)
    return isinstance(e, dict) and ("v" in e or e.get("k") in ("Int",) or (e.get("k") == "Ref" and e.get("dk") in ("global", "enum")) or (e.get("k") == "Member" and e.get("isstatic")))


def screens(facts, fams=("theta/", "tuple/")):
    fns = functions_by(facts, ["theta", "tuple"])
    TF = ThetaFlow(fns)
    out = []
    for pat, fn in sorted(fns.items()):
        if not in_family(fn, fams):
            continue
        idx = [0]

        def visit(n):
            if n.get("k") == "Bin" and n.get("op") in ("<", "<=", ">", ">=") and n.get("t") == "bool":
                lt, rt = TF.tv(fn, n["l"]), TF.tv(fn, n["r"])
                if lt == rt:
                    return
                other = n["l"] if rt else n["r"]
                if is_const_expr(other) or (strip_all(other).get("t") not in U64):
                    return
                op = n["op"]
                norm = op if rt else {"<": ">", ">": "<", "<=": ">=", ">=": "<="}[op]   # other OP theta
                key = "%s:screen#%d" % (short(fn["patq"]), idx[0])
                idx[0] += 1
                if norm in ("<", ">="):
                    out.append(ob("theta.screen", key, n["loc"], "discharged", "key %s theta (strict acceptance): %s" % (norm, txt(n)), fn["qname"]))
                else:
                    out.append(ob("theta.screen", key, n["loc"], "violated", "key compared with theta using `%s` (%s): a key equal to theta would be retained/accepted; the sample is defined by keys strictly below theta" % (norm, txt(n)), fn["qname"]))
        walk(fn["body"], visit)
    return out


def theta_writes(facts):
    fns = functions_by(facts, ["theta", "tuple"])
    TF = ThetaFlow(fns)
    out = []
    for pat, fn in sorted(fns.items()):
        if not in_family(fn):
            continue
        idx = [0]
        has_nth = [False]
        walk(fn["body"], lambda n: has_nth.__setitem__(0, True) if n.get("k") == "Call" and (n.get("callee") or "").startswith("std::nth_element") else None)

        def visit(n):
            if n.get("k") != "Assign" or n.get("op") != "=":
                return
            l = strip(n["l"])
            if not (l.get("k") == "Member" and l.get("isfield") and l["f"] in SEED_THETA_FIELDS):
                return
            r = strip_all(n["r"])
            key = "%s:theta-write#%d" % (short(fn["patq"]), idx[0])
            idx[0] += 1
            lt = txt(l)

            def is_min_with_old(x):
                x = strip_all(x)
                return x.get("k") == "Call" and (x.get("callee") or "").startswith("std::min") and any(txt(a) == lt for a in x.get("args", []))
            calls = []
            walk(r, lambda x: calls.append(x.get("callee") or "") if x.get("k") == "Call" else None)
            if any(c.startswith("std::max") for c in calls):
                out.append(ob("theta.write", key, n["loc"], "violated", "theta written with std::max: theta may increase (%s)" % txt(n), fn["qname"]))
            elif is_min_with_old(r):
                out.append(ob("theta.write", key, n["loc"], "discharged", "monotone: min(old, ...)", fn["qname"]))
            elif r.get("k") == "Cond" and (is_min_with_old(r["a"]) or is_min_with_old(r["e"])) and (is_const_expr(r["a"]) or is_const_expr(r["e"])):
                out.append(ob("theta.write", key, n["loc"], "discharged", "empty ? MAX_THETA : min(old, ...)", fn["qname"]))
            elif fn["name"] == "reset":
                out.append(ob("theta.write", key, n["loc"], "discharged", "reset (checked by the builder/reset agreement rule): %s" % txt(n), fn["qname"]))
            elif has_nth[0] and r.get("k") == "OpCall" and r.get("op") == "()":
                out.append(ob("theta.write", key, n["loc"], "discharged", "rebuild pivot (checked by the pivot rule)", fn["qname"]))
            else:
                out.append(ob("theta.write", key, n["loc"], "violated", "theta written by `%s`, which is none of: min(old, x), the rebuild pivot, reset: theta may increase or stop being a seen hash" % txt(n), fn["qname"]))
        walk(fn["body"], visit)
    return out


def pivots(facts):
    """nth_element pivot index == index whose key becomes theta == new retained count; range is all entries."""
    fns = functions_by(facts, ["theta", "tuple"])
    out = []
    for pat, fn in sorted(fns.items()):
        if not in_family(fn):
            continue
        nth = []
        walk(fn["body"], lambda n: nth.append(n) if n.get("k") == "Call" and (n.get("callee") or "").startswith("std::nth_element") else None)
        if not nth:
            continue
        inl = {d: v["init"] for d, v in local_decls(fn).items() if v.get("init") is not None and v.get("const")}
        c = nth[0]
        a = c["args"]
        key = "%s:pivot" % short(fn["patq"])

        def offset_of(e):
            e = strip_all(e)
            while e.get("k") == "Construct" and len(e.get("args", [])) == 1:
                e = strip_all(e["args"][0])
            hops = 0
            while e.get("k") == "Ref" and e.get("d") in inl and hops < 4:      # `T* const nth = first + N;` handed over by name
                e = strip_all(inl[e["d"]])
                hops += 1
            if e.get("k") == "Bin" and e.get("op") == "+":
                return txt(e["l"], inl), txt(e["r"], inl)
            if e.get("k") == "OpCall" and e.get("op") == "+" and len(e["args"]) == 2:
                return txt(e["args"][0], inl), txt(e["args"][1], inl)
            return txt(e, inl), None
        first, _ = offset_of(a[0])
        nbase, N = offset_of(a[1])
        lbase, L = offset_of(a[2])
        problems = []
        if N is None or nbase != first:
            problems.append("nth argument `%s` is not first + N" % txt(a[1], inl))
        # theta := key(container[N'])
        theta_idx = []

        def v(n):
            if n.get("k") == "Assign" and n.get("op") == "=":
                r = strip_all(n["r"])
                l = strip(n["l"])
                is_theta = (l.get("k") == "Member" and l.get("f") in SEED_THETA_FIELDS) or (l.get("k") == "Ref" and l.get("n") == "theta")
                if is_theta and r.get("k") == "OpCall" and r.get("op") == "()" and len(r["args"]) == 2:
                    x = strip_all(r["args"][1])
                    if x.get("k") == "Un" and x.get("op") == "*":
                        # *(first + N), also through a pointer local
                        b0, off = offset_of(x.get("e"))
                        if off is not None:
                            theta_idx.append(off)
                    if x.get("k") == "Index":
                        theta_idx.append(txt(x["i"], inl))
                    elif x.get("k") == "OpCall" and x.get("op") == "[]":
                        theta_idx.append(txt(x["args"][1], inl))
        walk(fn["body"], v)
        if not theta_idx:
            problems.append("no `theta = key(entries[N])` assignment found next to nth_element")
        elif N is not None and theta_idx[0] != N:
            problems.append("theta is taken from index `%s` but nth_element places the pivot at `%s`" % (theta_idx[0], N))
        # retained count: num_entries_ = N  or erase(begin()+N, end())
        cnt = []

        def v2(n):
            if n.get("k") == "Assign" and n.get("op") == "=" and field_name(n["l"]) == "num_entries_":
                cnt.append(txt(n["r"], inl))
            if n.get("k") == "Call" and n.get("cname") == "erase" and n.get("args"):
                _, off = offset_of(n["args"][0])
                cnt.append(off)
        walk(fn["body"], v2)
        if not cnt:
            problems.append("no retained-count update (num_entries_ = N / erase(begin()+N, end())) found")
        elif N is not None and cnt[0] != N:
            problems.append("retained count becomes `%s` but the pivot index is `%s`" % (cnt[0], N))
        # range end
        if lbase == first and L is not None and "num_entries_" not in L:
            problems.append("nth_element range end `%s` is not first + num_entries_" % txt(a[2], inl))
        if problems:
            out.append(ob("theta.pivot", key, c["loc"], "violated", "; ".join(problems), fn["qname"]))
        else:
            out.append(ob("theta.pivot", key, c["loc"], "discharged", "nth = first + %s; theta = key(entries[%s]); retained count = %s" % (N, theta_idx[0], cnt[0]), fn["qname"]))
    return out


def early_breaks(facts):
    """an early `break` out of a range-for over sketch S is guarded by S.is_ordered() of that same object;
    std::set_difference is reached only under a.is_ordered() && b.is_ordered()."""
    fns = functions_by(facts, ["theta", "tuple"])
    out = []
    for pat, fn in sorted(fns.items()):
        if not in_family(fn):
            continue
        idx = [0]

        def visit(n, parents):
            if n.get("k") == "RangeFor":
                rng = txt(n["range"])

                def find(b, guards):
                    if isinstance(b, dict):
                        if b.get("k") == "Break":
                            g = [txt(x) for x in guards]
                            key = "%s:break#%d" % (short(fn["patq"]), idx[0])
                            idx[0] += 1
                            want = "%s.is_ordered()" % rng
                            conj = []
                            for x in g:
                                conj += [y.strip("()") for y in x.split("&&")]
                            if want in g or want in conj:
                                out.append(ob("theta.early-stop", key, b["loc"], "discharged", "break out of the loop over `%s` is guarded by %s" % (rng, want), fn["qname"]))
                            else:
                                out.append(ob("theta.early-stop", key, b["loc"], "violated", "early break out of the loop over `%s` is not guarded by %s (guards: %s): entries of an unordered input after the first rejected key are skipped" % (rng, want, g[-2:]), fn["qname"]))
                            return
                        if b.get("k") == "If":
                            find(b["t"], guards + [b["c"]])
                            if b.get("e"):
                                find(b["e"], guards + [{"k": "Un", "op": "!", "e": b["c"]}])
                            return
                        if b.get("k") in ("For", "While", "RangeFor", "Do", "Switch", "Lambda"):
                            return
                        for v in b.values():
                            find(v, guards)
                    elif isinstance(b, list):
                        for v in b:
                            find(v, guards)
                find(n["b"], [])
            if n.get("k") == "Call" and (n.get("callee") or "").startswith("std::set_difference"):
                guards = []
                for i, p in enumerate(parents):
                    if p.get("k") == "If":
                        # are we in the then-branch?
                        nxt = parents[i + 1] if i + 1 < len(parents) else n
                        if p.get("t") is nxt or p.get("t") == nxt:
                            guards.append(txt(p["c"]))
                key = "%s:set_difference" % short(fn["patq"])
                ok = any("a.is_ordered()" in g and "b.is_ordered()" in g and "&&" in g and "||" not in g for g in guards)
                if ok:
                    out.append(ob("theta.early-stop", key, n["loc"], "discharged", "sort-based difference only under a.is_ordered() && b.is_ordered()", fn["qname"]))
                else:
                    out.append(ob("theta.early-stop", key, n["loc"], "violated", "std::set_difference requires both inputs sorted but is reached under guards %s" % guards, fn["qname"]))
        walkp(fn["body"], visit)
    return out


def emptiness_and_duplicates(facts):
    """hash_and_screen clears is_empty_ before any return; insert is control-dependent on a failed find."""
    fns = functions_by(facts, ["theta", "tuple"])
    out = []
    for pat, fn in sorted(fns.items()):
        if not in_family(fn):
            continue
        if fn["name"] == "hash_and_screen":
            st = stmts_of(fn["body"])
            cleared_at = None
            first_ret = None
            for i, s in enumerate(st):
                hit = [False]
                walk(s, lambda n: hit.__setitem__(0, True) if n.get("k") == "Assign" and field_name(n["l"]) == "is_empty_" and strip(n["r"]).get("k") == "Bool" and strip(n["r"])["b"] is False else None)
                if hit[0] and cleared_at is None:
                    cleared_at = i
                rets = [False]
                walk(s, lambda n: rets.__setitem__(0, True) if n.get("k") == "Return" else None)
                if rets[0] and first_ret is None:
                    first_ret = i
            key = "%s:clears-empty" % short(fn["patq"])
            if cleared_at is not None and (first_ret is None or cleared_at < first_ret or cleared_at == first_ret and False):
                out.append(ob("theta.empty", key, fn["pat"], "discharged", "is_empty_ = false precedes every return (a screened-out update still makes the sketch non-empty)", fn["qname"]))
            else:
                out.append(ob("theta.empty", key, fn["pat"], "violated", "a return can be reached before is_empty_ is cleared: a sketch whose only inputs were screened out would report empty", fn["qname"]))
        # insert under !found
        idx = [0]

        def visit(n, parents):
            if n.get("k") == "Call" and n.get("cname") == "insert" and (n.get("crec") or "").endswith("theta_update_sketch_base") and n.get("args"):
                it = strip_all(n["args"][0])
                if not (it.get("k") == "Member" and it.get("f") == "first"):
                    return
                res = txt(it["b"])
                key = "%s:insert#%d" % (short(fn["patq"]), idx[0])
                idx[0] += 1
                conds = []
                for i, p in enumerate(parents):
                    if p.get("k") == "If":
                        nxt = parents[i + 1] if i + 1 < len(parents) else None
                        branch = "t" if (nxt is not None and p.get("t") is nxt) else ("e" if (nxt is not None and p.get("e") is nxt) else None)
                        c = txt(p["c"])
                        conds.append((c, branch))
                # accepted: under `!res.second` then-branch, or else-branch of `res.second`, or preceded by `if (res.second) throw`
                ok = any((c == "!%s.second" % res and b == "t") or (c == "%s.second" % res and b == "e") for c, b in conds)
                if not ok:
                    # preceded in the same block by if (res.second) throw/return
                    for p in reversed(parents):
                        if p.get("k") == "Block":
                            for s in p["s"]:
                                if s.get("k") == "If" and txt(s["c"]) == "%s.second" % res and always_exits(s.get("t")):
                                    ok = True
                            break
                if ok:
                    out.append(ob("theta.dup", key, n["loc"], "discharged", "insert only when find() did not find the key", fn["qname"]))
                else:
                    # rebuild-style reinsert of known-distinct entries (intersection matched entries): find result not tested by design
                    out.append(ob("theta.dup", key, n["loc"], "info", "insert of `%s.first` without a test of `.second` (re-insertion of already distinct entries)" % res, fn["qname"]))
        walkp(fn["body"], visit)
    return out


def builder_reset(facts):
    """reset() restores theta and the starting size through the same helper functions the builder uses; a field that is
    re-read from a member after that member's reset() must be assigned after it."""
    fns = functions_by(facts, ["theta", "tuple"])
    out = []
    helper_calls = {}   # callee -> set of arg texts used by builder starting_* functions
    for pat, fn in fns.items():
        if in_family(fn) and fn["name"].startswith("starting_") and "builder" in (fn.get("rect") or ""):
            walk(fn["body"], lambda n: helper_calls.setdefault(n.get("callee"), set()).add(",".join(txt(a) for a in n.get("args", []))) if n.get("k") == "Call" and "theta_build_helper" in (n.get("callee") or "") else None)
    for pat, fn in sorted(fns.items()):
        if not in_family(fn) or fn["name"] != "reset" or "theta_update_sketch_base" not in (fn.get("rect") or ""):
            continue
        key = "%s:restores-start-theta" % short(fn["patq"])
        w = []
        walk(fn["body"], lambda n: w.append(n) if n.get("k") == "Assign" and n.get("op") == "=" and field_name(n["l"]) == "theta_" else None)
        if not w:
            out.append(ob("theta.reset", key, fn["pat"], "violated", "reset() does not restore theta", fn["qname"]))
            continue
        r = strip_all(w[-1]["r"])
        if r.get("k") == "Call" and r.get("callee") in helper_calls and ",".join(txt(a) for a in r.get("args", [])) in helper_calls[r["callee"]]:
            out.append(ob("theta.reset", key, w[-1]["loc"], "discharged", "reset() restores theta with %s, as the builder does" % txt(r), fn["qname"]))
        else:
            out.append(ob("theta.reset", key, w[-1]["loc"], "violated", "reset() sets theta to `%s`, but a freshly built sketch starts at %s: after reset() a sketch built with p < 1 no longer samples with probability p" % (txt(r), " / ".join("%s(%s)" % (short(c), ",".join(a)) for c, a in helper_calls.items() if "theta_from_p" in (c or ""))), fn["qname"]))
    # order rule: in any reset(), `f = m.x` must follow `m.reset()`
    for pat, fn in sorted(fns.items()):
        if not in_family(fn) or fn["name"] != "reset":
            continue
        st = stmts_of(fn["body"])
        reset_at = {}
        for i, s in enumerate(st):
            walk(s, lambda n: reset_at.setdefault(txt(n["obj"]), i) if n.get("k") == "Call" and n.get("cname") == "reset" and n.get("obj") is not None and strip(n["obj"]).get("k") == "Member" else None)
        for i, s in enumerate(st):
            e = s.get("e") if s.get("k") == "Expr" else None
            if e and e.get("k") == "Assign" and e.get("op") == "=" and is_this_field(e["l"]):
                r = strip_all(e["r"])
                if r.get("k") == "Member" and strip(r["b"]).get("k") == "Member":
                    m = txt(r["b"])
                    key = "%s:%s-after-%s.reset" % (short(fn["patq"]), field_name(e["l"]), m)
                    if m in reset_at:
                        if reset_at[m] < i:
                            out.append(ob("theta.reset", key, e["loc"], "discharged", "%s re-read after %s.reset()" % (txt(e["l"]), m), fn["qname"]))
                        else:
                            out.append(ob("theta.reset", key, e["loc"], "violated", "%s is copied from %s BEFORE %s.reset() runs: it keeps the pre-reset value (stale theta carried into the next batch)" % (txt(e["l"]), txt(r), m), fn["qname"]))
    return out


def seed_checks(facts):
    """the seed-hash comparison that throws precedes the first loop over an input's entries."""
    fns = functions_by(facts, ["theta", "tuple"])
    out = []
    for pat, fn in sorted(fns.items()):
        if not in_family(fn) or fn["name"] not in ("update", "compute"):
            continue
        rect = fn.get("rect") or ""
        if not any(x in rect for x in ("theta_union_base", "theta_intersection_base", "theta_set_difference_base")):
            continue
        st = stmts_of(fn["body"])
        first_loop = None
        checks = []
        for i, s in enumerate(st):
            has_loop = [False]
            walk(s, lambda n: has_loop.__setitem__(0, True) if n.get("k") == "RangeFor" or (n.get("k") == "Call" and (n.get("callee") or "").startswith(("std::set_difference", "std::copy_if"))) else None)
            if has_loop[0] and first_loop is None:
                first_loop = i
            if s.get("k") == "If" and first_loop is None:
                c = txt(s["c"])
                if "get_seed_hash()" in c and "!=" in c and always_exits(s.get("t")):
                    checks.append(c)
        # one check per sketch-typed parameter
        params = [p["n"] for p in fn["params"] if "sketch" in p["t"] or p["n"] in ("a", "b", "sketch")]
        for p in params:
            key = "%s:seed-check:%s" % (short(fn["patq"]), p)
            if any(("%s.get_seed_hash()" % p) in c for c in checks):
                out.append(ob("theta.seed", key, fn["pat"], "discharged", "seed hash of `%s` is compared (and a mismatch throws) before its entries are used" % p, fn["qname"]))
            else:
                out.append(ob("theta.seed", key, fn["pat"], "violated", "no seed-hash check of input `%s` before its entries are used: sketches built with different seeds would be combined" % p, fn["qname"]))
    return out


def rebuild_precondition(facts):
    """rebuild() places the pivot at index nominal_size of the consolidated entries: every call must be guarded by
    num_entries_ STRICTLY greater than the nominal size (or the capacity, which is larger)"""
    fns = functions_by(facts, ["theta", "tuple"])
    out = []
    for pat, fn in sorted(fns.items()):
        if fn.get("rect") != "datasketches::theta_update_sketch_base":
            continue
        idx = [0]

        def visit(n, parents):
            if n.get("k") == "Call" and n.get("cname") == "rebuild" and (n.get("crec") or "").endswith("theta_update_sketch_base"):
                key = "theta_update_sketch_base::%s:rebuild-precondition#%d" % (fn["name"], idx[0])
                idx[0] += 1
                ok = False
                seen = []
                # every comparison known to hold at the call (nested ifs, guard clauses, else branches alike)
                from astu import single_assignment_locals
                sa = single_assignment_locals(fn)
                unknown = False
                for c in reach(fn["body"], n):
                    g = gt_pair(c)
                    if g:
                        seen.append(txt(c))
                        big, small = txt(g[0]), txt(g[1], sa).replace(" ", "")
                        if big == "num_entries_" and g[2]:
                            if small.startswith("get_capacity(lg_cur_size_,lg_nom_size_") or small in ("(1<<lg_nom_size_)", "nominal_size"):
                                ok = True
                            else:
                                unknown = True   # a strict bound the rule cannot relate to the nominal size
                if ok:
                    out.append(ob("theta.rebuild-pre", key, n["loc"], "discharged", "rebuild() only when %s" % seen[0], fn["qname"]))
                elif unknown:
                    out.append(ob("theta.rebuild-pre", key, n["loc"], "unrecognised", "rebuild() is reached under %s: num_entries_ is strictly above a bound this rule cannot relate to the nominal size (expected get_capacity(lg_cur_size_, lg_nom_size_) or 1 << lg_nom_size_): re-review" % seen, fn["qname"]))
                else:
                    out.append(ob("theta.rebuild-pre", key, n["loc"], "violated", "rebuild() is reached under %s, which does not imply num_entries_ > nominal size: with exactly nominal-size entries the pivot index lies one past the consolidated entries, theta is read from an empty slot (theta becomes 0 / garbage)" % (seen or "no guard"), fn["qname"]))
        walkp(fn["body"], visit)
    return out


def intersection_emptiness(facts):
    """the intersection marks itself empty only on its OWN accumulated theta being MAX_THETA"""
    fns = functions_by(facts, ["theta", "tuple"])
    out = []
    for pat, fn in sorted(fns.items()):
        if fn.get("rect") != "datasketches::theta_intersection_base" or fn["name"] != "update":
            continue
        idx = [0]

        def visit(n, parents):
            # every way the flag can become true: `= true` under conditions, `|= c`, `= c`
            if not (n.get("k") == "Assign" and txt(n["l"]) == "table_.is_empty_"):
                return
            from astu import literals
            r = strip(n["r"])
            causes = []
            if n.get("op") == "=" and r.get("k") == "Bool":
                if r["b"] is not True:
                    return
                causes = [l for l in reach(fn["body"], n)]
            elif n.get("op") in ("|=", "="):
                causes = list(literals(n["r"]))
            else:
                return
            key = "theta_intersection_base::update:becomes-empty#%d" % idx[0]
            idx[0] += 1
            texts = [txt(c) for c in causes]
            # legitimate causes: the accumulated theta is still 1.0 (nothing was ever sampled out), or the input is an empty sketch
            own = [t for t in texts if "table_.theta_" in t and "==" in t and "sketch" not in t]
            inp = [t for t in texts if t.replace(" ", "") in ("sketch.is_empty()",)]
            if own or inp:
                out.append(ob("theta.intersection-empty", key, n["loc"], "discharged", "is_empty_ becomes true only if %s" % (own + inp)[0], fn["qname"]))
            else:
                out.append(ob("theta.intersection-empty", key, n["loc"], "violated", "the intersection marks itself empty under `%s`, which is neither a test of its own accumulated theta nor the input being empty: a result whose theta is already below 1 would be flagged empty (and all later updates ignored), depending on the order of inputs" % " && ".join(texts), fn["qname"]))
        walkp(fn["body"], visit)
    return out


def ordered_flag_validity(facts):
    """compact sketch constructors: is_ordered_ == true promises sorted entries to every consumer (early stop in union /
    intersection, set_difference in a-not-b, binary layouts).  For each constructor that fills entries_ from another sketch:
    with o := other.is_ordered(), p := the `ordered` parameter, f := the initialiser of is_ordered_ and g := the condition
    guarding std::sort(entries_), the implication  f(o,p) && !o  =>  g(o,p,f)  must hold for all four (o,p) (truth table)."""
    fns = functions_by(facts, ["theta", "tuple"])
    out = []

    def bev(e, env):
        e = strip_all(e)
        k = e.get("k")
        if k == "Bin" and e.get("op") in ("&&", "||"):
            a, b = bev(e["l"], env), bev(e["r"], env)
            if a is None or b is None:
                # three-valued
                if e["op"] == "&&":
                    return False if (a is False or b is False) else None
                return True if (a is True or b is True) else None
            return (a and b) if e["op"] == "&&" else (a or b)
        if k == "Un" and e.get("op") == "!":
            a = bev(e["e"], env)
            return None if a is None else (not a)
        if k == "Ref" and e.get("dk") == "param" and e.get("n") == "ordered":
            return env["p"]
        if k == "Call" and e.get("cname") == "is_ordered" and e.get("obj") is not None and strip_all(e["obj"]).get("k") == "Ref":
            return env["o"]
        if k == "Member" and e.get("f") == "is_ordered_" and strip_all(e.get("b") or {}).get("k") == "This":
            return env["f"]
        if k == "Call" and e.get("cname") == "is_ordered" and strip_all(e.get("obj") or {}).get("k") == "This":
            return env["f"]
        if k == "Bool" or (k in ("Int", "Cast") and "v" in e):
            return bool(e.get("v"))
        return None
    for pat, fn in sorted(fns.items()):
        if fn["kind"] != "ctor" and fn.get("special") is None and fn["name"] not in ("compact_theta_sketch_alloc", "compact_tuple_sketch"):
            continue
        if fn["name"] not in ("compact_theta_sketch_alloc", "compact_tuple_sketch") or fn.get("special"):
            continue
        ini = [i for i in fn.get("inits", []) if i.get("field") == "is_ordered_" and i.get("written")]
        if not ini or not any(p.get("n") == "ordered" for p in fn["params"]):
            continue
        f = ini[0]["e"]
        sorts = []

        def v(n, guards=()):
            pass
        # collect guards of std::sort calls
        def rec(n, guards):
            if isinstance(n, list):
                for x in n:
                    rec(x, guards)
                return
            if not isinstance(n, dict):
                return
            if n.get("k") == "If":
                rec(n.get("t"), guards + [n["c"]])
                if n.get("e") is not None:
                    rec(n["e"], guards + [{"k": "Un", "op": "!", "e": n["c"]}])
                return
            if n.get("k") == "Call" and (n.get("cname") == "sort" or (n.get("callee") or "").startswith("std::sort")):
                # everything known to hold at the call: nested ifs and guard clauses (`if (!c) return;`) alike
                sorts.append(list(reach(fn["body"], n)))
            for kk, vv in n.items():
                if kk not in ("t", "e") or n.get("k") != "If":
                    rec(vv, guards)
        rec(fn["body"], [])
        key = "%s(%s):ordered-flag-valid" % (short(fn["patq"]), ",".join(p["t"].split("<")[0].split("::")[-1].replace("const ", "").strip() for p in fn["params"]))
        bad = []
        for o in (False, True):
            for p in (False, True):
                fv = bev(f, {"o": o, "p": p, "f": None})
                if fv is None:
                    bad.append("is_ordered_ initialiser `%s` not understood" % txt(f))
                    continue
                if fv and not o:
                    # some sort must certainly run: a sort whose guards other than data-emptiness tests are all true
                    ran = False
                    for gs in sorts:
                        vals = [bev(g, {"o": o, "p": p, "f": fv}) for g in gs]
                        # guards that do not involve the three atoms (e.g. !other.is_empty()) are neutral: nothing to sort when empty
                        if all(x is True or x is None for x in vals) and any(x is True for x in vals):
                            ran = True
                    if not ran:
                        bad.append("other.is_ordered()=%s, ordered=%s: is_ordered_ becomes true but no std::sort(entries_) runs" % (str(o).lower(), str(p).lower()))
        if bad:
            out.append(ob("theta.ordered-flag", key, fn["pat"], "violated", "; ".join(bad) + " - the result claims sorted entries that are in hash-table order; ordered consumers (early stop in union/intersection, set_difference in a-not-b) then drop or keep the wrong keys", fn["qname"]))
        else:
            out.append(ob("theta.ordered-flag", key, fn["pat"], "discharged", "for all (other.is_ordered(), ordered): is_ordered_ && !other.is_ordered() implies the guarded std::sort runs", fn["qname"]))
    return out


# ----------------------------------------------------------------------------------------------
# path-sensitive result rules of the set operations

def _result_paths(fn, entries_d):
    """enumerate structured paths of fn up to each `return CS(is_empty, flag, seed, theta, move(entries))`; state:
    order in {'empty', True, False, ('preserve', name)}, trimmed in {True, False}, conds = [(expr, polarity)]"""
    results = []

    def touches(n):
        hit = [False]
        walk(n, lambda x: hit.__setitem__(0, True) if x.get("k") == "Ref" and x.get("d") == entries_d else None)
        return hit[0]

    def calls_named(n, names):
        out = []
        walk(n, lambda x: out.append(x) if x.get("k") == "Call" and (x.get("cname") in names) else None)
        return out

    def root_param(e):
        r = []
        walk(e, lambda x: r.append(x) if x.get("k") == "Ref" and x.get("dk") == "param" else None)
        return r[0]["n"] if r else None

    def apply(s, st):
        """straight-line effect of a non-branching statement on the state"""
        order, trimmed = st["order"], st["trimmed"]
        if not touches(s):
            return st
        if calls_named(s, ("sort",)):
            order = True
        elif calls_named(s, ("set_difference",)):
            order = True
            trimmed = False
        elif calls_named(s, ("nth_element",)):
            order = False
        elif calls_named(s, ("copy_if", "copy")) or calls_named(s, ("push_back", "emplace_back")):
            c = (calls_named(s, ("copy_if", "copy")) or [None])[0]
            src = root_param(c["args"][0]) if c is not None and c.get("args") else None
            if s.get("k") == "RangeFor":
                src = root_param(s.get("range"))
            order = ("preserve", src) if (src and order == "empty") else False
            trimmed = False
        return dict(st, order=order, trimmed=trimmed)

    def is_trim(s):
        if s.get("k") != "If" or s.get("e") is not None:
            return False
        c = txt(s["c"]).replace(" ", "")
        return bool(re.match(r"^\([A-Za-z_0-9]+\.size\(\)>", c)) and touches(s["c"]) and calls_named(s["t"], ("nth_element",)) and calls_named(s["t"], ("erase", "resize"))

    def run(stmts, states):
        for s in stmts:
            nxt = []
            for st in states:
                if st.get("done"):
                    nxt.append(st)
                    continue
                k = s.get("k")
                if k == "Return":
                    e = strip_all(s.get("e") or {})
                    while e.get("k") == "Construct" and len(e.get("args", [])) == 1:
                        e = strip_all(e["args"][0])
                    if e.get("k") == "Construct" and len(e.get("args", [])) == 5 and touches(e["args"][4]):
                        results.append(dict(st, flag=e["args"][1], loc=s["loc"]))
                    nxt.append(dict(st, done=True))
                elif k == "Throw" or (k == "Expr" and strip_all(s.get("e") or {}).get("k") == "Throw"):
                    nxt.append(dict(st, done=True))
                elif k == "If":
                    if is_trim(s):
                        a = run(stmts_of(s["t"]), [dict(st, conds=st["conds"] + [(s["c"], True)])])
                        for x in a:
                            nxt.append(dict(x, trimmed=True) if not x.get("done") else x)
                        nxt.append(dict(st, conds=st["conds"] + [(s["c"], False)], trimmed=True))
                    else:
                        nxt += run(stmts_of(s["t"]), [dict(st, conds=st["conds"] + [(s["c"], True)])])
                        if s.get("e") is not None:
                            nxt += run(stmts_of(s["e"]), [dict(st, conds=st["conds"] + [(s["c"], False)])])
                        else:
                            nxt.append(dict(st, conds=st["conds"] + [(s["c"], False)]))
                elif k == "Block":
                    nxt += run(stmts_of(s), [st])
                else:
                    nxt.append(apply(s, st))
            states = nxt
        return states
    run(stmts_of(fn["body"]), [{"order": "empty", "trimmed": True, "conds": []}])
    return results


def _beval(e, env):
    """three-valued evaluation over atoms: param `ordered` -> env['p']; X.is_ordered() -> env['o_X']"""
    e = strip_all(e)
    k = e.get("k")
    if k == "Bin" and e.get("op") in ("&&", "||"):
        a, b = _beval(e["l"], env), _beval(e["r"], env)
        if e["op"] == "&&":
            return False if (a is False or b is False) else (True if (a is True and b is True) else None)
        return True if (a is True or b is True) else (False if (a is False and b is False) else None)
    if k == "Un" and e.get("op") == "!":
        a = _beval(e["e"], env)
        return None if a is None else (not a)
    if k == "Ref" and e.get("dk") == "param" and e.get("n") == "ordered":
        return env.get("p")
    if k == "Call" and e.get("cname") == "is_ordered" and strip_all(e.get("obj") or {}).get("k") == "Ref":
        return env.get("o_" + strip_all(e["obj"])["n"])
    if k == "Bool":
        return bool(e.get("b", e.get("v")))
    return None


def result_claims(facts):
    """set-operation results, decided on every structured path to `return CS(is_empty, FLAG, seed, theta, move(entries))`:
    (a) ordered claim - for every truth assignment of `ordered` and each operand's is_ordered() consistent with the branch
    conditions of the path, FLAG true implies the entries were sorted on that path (std::sort / set_difference) or were copied in
    order from an operand that is itself ordered; (b) union only - every path that fills entries from the table passes the
    trim-to-nominal-size step (nth_element + theta update + erase) afterwards."""
    import itertools
    fns = functions_by(facts, ["theta", "tuple"])
    out = []
    for pat, fn in sorted(fns.items()):
        if fn["name"] not in ("get_result", "compute") or not any(x in fn["qname"] for x in ("theta_union_base", "theta_intersection_base", "theta_set_difference_base")):
            continue
        # the result vector: the local that is moved into the 5th constructor argument of a returned compact sketch
        cand = []

        def rv(n):
            if n.get("k") == "Return":
                e = strip_all(n.get("e") or {})
                while e.get("k") == "Construct" and len(e.get("args", [])) == 1:
                    e = strip_all(e["args"][0])
                if e.get("k") == "Construct" and len(e.get("args", [])) == 5:
                    walk(e["args"][4], lambda x: cand.append(x["d"]) if x.get("k") == "Ref" and x.get("dk") == "local" else None)
        walk(fn["body"], rv)
        if not cand:
            continue
        paths = _result_paths(fn, cand[0])
        base = short(fn["patq"])
        if not paths:
            out.append(ob("theta.result-claim", base + ":paths", fn["pat"], "unrecognised", "no `return CS(is_empty, flag, seed, theta, move(entries))` reached", fn["qname"]))
            continue
        atoms = {"p"}
        for pth in paths:
            for c, _ in pth["conds"] + [(pth["flag"], True)]:
                walk(c, lambda x: atoms.add("o_" + strip_all(x["obj"])["n"]) if x.get("k") == "Call" and x.get("cname") == "is_ordered" and strip_all(x.get("obj") or {}).get("k") == "Ref" else None)
            if isinstance(pth["order"], tuple) and pth["order"][1]:
                atoms.add("o_" + pth["order"][1])
        atoms = sorted(atoms)
        bad_order, bad_trim = [], []
        for pth in paths:
            for vals in itertools.product((False, True), repeat=len(atoms)):
                env = dict(zip(atoms, vals))
                if any((_beval(c, env) is not None) and (_beval(c, env) != pol) for c, pol in pth["conds"]):
                    continue
                fl = _beval(pth["flag"], env)
                if fl is None:
                    bad_order.append("flag `%s` not understood" % txt(pth["flag"]))
                    break
                if not fl:
                    continue
                o = pth["order"]
                ok = o is True or o == "empty" or (isinstance(o, tuple) and env.get("o_%s" % o[1]) is True)
                if not ok:
                    bad_order.append("path [%s] with %s: flag `%s` is true but the entries are %s" % (
                        " && ".join(("" if pol else "!") + txt(c)[:50] for c, pol in pth["conds"]) or "straight", ", ".join("%s=%s" % (a.replace("o_", "") + (".is_ordered()" if a.startswith("o_") else "").replace("p", "ordered") if a != "p" else "ordered", str(v).lower()) for a, v in env.items()),
                        txt(pth["flag"]), "in the order of unordered operand `%s`" % o[1] if isinstance(o, tuple) else "not sorted on this path"))
                    break
            if "theta_union_base" in fn["qname"] and not pth["trimmed"]:
                bad_trim.append("path [%s]" % (" && ".join(("" if pol else "!") + txt(c)[:50] for c, pol in pth["conds"]) or "straight"))
        k1 = base + ":ordered-claim"
        if bad_order:
            out.append(ob("theta.result-claim", k1, paths[0]["loc"], "violated", bad_order[0] + " - the result claims is_ordered() over unsorted entries; ordered consumers (early stop in union / intersection, set_difference) then drop or keep the wrong keys", fn["qname"]))
        else:
            out.append(ob("theta.result-claim", k1, paths[0]["loc"], "discharged", "%d paths x %d atoms: the ordered flag implies sorted entries on every path" % (len(paths), len(atoms)), fn["qname"]))
        if "theta_union_base" in fn["qname"]:
            k2 = base + ":trimmed"
            if bad_trim:
                out.append(ob("theta.result-claim", k2, paths[0]["loc"], "violated", "%s fills the result from the table without passing the trim to the nominal size afterwards (nth_element, theta := (k+1)-th hash, erase): the union result can retain more than k hashes with a theta that is not the (k+1)-th smallest" % bad_trim[0], fn["qname"]))
            else:
                out.append(ob("theta.result-claim", k2, paths[0]["loc"], "discharged", "every filling path passes the trim to the nominal size", fn["qname"]))
    return out


def inferred_emptiness(facts):
    """results built with compact_sketch(is_empty, ordered, seed_hash, theta, entries): 'empty' means that no data was ever seen, which
    is not the same as retaining no entries.  The flag may be copied from a source's own flag, but it may be INFERRED from
    `entries.empty()` only together with theta == MAX (not in estimation mode): an estimation-mode result without entries still
    carries theta < 1, and consumers skip empty operands (a union would ignore its theta, an intersection would return exact
    emptiness).  Truth table over S = a source's empty flag, E = no entries, M = estimation mode on the flag expression (local
    flag variables are expanded into their guarded definitions): flag && !S  =>  !M."""
    import itertools
    fns = functions_by(facts, ["theta", "tuple"])
    out = []
    n = 0

    def atom(e):
        e = strip_all(e)
        k = e.get("k")
        if k == "Call" and e.get("cname") == "is_empty":
            return "S"
        if k == "Member" and e.get("f") == "is_empty_":
            return "S"
        if k == "Call" and e.get("cname") == "empty":
            return "E"
        if k == "Bin" and e.get("op") in ("==", "!=") and any(isinstance(strip_all(e[a]), dict) and strip_all(e[a]).get("k") == "Int" and strip_all(e[a]).get("v") == 0 for a in ("l", "r")) \
                and any(isinstance(strip_all(e[a]), dict) and strip_all(e[a]).get("k") == "Call" and strip_all(e[a]).get("cname") == "size" for a in ("l", "r")):
            return "E" if e["op"] == "==" else "!E"      # the normalised form of X.empty()
        if k == "Call" and e.get("cname") == "is_estimation_mode":
            return "M"
        if k == "Bin" and e.get("op") in ("==", "!=", "<") and ("MAX_THETA" in txt(e) or "9223372036854775807" in txt(e)):
            return {"==": "!M", "!=": "M", "<": "M"}[e["op"]]
        return None

    def ev(e, env, defs, depth=0):
        e = strip_all(e)
        a = atom(e)
        if a:
            return (not env[a[1:]]) if a.startswith("!") else env[a]
        k = e.get("k")
        if k == "Bool":
            return bool(e.get("b", e.get("v")))
        if k == "Bin" and e.get("op") in ("&&", "||"):
            x, y = ev(e["l"], env, defs, depth + 1), ev(e["r"], env, defs, depth + 1)
            if e["op"] == "&&":
                return False if (x is False or y is False) else (True if (x is True and y is True) else None)
            return True if (x is True or y is True) else (False if (x is False and y is False) else None)
        if k == "Un" and e.get("op") == "!":
            x = ev(e["e"], env, defs, depth + 1)
            return None if x is None else (not x)
        if k == "Ref" and e.get("dk") == "local" and e.get("d") in defs and depth < 4:
            val = None
            for guard, rhs in defs[e["d"]]:
                g = True if guard is None else ev(guard, env, defs, depth + 1)
                r = ev(rhs, env, defs, depth + 1)
                if g is None or r is None:
                    return None
                if g:
                    val = r
            return val
        if k == "Ref" and e.get("dk") == "param" and (e.get("t") or "") == "bool":
            return env.get("S")  # a flag handed in by the caller counts as a source flag
        return None
    for pat, fn in sorted(fns.items()):
        if fn["name"].startswith("deserialize"):
            continue  # readers take the flag from the image
        cons = []
        guards_of = {}

        def cv(x, ps):
            if x.get("k") == "Construct" and len(x.get("args", [])) == 5 and any(t in (x.get("t") or "") for t in ("compact_theta_sketch_alloc", "compact_tuple_sketch")) and (strip_all(x["args"][0]).get("t") or "bool").replace("const ", "") == "bool":
                cons.append(x)
                gs = []
                chain = list(ps) + [x]
                for i, p_ in enumerate(chain[:-1]):
                    if p_.get("k") == "If":
                        nxt = chain[i + 1]
                        inthen = False
                        walk(p_.get("t"), lambda y: None)
                        found = [False]
                        walk(p_.get("t"), lambda y: found.__setitem__(0, True) if y is x else None)
                        if found[0]:
                            gs.append(p_["c"])
                guards_of[id(x)] = gs
        walkp(fn["body"], cv)
        if not cons:
            continue
        # guarded definitions of bool locals (top-level statements only)
        defs = {}
        for s in stmts_of(fn["body"]):
            if s.get("k") == "Decl":
                for v in s.get("vars", []):
                    if (v.get("t") or "").replace("const ", "") == "bool" and v.get("init") is not None:
                        defs.setdefault(v["d"], []).append((None, v["init"]))
            if s.get("k") == "If" and s.get("e") is None:
                for b in stmts_of(s["t"]):
                    if b.get("k") == "Expr":
                        a = strip(b["e"])
                        if a.get("k") == "Assign" and a.get("op") == "=" and strip_all(a["l"]).get("k") == "Ref":
                            defs.setdefault(strip_all(a["l"])["d"], []).append((s["c"], a["r"]))
        for j, c in enumerate(cons):
            flag = c["args"][0]
            uses_E = []
            walk(flag, lambda x: uses_E.append(x) if atom(x) == "E" else None)
            expanded = []
            walk(flag, lambda x: expanded.append(x) if x.get("k") == "Ref" and x.get("d") in defs else None)
            for x in expanded:
                for g, r in defs[x["d"]]:
                    walk(r, lambda y: uses_E.append(y) if atom(y) == "E" else None)
                    if g is not None:
                        walk(g, lambda y: uses_E.append(y) if atom(y) == "E" else None)
            n += 1
            key = "%s:result#%d:inferred-emptiness" % (short(fn["patq"]), j)
            bad = None
            undecided = False
            for S, E, M in itertools.product((False, True), repeat=3):
                env = {"S": S, "E": E, "M": M}
                v = ev(flag, env, defs)
                if v is None:
                    undecided = True
                    break
                gv = [ev(g, env, defs) for g in guards_of.get(id(c), [])]
                if any(g is False for g in gv):
                    continue  # this assignment does not reach the construction
                if any(g is None for g in gv) and v:
                    # reached under a condition we cannot evaluate: only a flag that depends on E can be judged
                    if not uses_E:
                        undecided = True
                        break
                if v and not S and M:
                    bad = "no source flag set, entries %s, estimation mode: the result is flagged empty" % ("empty" if E else "present")
                    break
            if undecided:
                out.append(ob("theta.empty-flag", key, c["loc"], "info", "empty flag `%s` is not a function of source flags / entries / theta (forwarded value)" % txt(flag)[:60], fn["qname"]))
            elif bad:
                out.append(ob("theta.empty-flag", key, c["loc"], "violated", "%s (flag `%s`): 'no retained entries' was taken for 'never saw data' although theta < 1 - set operations skip empty operands, so the result's theta is ignored by a union and an intersection with it returns exact emptiness" % (bad, txt(flag)[:70]), fn["qname"]))
            else:
                out.append(ob("theta.empty-flag", key, c["loc"], "discharged", "flag `%s`: emptiness is copied from a source or inferred from `no entries` only when theta == MAX" % txt(flag)[:60], fn["qname"]))
    if n < 4:
        out.append(ob("theta.empty-flag", "anchor", "", "unrecognised", "only %d result constructions found" % n, ""))
    return out


def entry_bits_cover_all_deltas(facts):
    """compact theta v4 (compressed) images store deltas of the ordered hashes in `entry_bits` bits each, the first delta being the
    smallest hash itself (previous = 0).  compute_entry_bits() therefore ORs `entry - previous` over ALL entries starting from
    previous = 0; a scan that starts at the second entry sizes the fields for the gaps only and the first hash loses its high bits
    whenever it is wider than every gap."""
    from astu import single_assignment_locals, loops_of
    fns = functions_by(facts, ["theta"])
    out = []
    for pat, fn in sorted(fns.items()):
        if fn["name"] != "compute_entry_bits" or "compact_theta_sketch_alloc" not in (fn.get("rect") or ""):
            continue
        key = "compact_theta_sketch_alloc::compute_entry_bits:first-delta-from-zero"
        loops = []
        walk(fn["body"], lambda n: loops.append(n) if n.get("k") in ("For", "RangeFor", "While", "Do") else None)
        if len(loops) != 1:
            out.append(ob("theta.entry-bits", key, fn["pat"], "unrecognised", "%d loops in compute_entry_bits" % len(loops), fn["qname"]))
            continue
        L = loops[0]
        if L.get("k") != "RangeFor" or txt(L.get("range")).replace(" ", "") not in ("entries_", "this->entries_"):
            start = "?"
            if L.get("k") == "For" and isinstance(L.get("init"), dict) and L["init"].get("k") == "Decl" and L["init"].get("vars"):
                start = txt(L["init"]["vars"][0].get("init"))
            out.append(ob("theta.entry-bits", key, L.get("loc", fn["pat"]), "violated", "the scan over the entries starts at `%s` / is not a loop over all of entries_: the first delta (the smallest hash itself, counted from 0) is not covered by entry_bits, so the first hash of a compressed image loses its high bits when it is wider than every gap" % start, fn["qname"]))
            continue
        E = (L.get("var") or {}).get("d")
        sa = single_assignment_locals(fn)
        ors = []
        walk(L.get("b"), lambda n: ors.append(n) if n.get("k") == "Assign" and n.get("op") == "|=" else None)
        def res(x):
            x = strip_all(x)
            while isinstance(x, dict) and x.get("k") == "Ref" and x.get("d") in sa and x.get("d") != E:
                x = strip_all(sa[x["d"]])
            return x if isinstance(x, dict) else {}
        prevs = []
        walk(L.get("b"), lambda n: prevs.append(n) if n.get("k") == "Assign" and n.get("op") == "=" and strip_all(n["l"]).get("k") == "Ref" and res(n["r"]).get("k") == "Ref" and res(n["r"]).get("d") == E else None)
        ok = False
        why = "no `ored |= entry - previous` with `previous = entry` found"
        if len(ors) == 1 and len(prevs) == 1:
            P = strip_all(prevs[0]["l"])["d"]
            r = strip_all(ors[0]["r"])
            while r.get("k") == "Ref" and r.get("d") in sa:
                r = strip_all(sa[r["d"]])
            pinit = [v for v in local_decls(fn).values() if v.get("d") == P]
            if r.get("k") == "Bin" and r.get("op") == "-" and res(r["l"]).get("d") == E and strip_all(r["r"]).get("d") == P and pinit and strip_all(pinit[0].get("init") or {}).get("v") == 0:
                ok = True
            else:
                why = "the accumulated value is `%s` with previous initialised to `%s`" % (txt(ors[0]["r"], sa), txt(pinit[0].get("init")) if pinit else "?")
        out.append(ob("theta.entry-bits", key, L.get("loc", fn["pat"]), "discharged" if ok else "unrecognised", "entry_bits covers entry - previous for every entry, previous starting at 0" if ok else why, fn["qname"]))
    return out
