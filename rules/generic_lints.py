"""Repository-wide contradiction / copy-paste rules (Engler-style), armed because their expected count on the reviewed tree
is zero; a tiny positive control is analysed on every run (selftest/fixtures are not needed: the control is synthesised
in memory from the same node shapes)."""
from astu import strip, walk, txt, short, functions_by
from vlib.core import ob


def chain(e, op):
    e = strip(e)
    if isinstance(e, dict) and e.get("k") == "Bin" and e.get("op") == op:
        return chain(e["l"], op) + chain(e["r"], op)
    return [e]


def duplicate_conjuncts(facts, fams=None):
    """`A && B && A` / `A || A`: a repeated operand in one logical chain is a copy-paste slip (the intended peer is missing)"""
    fns = functions_by(facts)
    out = []
    n_chains = 0
    for pat, fn in sorted(fns.items()):
        if fams and not any(pat.startswith(f) for f in fams):
            continue
        idx = [0]
        seen_nodes = set()

        def v(n):
            nonlocal n_chains
            if n.get("k") == "Bin" and n.get("op") in ("&&", "||") and id(n) not in seen_nodes:
                ops = chain(n, n["op"])
                # mark sub-chains as seen
                def mark(x):
                    x = strip(x)
                    if isinstance(x, dict) and x.get("k") == "Bin" and x.get("op") == n["op"]:
                        seen_nodes.add(id(x))
                        mark(x["l"])
                        mark(x["r"])
                mark(n)
                if len(ops) < 2:
                    return
                n_chains += 1
                texts = [txt(o) for o in ops]
                pure = [t for o, t in zip(ops, texts) if not _has_side_effect(o)]
                dups = sorted({t for t in pure if pure.count(t) > 1})
                if dups:
                    key = "%s:duplicate-operand#%d" % (short(fn["patq"]), idx[0])
                    idx[0] += 1
                    out.append(ob("lint.duplicate-conjunct", key, n["loc"], "violated", "`%s` appears twice in one `%s` chain (%s): the second occurrence was meant to test a different operand (copy-paste of the wrong peer)" % (dups[0], n["op"], " %s " % n["op"] + " ".join(texts)[:160]), fn["qname"]))
        walk(fn["body"], v)
    out.append(ob("lint.duplicate-conjunct", "all:chains-scanned", "", "discharged", "%d logical chains scanned, %d with a repeated operand" % (n_chains, len(out)), ""))
    # positive control: a synthesised chain with a repeated operand must be recognised
    ctl = {"k": "Bin", "op": "&&", "t": "bool", "loc": "control", "l": {"k": "Ref", "n": "a", "d": 1, "dk": "local"}, "r": {"k": "Ref", "n": "a", "d": 1, "dk": "local"}}
    ops = [txt(o) for o in chain(ctl, "&&")]
    ok = len(ops) == 2 and ops[0] == ops[1]
    out.append(ob("lint.duplicate-conjunct", "control:positive", "", "discharged" if ok else "unrecognised", "positive control `a && a` is recognised" if ok else "positive control not recognised", ""))
    return out


def _has_side_effect(e):
    hit = [False]
    walk(e, lambda n: hit.__setitem__(0, True) if n.get("k") in ("Assign",) or (n.get("k") == "Un" and n.get("op") in ("++", "--")) or (n.get("k") == "Call" and (n.get("cname") or "").startswith(("read", "next", "random"))) else None)
    return hit[0]


def tautologies(facts, fams=None):
    """x == x / x < x / x = x / min(x, x) / identical if-else arms: the second operand was meant to be a different variable"""
    fns = functions_by(facts)
    out = []
    scanned = 0
    for pat, fn in sorted(fns.items()):
        if fams and not any(pat.startswith(f) for f in fams):
            continue
        idx = [0]

        def rep(n, what):
            key = "%s:tautology#%d" % (short(fn["patq"]), idx[0])
            idx[0] += 1
            out.append(ob("lint.tautology", key, n.get("loc", fn["pat"]), "violated", what, fn["qname"]))

        def v(n):
            nonlocal scanned
            k = n.get("k")
            if k == "Bin" and n.get("op") in ("==", "!=", "<", ">", "<=", ">=", "-", "&&", "||"):
                scanned += 1
                if not _has_side_effect(n) and txt(n["l"]) == txt(n["r"]) and strip(n["l"]).get("k") not in ("Int", "Float", "Bool") and "v" not in strip(n["l"]):
                    rep(n, "`%s`: both operands are the same expression (the second was meant to be a different variable)" % txt(n))
            if k == "Assign" and n.get("op") == "=" and not _has_side_effect(n["r"]) and txt(n["l"]) == txt(n["r"]):
                rep(n, "`%s` assigns a variable to itself" % txt(n))
            if k == "Call" and (n.get("callee") or "").startswith(("std::min", "std::max", "std::swap")) and len(n.get("args", [])) == 2:
                scanned += 1
                if txt(n["args"][0]) == txt(n["args"][1]) and not _has_side_effect(n):
                    rep(n, "`%s`: both arguments are the same expression" % txt(n))
            if k == "If" and n.get("e") is not None and n.get("t") is not None:
                scanned += 1
                a, b = txt_stmt(n["t"]), txt_stmt(n["e"])
                if a and a == b:
                    rep(n, "both arms of `if (%s)` are identical (`%s`)" % (txt(n["c"]), a[:80]))
        walk(fn["body"], v)
    out.append(ob("lint.tautology", "all:expressions-scanned", "", "discharged", "%d comparisons / calls / if-else pairs scanned, %d tautologies" % (scanned, len(out)), ""))
    ctl = {"k": "Bin", "op": "==", "l": {"k": "Ref", "n": "a", "d": 1, "dk": "local"}, "r": {"k": "Ref", "n": "a", "d": 1, "dk": "local"}}
    ok = txt(ctl["l"]) == txt(ctl["r"])
    out.append(ob("lint.tautology", "control:positive", "", "discharged" if ok else "unrecognised", "positive control `a == a` is recognised", ""))
    return out


def txt_stmt(s):
    from astu import stmts_of
    parts = []
    for x in stmts_of(s):
        if x.get("k") in ("Expr", "Return"):
            parts.append(txt(x.get("e")))
        else:
            return None
    return ";".join(parts)


def forwarding_peers(facts, fams=None):
    """typed overload families: `R f(T x) { return f(&x, sizeof x); }`.  A one-statement forwarder must forward to an overload of
    its OWN name; forwarding to the head of a different family (get_lower_bound(int64_t) -> get_upper_bound(const void*, size_t))
    although an overload of its own name with that arity exists is a copy-paste of the wrong peer."""
    from astu import stmts_of, strip_all
    import collections
    fns = functions_by(facts)
    byrec = collections.defaultdict(lambda: collections.defaultdict(list))
    single = {}
    for pat, fn in fns.items():
        if not fn.get("rect") or fn["kind"] != "method" or fn.get("body") is None:
            continue
        byrec[fn["rect"]][fn["name"]].append(fn)
        st = stmts_of(fn["body"])
        if len(st) != 1 or st[0].get("k") not in ("Return", "Expr"):
            continue
        e = strip_all(st[0].get("e") or {})
        if e.get("k") == "Call" and e.get("member") and strip_all(e.get("obj") or {}).get("k") == "This" and (e.get("crec") or "") == fn["rect"].split("<")[0]:
            single[pat] = (fn, e)
    heads = collections.defaultdict(set)  # rect -> names that are forwarded to by same-named overloads
    for pat, (fn, e) in single.items():
        if e["cname"] == fn["name"]:
            heads[fn["rect"]].add(fn["name"])
    out = []
    n = 0
    for pat, (fn, e) in sorted(single.items()):
        if fams and not any(pat.startswith(f) for f in fams):
            continue
        if fn["name"] not in heads[fn["rect"]] and e["cname"] not in heads[fn["rect"]]:
            continue
        n += 1
        key = "%s(%s):forwards-to-own-family" % (short(fn["patq"]), ",".join(p["t"] for p in fn["params"]))
        if e["cname"] == fn["name"]:
            out.append(ob("lint.forwarding-peer", key, e["loc"], "discharged", "forwards to %s(%d args)" % (e["cname"], len(e.get("args", []))), fn["qname"]))
            continue
        own = [g for g in byrec[fn["rect"]][fn["name"]] if g is not fn and len(g["params"]) == len(e.get("args", []))]
        if e["cname"] in heads[fn["rect"]] and own:
            out.append(ob("lint.forwarding-peer", key, e["loc"], "violated", "%s(%s) forwards to %s(...) although %s has its own overload with %d parameter(s): wrong peer - this overload answers a different question than its siblings" % (fn["name"], ",".join(p["t"] for p in fn["params"]), e["cname"], fn["name"], len(e.get("args", []))), fn["qname"]))
        else:
            out.append(ob("lint.forwarding-peer", key, e["loc"], "info", "forwards to helper %s" % e["cname"], fn["qname"]))
    out.append(ob("lint.forwarding-peer", "all:forwarders-scanned", "", "discharged", "%d one-statement forwarders in overload families scanned" % n, ""))
    return out
