"""Repository-wide contradiction / copy-paste rules (Engler-style), armed because their expected count on the reviewed tree
is zero; a tiny positive control is analysed on every run (selftest/fixtures are not needed: the control is synthesised
in memory from the same node shapes)."""
from astu import C, ctxt, gt_pair, eq_const, reach, reach_txt, ctext, strip, walk, txt, short, functions_by
from vlib.core import ob


def chain(e, op):
    e = strip(e)
    if isinstance(e, dict) and e.get("k") == "Bin" and e.get("op") == op:
        return chain(e["l"], op) + chain(e["r"], op)
    return [e]


def duplicate_conjuncts(facts, fams=None):
    """`A && B && A` / `A || A`: a repeated operand in one logical chain is a copy-paste slip (the intended peer is missing)"""
    fns = functions_by(facts)
    out = []
    n_chains = 0
    for pat, fn in sorted(fns.items()):
        if fams and not any(pat.startswith(f) for f in fams):
            continue
        idx = [0]
        seen_nodes = set()

        def v(n):
            nonlocal n_chains
            if n.get("k") == "Bin" and n.get("op") in ("&&", "||") and id(n) not in seen_nodes:
                ops = chain(n, n["op"])
                # mark sub-chains as seen
                def mark(x):
                    x = strip(x)
                    if isinstance(x, dict) and x.get("k") == "Bin" and x.get("op") == n["op"]:
                        seen_nodes.add(id(x))
                        mark(x["l"])
                        mark(x["r"])
                mark(n)
                if len(ops) < 2:
                    return
                n_chains += 1
                texts = [txt(o) for o in ops]
                pure = [t for o, t in zip(ops, texts) if not _has_side_effect(o)]
                dups = sorted({t for t in pure if pure.count(t) > 1})
                if dups:
                    key = "%s:duplicate-operand#%d" % (short(fn["patq"]), idx[0])
                    idx[0] += 1
                    out.append(ob("lint.duplicate-conjunct", key, n["loc"], "violated", "`%s` appears twice in one `%s` chain (%s): the second occurrence was meant to test a different operand (copy-paste of the wrong peer)" % (dups[0], n["op"], " %s " % n["op"] + " ".join(texts)[:160]), fn["qname"]))
        walk(fn["body"], v)
    out.append(ob("lint.duplicate-conjunct", "all:chains-scanned", "", "discharged", "%d logical chains scanned, %d with a repeated operand" % (n_chains, len(out)), ""))
    # positive control: a synthesised chain with a repeated operand must be recognised
    ctl = {"k": "Bin", "op": "&&", "t": "bool", "loc": "control", "l": {"k": "Ref", "n": "a", "d": 1, "dk": "local"}, "r": {"k": "Ref", "n": "a", "d": 1, "dk": "local"}}
    ops = [txt(o) for o in chain(ctl, "&&")]
    ok = len(ops) == 2 and ops[0] == ops[1]
    out.append(ob("lint.duplicate-conjunct", "control:positive", "", "discharged" if ok else "unrecognised", "positive control `a && a` is recognised" if ok else "positive control not recognised", ""))
    return out


def _has_side_effect(e):
    hit = [False]
    walk(e, lambda n: hit.__setitem__(0, True) if n.get("k") in ("Assign",) or (n.get("k") == "Un" and n.get("op") in ("++", "--")) or (n.get("k") == "Call" and (n.get("cname") or "").startswith(("read", "next", "random"))) else None)
    return hit[0]


def tautologies(facts, fams=None):
    """x == x / x < x / x = x / min(x, x) / identical if-else arms: the second operand was meant to be a different variable"""
    fns = functions_by(facts)
    out = []
    scanned = 0
    for pat, fn in sorted(fns.items()):
        if fams and not any(pat.startswith(f) for f in fams):
            continue
        idx = [0]

        def rep(n, what):
            key = "%s:tautology#%d" % (short(fn["patq"]), idx[0])
            idx[0] += 1
            out.append(ob("lint.tautology", key, n.get("loc", fn["pat"]), "violated", what, fn["qname"]))

        def v(n):
            nonlocal scanned
            k = n.get("k")
            if k == "Bin" and n.get("op") in ("==", "!=", "<", ">", "<=", ">=", "-", "&&", "||"):
                scanned += 1
                if not _has_side_effect(n) and txt(n["l"]) == txt(n["r"]) and strip(n["l"]).get("k") not in ("Int", "Float", "Bool") and "v" not in strip(n["l"]):
                    rep(n, "`%s`: both operands are the same expression (the second was meant to be a different variable)" % txt(n))
            if k == "Assign" and n.get("op") == "=" and not _has_side_effect(n["r"]) and txt(n["l"]) == txt(n["r"]):
                rep(n, "`%s` assigns a variable to itself" % txt(n))
            if k == "Call" and (n.get("callee") or "").startswith(("std::min", "std::max", "std::swap")) and len(n.get("args", [])) == 2:
                scanned += 1
                if txt(n["args"][0]) == txt(n["args"][1]) and not _has_side_effect(n):
                    rep(n, "`%s`: both arguments are the same expression" % txt(n))
            if k == "If" and n.get("e") is not None and n.get("t") is not None:
                scanned += 1
                a, b = txt_stmt(n["t"]), txt_stmt(n["e"])
                if a and a == b:
                    rep(n, "both arms of `if (%s)` are identical (`%s`)" % (txt(n["c"]), a[:80]))
        walk(fn["body"], v)
    out.append(ob("lint.tautology", "all:expressions-scanned", "", "discharged", "%d comparisons / calls / if-else pairs scanned, %d tautologies" % (scanned, len(out)), ""))
    ctl = {"k": "Bin", "op": "==", "l": {"k": "Ref", "n": "a", "d": 1, "dk": "local"}, "r": {"k": "Ref", "n": "a", "d": 1, "dk": "local"}}
    ok = txt(ctl["l"]) == txt(ctl["r"])
    out.append(ob("lint.tautology", "control:positive", "", "discharged" if ok else "unrecognised", "positive control `a == a` is recognised", ""))
    return out


def txt_stmt(s):
    from astu import stmts_of
    parts = []
    for x in stmts_of(s):
        if x.get("k") in ("Expr", "Return"):
            parts.append(txt(x.get("e")))
        else:
            return None
    return ";".join(parts)


def forwarding_peers(facts, fams=None):
    """typed overload families: `R f(T x) { return f(&x, sizeof x); }`.  A one-statement forwarder must forward to an overload of
    its OWN name; forwarding to the head of a different family (get_lower_bound(int64_t) -> get_upper_bound(const void*, size_t))
    although an overload of its own name with that arity exists is a copy-paste of the wrong peer."""
    from astu import stmts_of, strip_all
    import collections
    fns = functions_by(facts)
    byrec = collections.defaultdict(lambda: collections.defaultdict(list))
    single = {}
    for pat, fn in fns.items():
        if not fn.get("rect") or fn["kind"] != "method" or fn.get("body") is None:
            continue
        byrec[fn["rect"]][fn["name"]].append(fn)
        st = stmts_of(fn["body"])
        if len(st) != 1 or st[0].get("k") not in ("Return", "Expr"):
            continue
        e = strip_all(st[0].get("e") or {})
        if e.get("k") == "Call" and e.get("member") and strip_all(e.get("obj") or {}).get("k") == "This" and (e.get("crec") or "") == fn["rect"].split("<")[0]:
            single[pat] = (fn, e)
    heads = collections.defaultdict(set)  # rect -> names that are forwarded to by same-named overloads
    for pat, (fn, e) in single.items():
        if e["cname"] == fn["name"]:
            heads[fn["rect"]].add(fn["name"])
    out = []
    n = 0
    for pat, (fn, e) in sorted(single.items()):
        if fams and not any(pat.startswith(f) for f in fams):
            continue
        if fn["name"] not in heads[fn["rect"]] and e["cname"] not in heads[fn["rect"]]:
            continue
        n += 1
        key = "%s(%s):forwards-to-own-family" % (short(fn["patq"]), ",".join(p["t"] for p in fn["params"]))
        if e["cname"] == fn["name"]:
            out.append(ob("lint.forwarding-peer", key, e["loc"], "discharged", "forwards to %s(%d args)" % (e["cname"], len(e.get("args", []))), fn["qname"]))
            continue
        own = [g for g in byrec[fn["rect"]][fn["name"]] if g is not fn and len(g["params"]) == len(e.get("args", []))]
        if e["cname"] in heads[fn["rect"]] and own:
            out.append(ob("lint.forwarding-peer", key, e["loc"], "violated", "%s(%s) forwards to %s(...) although %s has its own overload with %d parameter(s): wrong peer - this overload answers a different question than its siblings" % (fn["name"], ",".join(p["t"] for p in fn["params"]), e["cname"], fn["name"], len(e.get("args", []))), fn["qname"]))
        else:
            out.append(ob("lint.forwarding-peer", key, e["loc"], "info", "forwards to helper %s" % e["cname"], fn["qname"]))
    out.append(ob("lint.forwarding-peer", "all:forwarders-scanned", "", "discharged", "%d one-statement forwarders in overload families scanned" % n, ""))
    return out


def vacuous_loops(facts, fams=None):
    """`X = A; ... for (i = A; i < X; ++i) body` in one block with no write to X (or to A's variables) in between: the loop can never
    run - the bound was meant to be the value X had BEFORE it was reset (stale-bound slip; destructors / copies in the body are
    silently skipped)."""
    from astu import stmts_of, strip_all, is_this_field
    fns = functions_by(facts)
    out = []
    nloops = 0

    def blocks(n, acc):
        if isinstance(n, dict):
            if n.get("k") == "Block":
                acc.append(n)
            for v in n.values():
                blocks(v, acc)
        elif isinstance(n, list):
            for v in n:
                blocks(v, acc)
        return acc

    def lhs_name(e):
        e = strip_all(e)
        if e.get("k") == "Ref":
            return "L%s" % e.get("d")
        if e.get("k") == "Member" and e.get("isfield") and strip_all(e.get("b") or {}).get("k") == "This":
            return "F" + e["f"]
        return None

    def written(n):
        w = set()
        calls = [False]

        def v(x):
            if x.get("k") == "Assign":
                nm = lhs_name(x["l"])
                if nm:
                    w.add(nm)
            if x.get("k") == "Un" and x.get("op") in ("++", "--"):
                nm = lhs_name(x["e"])
                if nm:
                    w.add(nm)
            if x.get("k") == "Call" and x.get("member") and not x.get("cconst", False) and strip_all(x.get("obj") or {}).get("k") == "This":
                calls[0] = True
        walk(n, v)
        return w, calls[0]
    for pat, fn in sorted(fns.items()):
        if fams and not any(pat.startswith(f) for f in fams):
            continue
        idx = 0
        for b in blocks(fn.get("body"), []):
            last = {}  # name -> (rhs text, rhs refs)
            for s in stmts_of(b):
                if s.get("k") == "For" and isinstance(s.get("init"), dict) and s["init"].get("k") == "Decl" and len(s["init"].get("vars", [])) == 1 and s.get("c") is not None:
                    nloops += 1
                    iv = s["init"]["vars"][0]
                    c = strip_all(s["c"])
                    if c.get("k") == "Bin" and c.get("op") in ("<", "!=") and strip_all(c["l"]).get("d") == iv.get("d") and iv.get("init") is not None:
                        bound = lhs_name(c["r"])
                        a = txt(iv["init"]).replace(" ", "")
                        if bound and bound in last and last[bound] == a and not a.lstrip("-").isdigit():
                            out.append(ob("lint.vacuous-loop", "%s:vacuous-loop#%d" % (short(fn["patq"]), idx), s["loc"], "violated", "`%s` was assigned `%s` earlier in this block and nothing changed it since, so `for (%s = %s; %s; ..)` never runs: the bound was meant to be the value before the reset (its body - destruction / copy of the remaining elements - is skipped)" % (txt(c["r"]), a, iv["n"], a, txt(c)), fn["qname"]))
                            idx += 1
                w, anycall = written(s)
                if anycall:
                    last = {k: v for k, v in last.items() if not k.startswith("F")}
                for nm in w:
                    last.pop(nm, None)
                if s.get("k") == "Expr":
                    e = strip_all(s["e"])
                    if e.get("k") == "Assign" and e.get("op") == "=":
                        nm = lhs_name(e["l"])
                        if nm:
                            last[nm] = txt(e["r"]).replace(" ", "")
                # a write to a variable used in a recorded rhs invalidates the record
                for nm in list(last):
                    pass
    out.append(ob("lint.vacuous-loop", "all:loops-scanned", "", "discharged", "%d counted loops scanned" % nloops, ""))
    # positive control synthesised from node shapes
    ctl_block = {"k": "Block", "s": [
        {"k": "Expr", "e": {"k": "Assign", "op": "=", "l": {"k": "Ref", "n": "x", "d": 1, "dk": "local"}, "r": {"k": "Ref", "n": "a", "d": 2, "dk": "local"}}},
        {"k": "For", "loc": "control", "init": {"k": "Decl", "vars": [{"d": 3, "n": "i", "init": {"k": "Ref", "n": "a", "d": 2, "dk": "local"}}]},
         "c": {"k": "Bin", "op": "<", "l": {"k": "Ref", "n": "i", "d": 3, "dk": "local"}, "r": {"k": "Ref", "n": "x", "d": 1, "dk": "local"}}, "b": {"k": "Block", "s": []}}]}
    st = stmts_of(ctl_block)
    ok = len(st) == 2 and lhs_name(st[0]["e"]["l"]) == "L1" and txt(st[1]["init"]["vars"][0]["init"]) == "a"
    out.append(ob("lint.vacuous-loop", "control:positive", "", "discharged" if ok else "unrecognised", "positive control shapes recognised" if ok else "positive control not recognised", ""))
    return out


def stale_aliases(facts, fams=None):
    """`T* alias = cast(p); ... p = replacement(); [release old object] ... alias->use()`: a local pointer derived from another
    pointer variable that is re-assigned later in the same block (also under a condition) no longer designates the current
    object - and when the old object is released on that path the uses of the alias are use-after-free.  Every use of the alias
    after such a re-assignment of its origin is reported unless the alias itself is re-derived in between."""
    from astu import stmts_of, strip_all, local_decls
    fns = functions_by(facts)
    out = []
    n_alias = 0

    def blocks(n, acc):
        if isinstance(n, dict):
            if n.get("k") == "Block":
                acc.append(n)
            for v in n.values():
                blocks(v, acc)
        elif isinstance(n, list):
            for v in n:
                blocks(v, acc)
        return acc

    def origin(e):
        """variable a pointer initialiser is derived from (through casts only)"""
        e = strip_all(e)
        while e.get("k") in ("Cast",) and e.get("e") is not None:
            e = strip_all(e["e"])
        if e.get("k") == "Ref" and (e.get("t") or "").rstrip().endswith("*") and e.get("dk") in ("local", "param"):
            return e["d"], e["n"]
        return None
    for pat, fn in sorted(fns.items()):
        if fams and not any(pat.startswith(f) for f in fams):
            continue
        idx = 0
        for b in blocks(fn.get("body"), []):
            st = stmts_of(b)
            aliases = {}  # alias decl id -> (origin decl id, names, index)
            for i, s in enumerate(st):
                # uses of stale aliases in this statement
                if aliases:
                    def uses(n, acc):
                        walk(n, lambda x: acc.append(x) if x.get("k") == "Ref" and x.get("d") in aliases and aliases[x["d"]].get("stale") else None)
                        return acc
                    # re-derivation of the alias first
                    if s.get("k") == "Expr":
                        e = strip_all(s["e"])
                        if e.get("k") == "Assign" and e.get("op") == "=" and strip_all(e["l"]).get("k") == "Ref" and strip_all(e["l"]).get("d") in aliases:
                            aliases[strip_all(e["l"])["d"]]["stale"] = None
                    u = uses(s, [])
                    if u and not aliases[u[0]["d"]].get("released"):
                        # the old object is still alive here (the swap idiom: use the old gadget, release it afterwards)
                        u = []
                    if u:
                        a = aliases[u[0]["d"]]
                        out.append(ob("lint.stale-alias", "%s:stale-alias#%d" % (short(fn["patq"]), idx), u[0]["loc"], "violated", "`%s` was derived from `%s`, which %s re-assigns, and the replaced object is released before this use: `%s` still refers to the object `%s` pointed to before (use after free; the new object never receives the operation)" % (u[0]["n"], a["oname"], a["stale"], u[0]["n"], a["oname"]), fn["qname"]))
                        idx += 1
                        aliases[u[0]["d"]]["stale"] = None  # one report per alias
                if s.get("k") == "Decl":
                    for v in s.get("vars", []):
                        if (v.get("t") or "").rstrip().endswith("*") and v.get("init") is not None and not v.get("ref"):
                            o = origin(v["init"])
                            if o:
                                aliases[v["d"]] = {"o": o[0], "oname": o[1], "stale": None}
                                n_alias += 1
                # a release of anything after the origin was re-assigned makes the stale alias dangling
                if aliases and any(a.get("stale") for a in aliases.values()):
                    rel = []
                    walk(s, lambda y: rel.append(y) if y.get("k") in ("Call", "OpCall") and ("get_deleter" in txt(y) or (y.get("cname") or "") in ("deallocate", "destroy")) else None)
                    if rel:
                        for a in aliases.values():
                            if a.get("stale"):
                                a["released"] = True
                # re-assignments of an origin inside this statement (any depth: conditional replacement counts)
                if aliases:
                    def av(x):
                        if x.get("k") == "Assign" and x.get("op") == "=":
                            l = strip_all(x["l"])
                            if l.get("k") == "Ref":
                                for a in aliases.values():
                                    if a["o"] == l.get("d"):
                                        a["stale"] = "the statement at %s" % x["loc"].split("/")[-1]
                                        rel = []
                                        walk(s, lambda y: rel.append(y) if y.get("k") in ("Call", "OpCall") and ("get_deleter" in txt(y) or (y.get("cname") or "") in ("deallocate", "destroy")) else None)
                                        a["released"] = bool(rel)
                    walk(s, av)
    out.append(ob("lint.stale-alias", "all:aliases-scanned", "", "discharged", "%d local pointer aliases scanned" % n_alias, ""))
    return out


def narrow_variable_shift(facts, fams=None):
    """`x << amount` with a NON-constant amount evaluated in 32 bits and only then converted to a 64-bit type (return value, wider
    operand, initialiser): weights of the form count << level wrap at 2^32 long before the 64-bit destination could hold them
    (n of a few billion is reached through merge trees).  The widening has to happen before the shift."""
    fns = functions_by(facts)
    out = []
    n = 0
    for pat, fn in sorted(fns.items()):
        if fams and not any(pat.startswith(f) for f in fams):
            continue
        idx = [0]

        def v(x):
            nonlocal n
            if x.get("k") == "Bin" and x.get("op") == "<<":
                n += 1
            if x.get("k") == "Cast" and x.get("impl") and x.get("ck") == "IntegralCast" and x.get("sz") == 8:
                e = x.get("e") or {}
                while e.get("k") == "Paren":
                    e = e.get("e") or {}
                if e.get("k") == "Bin" and e.get("op") == "<<" and e.get("sz") == 4:
                    from astu import strip_all
                    r = strip_all(e["r"])
                    l = strip_all(e["l"])
                    if "v" in r or r.get("k") == "Int":
                        return  # constant shift
                    if "v" in l or l.get("k") == "Int":
                        return  # 1 << lg: a power of two below 2^31 by the configuration limits of the sketch
                    out.append(ob("lint.narrow-shift", "%s:narrow-shift#%d" % (short(fn["patq"]), idx[0]), x["loc"], "violated", "`%s` is evaluated in 32 bits and only then converted to %s: the product of a count and a power-of-two weight wraps at 2^32 although the destination is 64 bits wide (ranks / weights of sketches holding billions of items become wrong)" % (txt(e), x.get("t")), fn["qname"]))
                    idx[0] += 1
        walk(fn["body"], v)
    out.append(ob("lint.narrow-shift", "all:shifts-scanned", "", "discharged", "%d shift expressions scanned" % n, ""))
    return out


def moves_from_lvalue_operands(facts, drivers=None):
    """a function template with a forwarding-reference operand (`FwdSketch&& a`) is instantiated both for rvalue and for lvalue
    arguments; in the lvalue instantiation the parameter has type `X &`, and anything taken out of it must go through
    conditional_forward / forward_begin, which copy in that case.  A plain std::move of the operand, of a member of it, or of the
    loop variable of a range-for over it empties the CALLER's object (summaries of a sketch that was only read).  Checked on every
    instantiation in the drivers, not only the first one per template."""
    out = []
    seen = set()
    n = 0
    for fn in facts.functions(drivers):
        if fn.get("body") is None:
            continue
        # a forwarding reference deduced for an lvalue argument: the deduced template argument itself is `X &`
        targs = set(fn.get("targs") or [])
        lv = {p["d"]: p["n"] for p in fn["params"] if p["t"].rstrip().endswith("&") and not p["t"].rstrip().endswith("&&") and not p["t"].lstrip().startswith("const ") and p["t"] in targs}
        if not lv:
            continue
        n += 1
        derived = dict(lv)   # decl id -> operand name

        def rooted(e):
            r = []
            walk(e, lambda x: r.append(x) if x.get("k") == "Ref" and x.get("d") in derived else None)
            return r[0]["d"] if r else None

        def v1(x):
            if x.get("k") == "RangeFor":
                o = rooted(x.get("range"))
                var = x.get("var") or {}
                if o is not None and var.get("d") is not None and not (var.get("t") or "").lstrip().startswith("const "):
                    derived[var["d"]] = derived[o]
        walk(fn["body"], v1)
        idx = [0]

        def v2(x):
            if x.get("k") == "Call" and x.get("cname") == "move" and (x.get("callee") or "").startswith("std::move") and len(x.get("args", [])) == 1:
                o = rooted(x["args"][0])
                if o is not None:
                    key = "%s:move-from-lvalue-operand#%d" % (short(fn["patq"]), idx[0])
                    idx[0] += 1
                    if (fn["pat"], key) in seen:
                        return
                    seen.add((fn["pat"], key))
                    out.append(ob("lint.move-from-lvalue", key, x["loc"], "violated", "std::move(%s) in the instantiation of %s where `%s` is an lvalue reference (%s): the caller's object is emptied although it was passed to be read - its summaries no longer equal what was accumulated; forwarding has to go through conditional_forward<Fwd>()" % (txt(x["args"][0])[:40], fn["name"], derived[o], [p["t"][:60] for p in fn["params"] if p["d"] in lv][:1]), fn["qname"]))
        walk(fn["body"], v2)
    out.append(ob("lint.move-from-lvalue", "all:lvalue-instantiations", "", "discharged", "%d function instantiations with non-const lvalue-reference parameters scanned" % n, ""))
    return out


def _blocks(n, acc):
    if isinstance(n, dict):
        if n.get("k") == "Block":
            acc.append(n)
        for v in n.values():
            _blocks(v, acc)
    elif isinstance(n, list):
        for v in n:
            _blocks(v, acc)
    return acc


RELEASE_NAMES = ("deallocate", "destroy", "make_deleter", "get_deleter")


def conditional_release_before_overwrite(facts, fams=None):
    """`if (G) { release(field_); } ... field_ = replacement;` in one block: the object the owning pointer field refers to is released
    only under G, but it is overwritten unconditionally.  G has to be the existence test of that very object (`field_ != nullptr` /
    `field_`); any other condition (for example 'a replacement was built') leaks the old object on the paths where G is false."""
    from astu import stmts_of, strip_all, is_this_field, field_name
    fns = functions_by(facts)
    out = []
    n = 0
    for pat, fn in sorted(fns.items()):
        if fams and not any(pat.startswith(f) for f in fams):
            continue
        if fn.get("body") is None:
            continue
        idx = 0
        for b in _blocks(fn["body"], []):
            st = stmts_of(b)
            for i, s in enumerate(st):
                if s.get("k") != "Expr":
                    continue
                e = strip(s["e"])
                if not (e.get("k") == "Assign" and e.get("op") == "=" and is_this_field(e["l"]) and (strip(e["l"]).get("t") or "").rstrip().endswith("*")):
                    continue
                fld = field_name(e["l"])
                if strip_all(e["r"]).get("k") == "Null" or txt(e["r"]) == "nullptr":
                    continue  # clearing the field after a release is not an overwrite with a new object
                for prev in st[:i]:
                    rel = []
                    walk(prev, lambda x: rel.append(x) if x.get("k") in ("Call", "OpCall") and any(r in txt(x) for r in RELEASE_NAMES) and any(is_this_field(y, (fld,)) for y in _all(x)) else None)
                    if not rel:
                        continue
                    n += 1
                    key = "%s:%s-release-guard#%d" % (short(fn["patq"]), fld, idx)
                    idx += 1
                    if prev.get("k") == "If":
                        c = txt(prev["c"]).replace(" ", "")
                        ok = c in ("(%s!=nullptr)" % fld, fld, "(nullptr!=%s)" % fld) and prev.get("e") is None
                        if ok:
                            out.append(ob("lint.release-guard", key, prev["loc"], "discharged", "old object released iff it exists, then the field is overwritten", fn["qname"]))
                        else:
                            out.append(ob("lint.release-guard", key, prev["loc"], "violated", "`%s` is overwritten unconditionally at %s, but the object it refers to is released only under `%s`: on the other paths the old object is never returned to the allocator (leak)" % (fld, e["loc"].split("/")[-1], txt(prev["c"])[:60]), fn["qname"]))
                    else:
                        out.append(ob("lint.release-guard", key, prev["loc"], "discharged", "old object released unconditionally before the field is overwritten", fn["qname"]))
                    break
    out.append(ob("lint.release-guard", "all:overwrites-scanned", "", "discharged", "%d release-then-overwrite sites of owning pointer fields scanned" % n, ""))
    return out


def _all(n):
    acc = []
    walk(n, lambda x: acc.append(x))
    return acc


def invalidated_pointers(facts, fams=None):
    """`auto p = obj.begin()` (or end / data / get) followed by a call of a non-const member function of the same object and then
    a use of p: the call may reallocate the storage p points into (ensure_space, grow, resize, push_back ...), so p has to be
    obtained after it.  Reported only when the intervening callee can (transitively) assign or swap a pointer field or call a
    growing container operation - i.e. can actually move the storage."""
    from astu import stmts_of, strip_all, local_decls
    fns = functions_by(facts)
    by_pat = {f["pat"]: f for f in fns.values()}
    memo = {}

    def can_move_storage(pat_, depth=0):
        if pat_ in memo:
            return memo[pat_]
        memo[pat_] = False
        f = by_pat.get(pat_)
        if f is None or f.get("body") is None or depth > 3:
            return False
        hit = [False]

        def v(x):
            if x.get("k") == "Assign" and x.get("op") == "=" and (strip_all(x["l"]).get("t") or "").rstrip().endswith("*") and strip_all(x["l"]).get("k") == "Member":
                hit[0] = True
            if x.get("k") == "Call" and x.get("cname") in ("swap", "resize", "reserve", "push_back", "emplace_back", "insert", "shrink_to_fit"):
                hit[0] = True
            if x.get("k") == "Call" and x.get("cpat") and x.get("cpat") != pat_ and can_move_storage(x["cpat"], depth + 1):
                hit[0] = True
        walk(f["body"], v)
        memo[pat_] = hit[0]
        return hit[0]
    out = []
    n = 0
    for pat, fn in sorted(fns.items()):
        if fams and not any(pat.startswith(f) for f in fams):
            continue
        if fn.get("body") is None:
            continue
        idx = 0
        for b in _blocks(fn["body"], []):
            st = stmts_of(b)
            ptrs = {}  # decl id -> (object text, name, stale info)
            for s in st:
                # uses of stale pointers
                stale_used = []
                walk(s, lambda x: stale_used.append(x) if x.get("k") == "Ref" and x.get("d") in ptrs and ptrs[x["d"]][2] else None)
                if stale_used:
                    d = stale_used[0]["d"]
                    obj, name, info = ptrs[d]
                    out.append(ob("lint.invalidated-pointer", "%s:invalidated-pointer#%d" % (short(fn["patq"]), idx), stale_used[0]["loc"], "violated", "`%s` was obtained from `%s` before %s, which can reallocate that object's storage; using it afterwards reads / writes released memory - the pointer has to be taken after the call" % (name, obj, info), fn["qname"]))
                    idx += 1
                    ptrs[d] = (obj, name, None)
                # invalidating calls
                if ptrs:
                    def cv(x):
                        if x.get("k") == "Call" and x.get("member") and x.get("obj") is not None and not x.get("cconst", False):
                            o = txt(x["obj"]).replace(" ", "")
                            for d, (obj, name, info) in list(ptrs.items()):
                                if obj == o and info is None and x.get("cname") not in ("begin", "end", "data", "get") and (can_move_storage(x.get("cpat")) or x.get("cname") in ("resize", "reserve", "push_back", "emplace_back", "insert", "erase", "clear")):
                                    ptrs[d] = (obj, name, "%s.%s(...) at %s" % (obj, x.get("cname"), x["loc"].split("/")[-1]))
                    walk(s, cv)
                if s.get("k") == "Decl":
                    for v in s.get("vars", []):
                        ini = strip_all(v.get("init") or {})
                        src = []
                        walk(ini, lambda x: src.append(x) if x.get("k") == "Call" and x.get("cname") in ("begin", "end", "data", "get") and x.get("obj") is not None else None)
                        if src and ((v.get("t") or "").rstrip().endswith("*") or "iterator" in (v.get("t") or "")):
                            ptrs[v["d"]] = (txt(src[0]["obj"]).replace(" ", ""), v["n"], None)
                            n += 1
    out.append(ob("lint.invalidated-pointer", "all:pointers-scanned", "", "discharged", "%d local pointers / iterators into objects scanned" % n, ""))
    return out


def post_increment_semantics(facts, fams=None):
    """`it++` returns the position BEFORE the step: the body copies *this first, advances (through the prefix form) and returns the
    copy by value.  Returning *this after advancing makes `*it++` skip the first element and run one past the last."""
    from astu import stmts_of, strip_all
    fns = functions_by(facts)
    out = []
    for pat, fn in sorted(fns.items()):
        if fn["name"] != "operator++" or len(fn["params"]) != 1 or fn.get("body") is None:
            continue
        if fams and not any(pat.startswith(f) for f in fams):
            continue
        st = stmts_of(fn["body"])
        key = "%s(int):returns-previous-position" % short(fn["patq"])
        copy_first = bool(st) and st[0].get("k") == "Decl" and len(st[0].get("vars", [])) == 1 and txt(st[0]["vars"][0].get("init")).replace(" ", "") in ("*this", "(*this)")
        tmp = st[0]["vars"][0] if copy_first else None
        steps = [s for s in st[1:] if s.get("k") == "Expr" and ("operator++" in txt(s["e"]) or txt(s["e"]).replace(" ", "") in ("++*this", "++(*this)"))]
        rets = [s for s in st if s.get("k") == "Return"]
        ret_ok = len(rets) == 1 and tmp is not None and strip_all(rets[0].get("e") or {}).get("k") in ("Ref", "Construct") and tmp["n"] in txt(rets[0].get("e"))
        by_value = not (fn.get("ret") or "").rstrip().endswith("&")
        ok = copy_first and len(steps) == 1 and ret_ok and by_value
        out.append(ob("lint.post-increment", key, fn["pat"], "discharged" if ok else "violated", "copies *this, advances once, returns the copy by value" if ok else "post-increment does not return the previous position (copy of *this taken first: %s, advances: %d, returns the copy: %s, by value: %s): `*it++` skips the first element and the walk ends one past the last" % (copy_first, len(steps), ret_ok, by_value), fn["qname"]))
    if len(out) < 5 and not fams:
        out.append(ob("lint.post-increment", "anchor", "", "unrecognised", "only %d post-increment operators found" % len(out), ""))
    return out


SHORTCUT_OK = {
    ("datasketches::theta_intersection_base", "update"): "an operand without retained entries makes the intersection empty: the table is rebuilt empty and theta / emptiness were already folded in above",
}


def state_writing_shortcuts(facts, records=None):
    """merge / update / set-operation members: a branch that writes the object's fields and returns early bypasses whatever the
    rest of the function does for every other input - the trailing normalisation (compaction loop, trimming, total-weight update,
    publication of a count).  On the reviewed tree only one such shortcut exists (reviewed exception); a new 'fast path for an
    empty target' has to be justified the same way."""
    import cowrite
    from astu import stmts_of
    fns = functions_by(facts)
    out = []
    n = 0
    for pat, fn in sorted(fns.items()):
        if fn["name"] not in ("merge", "update", "union_with", "intersect") or not fn.get("rect") or fn.get("body") is None:
            continue
        if records is not None and short(fn["rect"]) not in records:
            continue
        n += 1
        idx = 0
        for s in stmts_of(fn["body"]):
            if s.get("k") != "If":
                continue
            for br, nm in ((s.get("t"), "then"), (s.get("e"), "else")):
                if br is None:
                    continue
                rets = []
                walk(br, lambda x: rets.append(x) if x.get("k") == "Return" else None)
                if not rets:
                    continue
                W = sorted({f for (o, f) in cowrite.direct_writes({"body": br}) if o == "this"})
                if not W:
                    continue
                key = "%s::%s:shortcut#%d" % (short(fn["rect"]), fn["name"], idx)
                idx += 1
                why = SHORTCUT_OK.get((fn["rect"], fn["name"]))
                if why:
                    out.append(ob("lint.state-shortcut", key, s["loc"], "info", "reviewed exception: " + why, fn["qname"]))
                else:
                    out.append(ob("lint.state-shortcut", key, s["loc"], "violated", "the branch `if %s` writes %s and returns: this path leaves %s without the steps every other path runs afterwards (compaction / trimming loop, accounting of totals, publication of cached counts) - a result that depends on whether the target happened to be empty" % (txt(s["c"])[:60], ", ".join(W), fn["name"]), fn["qname"]))
    out.append(ob("lint.state-shortcut", "all:mutators-scanned", "", "discharged", "%d merge / update members scanned for state-writing early returns" % n, ""))
    return out


def unconditional_delegations(facts, fams=None):
    """mutating member functions that on the reviewed tree only hand the operation to a member object (update_theta_sketch::trim ->
    table_.trim(), union::update -> state_.update(..)) still do so on every call: the delegated call is reached unconditionally.  A
    wrapper that starts to skip the operation for some state (`if (is_estimation_mode()) table_.trim();`) silently changes what
    the public operation guarantees."""
    import json, os
    from vlib.core import VERIF
    from astu import reach_tagged
    sp = json.load(open(os.path.join(VERIF, "spec", "delegations.json")))["delegations"]
    fns = functions_by(facts)
    out = []
    for pat, fn in sorted(fns.items()):
        if fams and not any(pat.startswith(f) for f in fams):
            continue
        if not fn.get("rect") or fn.get("body") is None:
            continue
        key0 = "%s::%s(%d)" % (short(fn["rect"]), fn["name"], len(fn.get("params", [])))
        if key0 not in sp:
            # overload families are listed with their parameter types
            key0 = "%s::%s(%s)" % (short(fn["rect"]), fn["name"], ",".join((p.get("t") or "").replace("const ", "").replace(" &", "").replace("std::basic_string<char>", "string") for p in fn.get("params", [])))
        if key0 not in sp:
            continue
        for want in sp[key0]:
            fld, cname = want.split(".")
            calls = []
            walk(fn["body"], lambda n: calls.append(n) if n.get("k") == "Call" and n.get("cname") == cname and n.get("obj") is not None and txt(n["obj"]).split(".")[-1] == fld else None)
            key = "%s:delegates-to-%s" % (key0, want)
            if not calls:
                out.append(ob("lint.delegation", key, fn["pat"], "unrecognised", "the call of %s() is no longer found in this wrapper: re-review spec/delegations.json" % want, fn["qname"]))
                continue
            conds = [txt(l) for l, o in reach_tagged(fn["body"], calls[0]) if o != "after-throw"]
            if conds:
                out.append(ob("lint.delegation", key, calls[0].get("loc", fn["pat"]), "violated", "%s() is now only called under `%s`: the public operation is silently skipped in the other states (e.g. trim() of an exact-mode sketch holding more than k entries leaves them all)" % (want, " && ".join(conds)), fn["qname"]))
            else:
                out.append(ob("lint.delegation", key, fn["pat"], "discharged", "always delegates to %s()" % want, fn["qname"]))
    return out
