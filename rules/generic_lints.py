"""Repository-wide contradiction / copy-paste rules (Engler-style), armed because their expected count on the reviewed tree
is zero; a tiny positive control is analysed on every run (selftest/fixtures are not needed: the control is synthesised
in memory from the same node shapes)."""
from astu import strip, walk, txt, short, functions_by
from vlib.core import ob


def chain(e, op):
    e = strip(e)
    if isinstance(e, dict) and e.get("k") == "Bin" and e.get("op") == op:
        return chain(e["l"], op) + chain(e["r"], op)
    return [e]


def duplicate_conjuncts(facts, fams=None):
    """`A && B && A` / `A || A`: a repeated operand in one logical chain is a copy-paste slip (the intended peer is missing)"""
    fns = functions_by(facts)
    out = []
    n_chains = 0
    for pat, fn in sorted(fns.items()):
        if fams and not any(pat.startswith(f) for f in fams):
            continue
        idx = [0]
        seen_nodes = set()

        def v(n):
            nonlocal n_chains
            if n.get("k") == "Bin" and n.get("op") in ("&&", "||") and id(n) not in seen_nodes:
                ops = chain(n, n["op"])
                # mark sub-chains as seen
                def mark(x):
                    x = strip(x)
                    if isinstance(x, dict) and x.get("k") == "Bin" and x.get("op") == n["op"]:
                        seen_nodes.add(id(x))
                        mark(x["l"])
                        mark(x["r"])
                mark(n)
                if len(ops) < 2:
                    return
                n_chains += 1
                texts = [txt(o) for o in ops]
                pure = [t for o, t in zip(ops, texts) if not _has_side_effect(o)]
                dups = sorted({t for t in pure if pure.count(t) > 1})
                if dups:
                    key = "%s:duplicate-operand#%d" % (short(fn["patq"]), idx[0])
                    idx[0] += 1
                    out.append(ob("lint.duplicate-conjunct", key, n["loc"], "violated", "`%s` appears twice in one `%s` chain (%s): the second occurrence was meant to test a different operand (copy-paste of the wrong peer)" % (dups[0], n["op"], " %s " % n["op"] + " ".join(texts)[:160]), fn["qname"]))
        walk(fn["body"], v)
    out.append(ob("lint.duplicate-conjunct", "all:chains-scanned", "", "discharged", "%d logical chains scanned, %d with a repeated operand" % (n_chains, len(out)), ""))
    # positive control: a synthesised chain with a repeated operand must be recognised
    ctl = {"k": "Bin", "op": "&&", "t": "bool", "loc": "control", "l": {"k": "Ref", "n": "a", "d": 1, "dk": "local"}, "r": {"k": "Ref", "n": "a", "d": 1, "dk": "local"}}
    ops = [txt(o) for o in chain(ctl, "&&")]
    ok = len(ops) == 2 and ops[0] == ops[1]
    out.append(ob("lint.duplicate-conjunct", "control:positive", "", "discharged" if ok else "unrecognised", "positive control `a && a` is recognised" if ok else "positive control not recognised", ""))
    return out


def _has_side_effect(e):
    hit = [False]
    walk(e, lambda n: hit.__setitem__(0, True) if n.get("k") in ("Assign",) or (n.get("k") == "Un" and n.get("op") in ("++", "--")) or (n.get("k") == "Call" and (n.get("cname") or "").startswith(("read", "next", "random"))) else None)
    return hit[0]
