"""Structural trigger conditions: the comparisons that decide when a sketch resizes / rebuilds / compacts / purges /
promotes / grows.  They encode capacity boundaries where an off-by-one is invisible to example-based tests.  The inventory is
extracted from the tree (a condition directly guarding a call to a structural member function) and compared with the
reviewed table spec/triggers.json: SAME identifiers but a different operator or constant = violation (boundary moved);
different identifiers = the condition was refactored -> unrecognised (re-review), never a violation."""
import json
import os
import re
from astu import strip, walk, txt, short, functions_by
from vlib.core import ob, VERIF

VERBS = re.compile(r"^(resize|rebuild|compress|compact|grow|purge|shrink|flush|move_window|promote|switch_to|convert|reduce_k|trim|sort|merge_|shift|downsample|upsize|internal_|process_|add_empty|ensure_|zip_|check_grow|checkGrow|growAux|growHash)")
FLIP = {"<": ">", ">": "<", "<=": ">=", ">=": "<=", "==": "==", "!=": "!="}


def parts(c):
    """(oriented operator, identifiers, constants) of a comparison; orientation: lexicographically smaller side on the left"""
    l, r = txt(c["l"]), txt(c["r"])
    op = c["op"]
    if l > r:
        l, r, op = r, l, FLIP[op]
    ids, consts = [], []

    def v(n):
        k = n.get("k")
        if k in ("Ref", "Member") and "v" not in n:
            ids.append(n.get("n") or n.get("f"))
        elif k == "Call":
            ids.append(n.get("cname"))
        if "v" in n and k not in ("Call", "Assign", "Bin", "Un", "Cast", "Cond"):
            consts.append(n["v"])
    walk(c, v)
    return op, sorted(x for x in ids if x), sorted(consts), "(%s%s%s)" % (l, op, r)


def inventory(facts):
    fns = functions_by(facts)
    rows = {}
    for pat, fn in sorted(fns.items()):
        if not fn.get("rect"):
            continue
        cnt = {}

        def v(n):
            if n.get("k") in ("If", "While"):
                c = strip(n["c"])
                body = n.get("t") if n.get("k") == "If" else n.get("b")
                calls = []
                walk(body, lambda x: calls.append(x.get("cname")) if x.get("k") == "Call" and x.get("cname") and VERBS.match(x["cname"]) and (x.get("crec") or "").startswith("datasketches::") else None)
                if calls and c.get("k") == "Bin" and c.get("op") in FLIP:
                    base = "%s::%s->%s" % (short(fn["rect"]), fn["name"], "+".join(sorted(set(calls))))
                    i = cnt.get(base, 0)
                    cnt[base] = i + 1
                    op, ids, consts, text = parts(c)
                    rows["%s#%d" % (base, i)] = {"op": op, "ids": ids, "consts": consts, "text": text, "loc": n.get("loc"), "fn": fn["qname"]}
        walk(fn["body"], v)
    return rows


def obligations(facts, records=None):
    sp = json.load(open(os.path.join(VERIF, "spec", "triggers.json")))["triggers"]
    cur = inventory(facts)
    out = []
    for key, want in sorted(sp.items()):
        if records is not None and not any(key.startswith(r + "::") for r in records):
            continue
        k = "trigger:" + key
        if key not in cur:
            out.append(ob("triggers", k, "", "unrecognised", "structural trigger `%s` (%s) is no longer found in this form (refactored?): re-review and update spec/triggers.json" % (key, want["text"]), ""))
            continue
        got = cur[key]
        if got["ids"] != want["ids"]:
            out.append(ob("triggers", k, got["loc"], "unrecognised", "the condition guarding %s now reads %s (was %s): different operands - re-review" % (key.split("->")[1], got["text"], want["text"]), got["fn"]))
        elif got["op"] != want["op"] or got["consts"] != want["consts"]:
            out.append(ob("triggers", k, got["loc"], "violated", "the boundary that triggers %s moved: now %s, reviewed %s (same operands, different %s): the structural operation now happens one step early/late - typically a violated precondition (pivot out of range, full table, capacity exceeded) or unbounded growth" % (key.split("->")[1].split("#")[0], got["text"], want["text"], "operator" if got["op"] != want["op"] else "constant"), got["fn"]))
        else:
            out.append(ob("triggers", k, got["loc"], "discharged", got["text"], got["fn"]))
    return out
