"""Structural trigger conditions: the comparisons that decide when a sketch resizes / rebuilds / compacts / purges /
promotes / grows.  They encode capacity boundaries where an off-by-one is invisible to example-based tests.  The inventory is
extracted from the tree (a condition directly guarding a call to a structural member function) and compared with the
reviewed table spec/triggers.json: SAME identifiers but a different operator or constant = violation (boundary moved);
different identifiers = the condition was refactored -> unrecognised (re-review), never a violation."""
import json
import os
import re
from astu import C, ctxt, gt_pair, eq_const, reach, reach_txt, ctext, strip, walk, txt, short, functions_by
from vlib.core import ob, VERIF

VERBS = re.compile(r"^(resize|rebuild|compress|compact|grow|purge|shrink|flush|move_window|promote|switch_to|convert|reduce_k|trim|sort|merge_|shift|downsample|upsize|internal_|process_|add_empty|ensure_|zip_|check_grow|checkGrow|growAux|growHash|mergeHll|mergeList|copyAs|copy_or_downsample)")
FLIP = {"<": ">", ">": "<", "<=": ">=", ">=": "<=", "==": "==", "!=": "!="}


def _loc_key(x):
    p = str(x.get("loc") or "").split(":")
    try:
        return (int(p[-2]), int(p[-1]))
    except (ValueError, IndexError):
        try:
            return (int(p[-1]), 0)
        except (ValueError, IndexError):
            return (1 << 30, 0)


def _vtxt(e, inl):
    """text with named constants printed as their values (naming a literal does not change an identity)"""
    import astu
    old = astu._VALUES[0]
    astu._VALUES[0] = True
    try:
        return txt(e, inl)
    finally:
        astu._VALUES[0] = old


def canon_env(fn):
    """rename-invariant identities for the locals and parameters of fn: a local with an initialiser is identified by the text of
    that initialiser (other locals inlined), one without by its type and its ordinal among such locals; parameters by position"""
    env = {}
    decls = {}
    order = []

    def v(n):
        if n.get("k") == "Decl":
            for x in n.get("vars", []):
                if "d" in x:
                    decls[x["d"]] = x
                    order.append(x)
    walk(fn.get("body"), v)
    order.sort(key=_loc_key)   # source order: independent of how branches are nested / flattened
    inl = {d: x["init"] for d, x in decls.items() if x.get("init") is not None}
    cnt = {}
    nread = 0
    for x in order:
        ini = strip(x["init"]) if x.get("init") is not None else None
        while isinstance(ini, dict) and ini.get("k") == "Cast" and ini.get("e") is not None:
            ini = strip(ini["e"])
        if isinstance(ini, dict) and ini.get("k") == "Call" and ini.get("cname") in ("read", "read_big_endian"):
            # the k-th value taken from the stream, with its width: renaming the local does not change it
            nread += 1
            env[x["d"]] = "read#%d<%s>" % (nread, (x.get("t") or "").replace("const ", ""))
        elif x.get("init") is not None:
            env[x["d"]] = "=" + _vtxt(x["init"], inl).replace(" ", "")[:80]
        else:
            t = (x.get("t") or "").replace("const ", "")
            cnt[t] = cnt.get(t, 0) + 1
            env[x["d"]] = "local<%s>#%d" % (t, cnt[t])
    for i, pm in enumerate(fn.get("params", [])):
        env[pm["d"]] = "param#%d" % i
    # the element of a range-for (index loops over a container are exported in that form too) is named by what it ranges over

    def rv(n):
        if n.get("k") == "RangeFor" and isinstance(n.get("var"), dict) and "d" in n["var"]:
            env[n["var"]["d"]] = "elem:" + _vtxt(n.get("range"), inl).replace(" ", "")[:60]
    walk(fn.get("body"), rv)
    return env


HELPERS = {}


def set_helpers(fns):
    """small helpers that read as their expression when identifiers are collected: non-public member functions and file-static
    free functions whose whole body is `return expr;`"""
    HELPERS.clear()
    cand = {}
    for f in fns.values():
        b = f.get("body")
        ss = b.get("s", []) if isinstance(b, dict) and b.get("k") == "Block" else []
        if len(ss) == 1 and ss[0].get("k") == "Return" and ss[0].get("e") is not None:
            if f.get("rect") and f.get("access", 0) != 0:
                HELPERS[f["pat"]] = f
            elif not f.get("rect") and f.get("kind") == "function":
                cand[f["pat"]] = f
    # a free function is a local helper if every call of it comes from the file that defines it
    if cand:
        callers = {}
        for f in fns.values():
            if f.get("body") is None:
                continue
            ffile = str(f.get("pat", "")).rsplit(":", 1)[0]
            walk(f["body"], lambda n, ffile=ffile: callers.setdefault(n["cpat"], set()).add(ffile) if n.get("k") == "Call" and n.get("cpat") in cand else None)
        for pat, f in cand.items():
            if callers.get(pat) and callers[pat] == {str(pat).rsplit(":", 1)[0]}:
                HELPERS[pat] = f


def idc(e, env, ids, consts, depth=0, in_local=False):
    """identifiers and constants of an expression.  env: decl id -> identity string (canon_env), or ("expr", node, env2): the
    local / parameter stands for that expression (a single-assignment local for its initialiser, a parameter of an inlined helper
    for the caller's argument) and contributes the identifiers / constants of that expression instead of a name"""
    if isinstance(e, list):
        for x in e:
            idc(x, env, ids, consts, depth, in_local)
        return
    if not isinstance(e, dict):
        return
    k = e.get("k")
    if k in ("Bin", "Un", "Paren", "Cond") and isinstance(e.get("v"), int) and not isinstance(e.get("v"), bool):
        consts.append(e["v"])      # a constant-folded sub-expression is its value: `1u << LG_INIT`, `8`, a named 8 are one constant
        return
    if k == "Cond" and in_local:
        idc(e.get("a"), env, ids, consts, depth, in_local)
        idc(e.get("e"), env, ids, consts, depth, in_local)
        return
    if k == "Ref":
        if "v" in e:
            if e.get("t") != "bool" or True:
                consts.append(e["v"])
            return
        b = env.get(e.get("d"))
        if isinstance(b, tuple):
            if depth < 8:
                # the local stands for the value(s) it is given: one initialiser, or every plainly assigned value (if / else
                # assignment and a conditional initialiser give the same set; the selecting condition is not part of it)
                ti, tc = [], []
                for val in (b[1] if isinstance(b[1], list) else [b[1]]):
                    idc(val, b[2] if len(b) > 2 and b[2] is not None else env, ti, tc, depth + 1, True)
                ids.extend(sorted(set(str(x) for x in ti if x)))
                consts.extend(sorted(set(tc), key=lambda x: (str(type(x)), x)))
            return
        ids.append(b or e.get("n"))
        return
    if k == "Member" and "v" not in e:
        ids.append(e.get("n") or e.get("f"))
    elif k == "Call" and e.get("cpat") in HELPERS and depth < 8 and len(HELPERS[e["cpat"]].get("params", [])) == len(e.get("args", [])):
        cal = HELPERS[e["cpat"]]
        cenv = {p["d"]: ("expr", a, env) for p, a in zip(cal["params"], e["args"])}
        idc(cal["body"]["s"][0]["e"], cenv, ids, consts, depth + 1, in_local)
        if e.get("obj") is not None:
            idc(e["obj"], env, ids, consts, depth, in_local)
        return
    elif k == "Call" and e.get("cname") in ("move", "forward", "conditional_forward") and len(e.get("args", [])) == 1:
        idc(e["args"][0], env, ids, consts, depth, in_local)     # value-category casts are transparent
        return
    elif k == "Call":
        ids.append(e.get("cname"))
    if "v" in e and k not in ("Call", "Assign", "Bin", "Un", "Cast", "Cond", "Paren", "OpCall"):
        consts.append(e["v"])
        if k in ("Member", "Int", "Sizeof", "Char", "Bool", "Float"):
            return
    for kk, v in e.items():
        if isinstance(v, (dict, list)):
            idc(v, env, ids, consts, depth, in_local)


def plainly_assigned_locals(fn):
    """decl id -> list of value expressions, for locals that are only ever written by their initialiser and by plain `x = value`
    statements (no compound assignment, ++ / --, address-of, no use as an output argument of memcpy / copy_from_mem)"""
    vals, bad = {}, set()

    def v(n):
        k = n.get("k")
        if k == "Decl":
            for x in n.get("vars", []):
                if "d" in x:
                    vals.setdefault(x["d"], [])
                    if x.get("init") is not None:
                        vals[x["d"]].append(x["init"])
        elif k == "Assign":
            t = strip(n.get("l"))
            if isinstance(t, dict) and t.get("k") == "Ref":
                if n.get("op") == "=":
                    vals.setdefault(t.get("d"), []).append(n.get("r"))
                else:
                    bad.add(t.get("d"))
        elif k == "Un" and n.get("op") in ("++", "--", "&"):
            t = strip(n.get("e"))
            if isinstance(t, dict) and t.get("k") == "Ref":
                bad.add(t.get("d"))
        elif k == "Call" and n.get("cname") in ("copy_from_mem", "memcpy", "read"):
            # the destination argument is written: memcpy(dst, ..), copy_from_mem(src, dst[, n]), read(is, dst, n)
            args = n.get("args", [])
            di = 0 if n["cname"] == "memcpy" else 1
            if len(args) > di:
                a = strip(args[di])
                if isinstance(a, dict) and a.get("k") == "Un" and a.get("op") == "&":
                    a = strip(a.get("e"))
                if isinstance(a, dict) and a.get("k") == "Ref":
                    bad.add(a.get("d"))
    walk(fn.get("body"), v)
    return {d: vs for d, vs in vals.items() if d not in bad and vs}


def assigned_value_sets(fn):
    """like plainly_assigned_locals, but a local that is also updated by compound assignments (`off += n`) or ++ / -- stands for the
    set of everything that flows into it: its initialiser, the assigned values and the right-hand sides of the compound updates"""
    vals, bad = {}, set()

    def v(n):
        k = n.get("k")
        if k == "Decl":
            for x in n.get("vars", []):
                if "d" in x:
                    vals.setdefault(x["d"], [])
                    if x.get("init") is not None:
                        vals[x["d"]].append(x["init"])
        elif k == "Assign":
            t = strip(n.get("l"))
            if isinstance(t, dict) and t.get("k") == "Ref":
                vals.setdefault(t.get("d"), []).append(n.get("r"))
        elif k == "Un" and n.get("op") == "&":
            t = strip(n.get("e"))
            if isinstance(t, dict) and t.get("k") == "Ref":
                bad.add(t.get("d"))
        elif k == "Call" and n.get("cname") in ("copy_from_mem", "memcpy", "read"):
            args = n.get("args", [])
            di = 0 if n["cname"] == "memcpy" else 1
            if len(args) > di:
                a = strip(args[di])
                if isinstance(a, dict) and a.get("k") == "Un" and a.get("op") == "&":
                    a = strip(a.get("e"))
                if isinstance(a, dict) and a.get("k") == "Ref":
                    bad.add(a.get("d"))
    walk(fn.get("body"), v)
    return {d: vs for d, vs in vals.items() if d not in bad and vs}


def flat_env(fn):
    """canon_env with single-assignment locals standing for their initialisers (hoisting a sub-expression into a const local, or
    inlining one, does not change the identifiers / constants of a condition)"""
    from astu import single_assignment_locals
    env = dict(canon_env(fn))
    pa = plainly_assigned_locals(fn)
    av = assigned_value_sets(fn)
    for d, ident in list(env.items()):
        if (ident.startswith("=") or ident.startswith("local<")) and d in pa:
            # a self-referencing update (x = f(x)) cannot be flattened
            selfref = [False]
            for val in pa[d]:
                walk(val, lambda x: selfref.__setitem__(0, True) if x.get("k") == "Ref" and x.get("d") == d else None)
            if not selfref[0]:
                env[d] = ("expr", pa[d] if len(pa[d]) > 1 else pa[d][0], None)
        elif ident.startswith("=") and d in av and d not in pa:
            # initialised and then updated in place (`off = a; off += b;`): the value set, whatever the spelling of the first value
            selfref = [False]
            for val in av[d]:
                walk(val, lambda x: selfref.__setitem__(0, True) if x.get("k") == "Ref" and x.get("d") == d else None)
            if not selfref[0]:
                env[d] = ("expr", av[d] if len(av[d]) > 1 else av[d][0], None)
    return env


def parts(c, env=None):
    """(oriented operator, identifiers, constants, text) of a comparison; orientation: the side with the smaller (identifiers,
    constants, shape) on the left.  With env (canon_env / flat_env) locals and parameters are named by rename-invariant identities."""
    env = env or {}

    def side(e):
        i, k = [], []
        idc(e, env, i, k)
        return (sorted(str(x) for x in i if x), sorted(str(x) for x in k))
    l, r = txt(c["l"]), txt(c["r"])
    op = c["op"]
    sl, sr = side(c["l"]), side(c["r"])
    if sl == sr:
        # a snapshot local compared with its own source (`before < field`): tell the sides apart without flattening
        shallow = {d: (v if not isinstance(v, tuple) else "snapshot") for d, v in env.items()}

        def side2(e):
            i, k = [], []
            idc(e, shallow, i, k)
            return (sorted(str(x) for x in i if x), sorted(str(x) for x in k), re.sub(r"[A-Za-z_][A-Za-z_0-9]*", "", txt(e)))
        sl, sr = side2(c["l"]), side2(c["r"])
    if sl > sr:
        l, r, op = r, l, FLIP[op]
    ids, consts = [], []
    idc(c["l"], env, ids, consts)
    idc(c["r"], env, ids, consts)
    return op, sorted(str(x) for x in ids if x), sorted(consts, key=lambda x: (str(type(x)), x)), "(%s%s%s)" % (l, op, r)


_REL = {"<": {"<"}, "<=": {"<", "="}, "==": {"="}, ">=": {">", "="}, ">": {">"}, "!=": {"<", ">"}}
_REL_INV = {frozenset(v): k for k, v in _REL.items()}


def _merge_relations(lits):
    """several comparisons of the same two operands are one relation: (x != y) && (x >= y) is x > y - an else-if chain written in
    another order yields the same literal"""
    groups, order = {}, []
    for d in lits:
        if d["op"] not in _REL:
            order.append(("keep", d))
            continue
        t = d["text"]
        # operands as oriented by parts(): "(l op r)"
        key = (tuple(d["ids"]), tuple(str(c) for c in d["consts"]), t.replace(d["op"], "\0", 1) if t.count(d["op"]) >= 1 else t)
        if key not in groups:
            groups[key] = {"rel": set(_REL[d["op"]]), "first": d}
            order.append(("grp", key))
        else:
            groups[key]["rel"] &= _REL[d["op"]]
    out = []
    for kind, x in order:
        if kind == "keep":
            out.append(x)
            continue
        g = groups[x]
        rel = frozenset(g["rel"])
        d = g["first"]
        if not rel:
            return None      # contradictory conditions: the call site is unreachable on this (inlined) path
        if rel in _REL_INV and _REL_INV[rel] != d["op"]:
            op = _REL_INV[rel]
            d = dict(d, op=op, text=x[2].replace("\0", op, 1))
        out.append(d)
    # x == K1 implies x != K2 for another constant K2: the arm of an else-if chain over an enumeration carries the negations of
    # the arms before it, the case of a switch does not
    eqs = [d for d in out if d.get("op") == "==" and len(d["consts"]) == 1]
    if eqs:
        def implied(d):
            if d.get("op") != "!=" or len(d["consts"]) != 1:
                return False
            for q in eqs:
                if q["ids"] == d["ids"] and str(q["consts"][0]) != str(d["consts"][0]):
                    return True
                if q["ids"] == d["ids"] and str(q["consts"][0]) == str(d["consts"][0]):
                    return None
            return False
        res = []
        for d in out:
            im = implied(d)
            if im is None:
                return None     # x == K && x != K
            if not im:
                res.append(d)
        out = res
    return out


def inventory(facts):
    """one row per call of a structural operation (VERBS) inside a library class: the comparison literals known to hold when the
    call is reached (astu.reach: nested ifs, guard clauses, else branches, loop conditions, && chains all give the same literals)"""
    from astu import reach_tagged, induction_locals, inlined_body, stmts_of, struct_like
    fns = functions_by(facts)
    set_helpers(fns)
    by_pat = {f["pat"]: f for f in fns.values()}
    # statement-level calls of void members of the same class are seen through (astu.inlined_body), and a function that is only
    # ever such a helper is not a row of its own: extracting part of a function into a private helper, or inlining one, leaves
    # the inventory unchanged
    helper_pats = set()
    for f in fns.values():
        if not f.get("rect") or f.get("body") is None:
            continue

        def hv(n, f=f):
            if n.get("k") == "Expr" and isinstance(strip(n.get("e")), dict) and strip(n["e"]).get("k") == "Call":
                c = strip(n["e"])
                cal = by_pat.get(c.get("cpat"))
                if cal is not None and cal is not f and cal.get("body") is not None and cal.get("rect") == f.get("rect") and cal.get("ret") == "void" \
                        and len(cal.get("params", [])) == len(c.get("args", [])) and (c.get("obj") is None or strip(c["obj"]).get("k") in ("This", "Ref")) \
                        and (cal.get("access", 2) != 0 or cal.get("rect") in struct_like(by_pat)):
                    helper_pats.add(cal["pat"])
        walk(f["body"], hv)
    rows = {}
    for pat, fn0 in sorted(fns.items()):
        if not fn0.get("rect") or fn0.get("body") is None or fn0["pat"] in helper_pats:
            continue
        fn = dict(fn0, body=inlined_body(fn0, by_pat, depth=3, mark=lambda nm: bool(VERBS.match(nm))))   # the operations themselves stay visible as calls
        env = flat_env(fn)
        calls = []
        walk(fn["body"], lambda x: calls.append(x) if x.get("k") == "Call" and x.get("cname") and VERBS.match(x["cname"]) and (x.get("crec") or "").startswith("datasketches::") else None)
        calls.sort(key=_loc_key)
        cnt = {}
        ind = induction_locals(fn)
        for c in calls:
            lits = []
            chain_tail = []
            # input validation (`if (bad) throw`) is not a trigger; neither are the bounds of loop counters
            for l, origin in reach_tagged(fn["body"], c):
                l = strip(l)
                if origin == "after-throw":
                    # ... except the last arm of an equality chain over one subject whose else-branch throws
                    # (`else if (x == K) {..} else throw` is `if (x != K) throw; ..` after normalisation)
                    if isinstance(l, dict) and l.get("k") == "Bin" and l.get("op") == "==":
                        op, ids, consts, text = parts(l, env)
                        if len(consts) == 1:
                            chain_tail.append({"op": op, "ids": ids, "consts": consts, "text": text})
                    continue
                if isinstance(l, dict) and l.get("k") == "Bin" and l.get("op") in FLIP:
                    refs = set()
                    walk(l, lambda x: refs.add(x.get("d")) if x.get("k") == "Ref" and x.get("dk") == "local" else None)
                    if origin == "loop" and refs & ind:
                        continue
                    op, ids, consts, text = parts(l, env)
                    if any(d["text"] == text for d in lits):
                        continue
                    lits.append({"op": op, "ids": ids, "consts": consts, "text": text})
                elif isinstance(l, dict) and origin != "loop":
                    # a bit test `(x & m)`, possibly negated
                    neg = l.get("k") == "Un" and l.get("op") == "!"
                    core = strip(l["e"]) if neg else l
                    if not isinstance(core, dict) or core.get("k") != "Bin" or core.get("op") != "&":
                        continue   # only bit tests: predicate calls and compound negations are not boundaries
                    ids, consts = [], []

                    def v2(n):
                        k = n.get("k")
                        if k == "Ref" and "v" not in n:
                            b = env.get(n.get("d"), n.get("n"))
                            if isinstance(b, tuple):
                                ti, tc = [], []
                                idc(n, env, ti, tc)
                                ids.extend(ti)
                                consts.extend(tc)
                            else:
                                ids.append(b)
                        elif k == "Member" and "v" not in n:
                            ids.append(n.get("n") or n.get("f"))
                        elif k == "Call":
                            ids.append(n.get("cname"))
                        if "v" in n and k not in ("Call", "Assign", "Bin", "Un", "Cast", "Cond"):
                            consts.append(n["v"])
                    walk(core, v2)
                    text = ("!" if neg else "") + txt(core)
                    if any(d["text"] == text for d in lits):
                        continue
                    lits.append({"op": "not" if neg else "is", "ids": sorted(str(x) for x in ids if x), "consts": sorted(consts, key=lambda x: (str(type(x)), x)), "text": text})
            for t in chain_tail:
                if any(d["ids"] == t["ids"] and d["op"] == "!=" and len(d["consts"]) == 1 for d in lits) and not any(d["text"] == t["text"] for d in lits):
                    lits.append(t)
            if not lits:
                continue
            base = "%s::%s->%s" % (short(fn["rect"]), fn["name"], c["cname"])
            i = cnt.get(base, 0)
            cnt[base] = i + 1
            lits = _merge_relations(lits)
            if lits is None:
                continue
            lits.sort(key=lambda d: (d["ids"], d["text"]))
            rows["%s#%d" % (base, i)] = {"lits": lits, "text": " && ".join(d["text"] for d in lits), "loc": c.get("loc"), "fn": fn["qname"]}
    return rows


def name_universe(facts):
    """every field, function and namespace-scope variable name of the analysed program"""
    names = set()
    for r in facts.records():
        for f in r.get("fields", []):
            names.add(f.get("n"))
    for f in functions_by(facts).values():
        names.add(f["name"])
    try:
        for g in facts.globals():
            names.add((g.get("n") or g.get("qname") or "").split("::")[-1])
    except Exception:
        pass
    names.discard(None)
    return names


_RENAMES = [None, None]      # (names that exist now, names that existed when the table was reviewed)


def _rn(ids, universe):
    """identity list with the names outside `universe` made anonymous: a reviewed name that no longer exists anywhere in the
    program and a current name that did not exist at review time are the two ends of a rename"""
    if universe is None:
        return ids
    return sorted(("~renamed" if (isinstance(i, str) and re.match(r"^[A-Za-z_][A-Za-z_0-9]*$", i) and i not in universe) else i) for i in ids)


def _cmp(want, got):
    """(status, detail pieces) for one reviewed call site against one current call site"""
    r0 = _cmp0(want, got)
    if r0[0] != "unrecognised" or _RENAMES[0] is None or not _RENAMES[1]:
        return r0
    # names that ceased to exist / came into existence since the review are read as renamed
    both = _RENAMES[0] & _RENAMES[1]
    r1 = _cmp0({"lits": [dict(w, ids=_rn(w["ids"], both)) for w in want["lits"]]}, {"lits": [dict(g, ids=_rn(g["ids"], both)) for g in got["lits"]]})
    return r1 if r1[0] != "unrecognised" else r0


def _cmp0(want, got):
    rest = list(got["lits"])
    moved, lost = [], []
    for w in want["lits"]:
        same = [g for g in rest if g["ids"] == w["ids"] and g["op"] == w["op"] and g["consts"] == w["consts"]]
        if same:
            rest.remove(same[0])
            continue
        near = [g for g in rest if g["ids"] == w["ids"]]
        if near:
            rest.remove(near[0])
            moved.append((w, near[0]))
        else:
            lost.append(w)
    if len(moved) == 1 and not lost and not rest:
        return "violated", moved      # everything else agrees: one boundary moved
    if moved or lost or rest:
        return "unrecognised", None
    return "discharged", None


def _defined_names(facts, cls):
    return set(f["name"] for f in functions_by(facts).values() if f.get("rect") and short(f["rect"]) == cls)


def obligations(facts, records=None):
    """the call sites of one structural operation inside one function are compared as a bag (swapping the branches of an if / else
    that both call it does not matter): exact matches first, then what is left is paired in source order"""
    spj = json.load(open(os.path.join(VERIF, "spec", "triggers.json")))
    sp = spj["triggers"]
    cur = inventory(facts)
    _RENAMES[0], _RENAMES[1] = name_universe(facts), set(spj.get("names") or [])
    out = []
    groups = {}
    for key in sorted(sp):
        if records is not None and not any(key.startswith(r + "::") for r in records):
            continue
        groups.setdefault(key.rsplit("#", 1)[0], []).append(key)
    # renamed private helpers: a reviewed caller->operation pair that is gone, whose caller (or operation) is no longer a function
    # of the class, is the one pair of the same class unknown to the reviewed table with the other end unchanged and the same
    # number of call sites (the conditions are then compared as usual, so a moved boundary is still reported)
    all_bases = set(k.rsplit("#", 1)[0] for k in sp)
    cur_bases = {}
    for k in cur:
        cur_bases.setdefault(k.rsplit("#", 1)[0], []).append(k)
    spec_callees = {}
    for b in all_bases:
        spec_callees.setdefault(b.split("::")[0], set()).add(b.split("->")[1])
    spec_callers = {}
    for b in all_bases:
        spec_callers.setdefault(b.split("::")[0], set()).add(b.split("::", 1)[1].split("->")[0])
    for base, keys in sorted(groups.items()):
        if base in cur_bases:
            continue
        cls = base.split("::")[0]
        caller, callee = base.split("::", 1)[1].split("->")
        defined = _defined_names(facts, cls)
        cands = []
        for b2, ks2 in cur_bases.items():
            if b2 in all_bases or b2.split("::")[0] != cls or len(ks2) != len(keys):
                continue
            caller2, callee2 = b2.split("::", 1)[1].split("->")
            ok_caller = caller2 == caller or (caller not in defined and caller2 not in spec_callers.get(cls, ()))
            ok_callee = callee2 == callee or (callee not in defined and callee2 not in spec_callees.get(cls, ()) and callee2 in defined)
            if ok_caller and ok_callee and (caller2 != caller or callee2 != callee):
                cands.append(b2)
        if len(cands) > 1:
            exact = [b2 for b2 in cands if all(any(_cmp(sp[k], cur[k2])[0] == "discharged" for k2 in cur_bases[b2]) for k in keys)]
            cands = exact if len(exact) == 1 else cands
        if len(cands) == 1:
            for i, k2 in enumerate(sorted(cur_bases[cands[0]])):
                cur["%s#%d" % (base, i)] = cur[k2]
    for base, keys in sorted(groups.items()):
        what = base.split("->")[1]
        have = [k for k in sorted(cur) if k.rsplit("#", 1)[0] == base]
        free = list(have)
        pending = []
        for key in keys:
            exact = [h for h in free if _cmp(sp[key], cur[h])[0] == "discharged"]
            if exact:
                free.remove(exact[0])
                out.append(ob("triggers", "trigger:" + key, cur[exact[0]]["loc"], "discharged", cur[exact[0]]["text"], cur[exact[0]]["fn"]))
            else:
                pending.append(key)
        for key in pending:
            want = sp[key]
            k = "trigger:" + key
            if not free and what not in _defined_names(facts, base.split("::")[0]):
                # the operation was a helper of this class that no longer exists (inlined by hand): the operations it called
                # are rows of their own and are compared there
                out.append(ob("triggers", k, "", "informational", "`%s` is no longer a function of %s (inlined?): the calls of its body are compared as rows of the caller" % (what, base.split("::")[0]), ""))
                continue
            if not free:
                out.append(ob("triggers", k, "", "unrecognised", "the call of `%s` under (%s) is no longer found (refactored?): re-review and update spec/triggers.json" % (key, want["text"]), ""))
                continue
            # prefer a remaining site whose boundary moved (same operands) over an unrelated one
            cand = [h for h in free if _cmp(want, cur[h])[0] == "violated"] or free
            h = cand[0]
            free.remove(h)
            got = cur[h]
            status, moved = _cmp(want, got)
            if status == "violated":
                w, g = moved[0]
                out.append(ob("triggers", k, got["loc"], "violated", "the boundary that triggers %s moved: now %s, reviewed %s (same operands, different %s): the structural operation now happens one step early/late - typically a violated precondition (pivot out of range, full table, capacity exceeded) or unbounded growth" % (what, g["text"], w["text"], "operator" if g["op"] != w["op"] else "constant"), got["fn"]))
            else:
                out.append(ob("triggers", k, got["loc"], "unrecognised", "%s is now reached under (%s), reviewed (%s): different operands - re-review" % (what, got["text"], want["text"]), got["fn"]))
    return out
