"""Conditional state assignments of readers: a reader that gives a restored field a default or derived value only on some paths
(`if (!has_window) compressed.table_num_entries = num_coupons;`) must keep doing so under the reviewed conditions.  The inventory
(spec/reader_assigns.json) lists, per reader, every plain assignment that is not itself a read of the image and that sits under
at least one branch condition, with the comparison / bit-test literals known to hold there (astu.reach: nesting, guard clauses,
else branches and && chains give the same literals; identities instead of names, triggers.flat_env).  Compared like the
structural triggers: as a bag per (reader, assigned target); exactly one literal with the same operands and another operator /
constant is a violation, anything else that differs is `unrecognised` (re-review)."""
import json
import os
from astu import strip, strip_all, walk, txt, short, functions_by, reach_tagged, induction_locals, inlined_body
from vlib.core import ob, VERIF
import triggers
import validators
import field_validation


UNCOND = {}


def _vtext(fn, e):
    from astu import canon_inl
    return txt(e, canon_inl(fn)).replace(" ", "")[:120]


def _base_of(fn, kind, l, root, cenv, env, av):
    # the assigned target: member path below the local object, the object by its identity
    path = []
    x = l
    while isinstance(x, dict) and x.get("k") == "Member":
        path.append(x.get("f"))
        x = strip_all(x.get("b") or {})
    ident = cenv.get(root.get("d"), root.get("n"))
    ident = ident if isinstance(ident, str) else root.get("n")
    if not path and root.get("d") in av and isinstance(ident, str) and ident.startswith(("=", "local<")):
        # a plain local is named by everything that flows into it (not by the spelling of its first value): `x = img; if (bad(x))
        # x = f();` and `x = bad(img) ? f() : img` name the same local
        ti, tc = [], []
        for val in av[root["d"]]:
            triggers.idc(val, env, ti, tc, 0, True)
        ident = "{" + ",".join(sorted(set(str(x) for x in ti if x))) + "|" + ",".join(sorted(set(str(x) for x in tc))) + "}"
    tgt = ".".join([ident] + list(reversed(path)))
    return "%s::%s(%s)->set %s" % (short(fn["rect"]), fn["name"], kind, tgt)


def _is_read(n):
    nm = n.get("cname") or ""
    return n.get("k") == "Call" and (nm in ("read", "copy_from_mem", "ignore", "memcpy", "read_big_endian") or nm.startswith(("deserialize", "read_", "copy_from")))


def inventory(facts):
    fns = functions_by(facts)
    triggers.set_helpers(fns)
    UNCOND.clear()
    rows = {}
    for pat, fn0 in sorted(fns.items()):
        if fn0["name"] not in validators.READER_NAMES or fn0.get("body") is None or not fn0.get("params") or not fn0.get("rect"):
            continue
        kind = field_validation._kind(fn0)
        if kind is None:
            continue
        fn = fn0
        env = triggers.flat_env(fn)
        cenv = triggers.canon_env(fn)
        ind = induction_locals(fn)
        sites = []

        in_loop = set()

        def lv(n):
            if n.get("k") in ("For", "While", "Do", "RangeFor"):
                walk(n.get("b"), lambda x: in_loop.add(id(x)) if x.get("k") == "Expr" else None)
                for part in ("init", "inc"):      # `for (i = 0; ..)`: the loop counter is not restored state
                    if isinstance(n.get(part), dict):
                        in_loop.add(id(n[part]))
                        walk(n[part], lambda x: in_loop.add(id(x)) if x.get("k") == "Expr" else None)
        walk(fn["body"], lv)

        def v(n):
            if n.get("k") == "Expr" and id(n) not in in_loop:      # per-element work inside loops is not a default of restored state
                e = strip(n.get("e"))
                if isinstance(e, dict) and e.get("k") == "Assign" and e.get("op") == "=":
                    l = strip_all(e["l"])
                    root = l
                    while isinstance(root, dict) and root.get("k") == "Member":
                        root = strip_all(root.get("b") or {})
                    if not (isinstance(root, dict) and root.get("k") == "Ref" and root.get("dk") == "local"):
                        return
                    hit = [False]
                    walk(e["r"], lambda x: hit.__setitem__(0, True) if _is_read(x) else None)
                    if hit[0]:
                        return
                    sites.append((n, e, l, root))
        walk(fn["body"], v)

        # `T x = c ? a : b;` outside loops is `T x; if (c) x = a; else x = b;`: one conditional assignment per arm
        def vd(n):
            if n.get("k") == "Decl" and id(n) not in in_loop_decl:
                for var in n.get("vars", []):
                    ini = strip_all(var.get("init") or {})
                    if ini.get("k") == "Cond" and "d" in var:
                        for arm, neg in ((ini["a"], False), (ini["e"], True)):
                            hit = [False]
                            walk(arm, lambda x: hit.__setitem__(0, True) if _is_read(x) else None)
                            if hit[0]:
                                continue
                            ref = {"k": "Ref", "d": var["d"], "dk": "local", "n": var.get("n"), "t": var.get("t"), "loc": var.get("loc")}
                            sites.append((n, {"k": "Assign", "op": "=", "l": ref, "r": arm, "loc": n.get("loc"), "cond": (ini["c"], neg)}, ref, ref))
        def vu(n):
            if n.get("k") == "Decl" and id(n) not in in_loop_decl:
                for var in n.get("vars", []):
                    ini = strip_all(var.get("init") or {})
                    if ini and ini.get("k") != "Cond" and "d" in var:
                        ref = {"k": "Ref", "d": var["d"], "dk": "local", "n": var.get("n"), "t": var.get("t")}
                        UNCOND.setdefault(_base_of(fn, kind, ref, ref, cenv, env, triggers.assigned_value_sets(fn)), set()).add(_vtext(fn, var["init"]))
        in_loop_decl = set()
        walk(fn["body"], lambda n: walk(n.get("b"), lambda x: in_loop_decl.add(id(x)) if x.get("k") == "Decl" else None) if n.get("k") in ("For", "While", "Do", "RangeFor") else None)
        walk(fn["body"], vd)
        walk(fn["body"], vu)
        av = triggers.assigned_value_sets(fn)
        sites.sort(key=lambda s: triggers._loc_key(s[0]))
        cnt = {}
        for n, e, l, root in sites:
            lits = []
            extra = []
            if e.get("cond") is not None:
                from astu import literals, negate
                c0, neg0 = e["cond"]
                bl = validators._bool_locals(fn)

                def expand(l0, depth=0):
                    # named conditions read as what they name, like in astu.reach
                    x = strip(l0)
                    if isinstance(x, dict) and x.get("k") == "Ref" and x.get("d") in bl and depth < 3:
                        return [y for l2 in literals(bl[x["d"]]) for y in expand(l2, depth + 1)]
                    if isinstance(x, dict) and x.get("k") == "Un" and x.get("op") == "!" and isinstance(strip(x.get("e")), dict) and strip(x["e"]).get("k") == "Ref" and strip(x["e"]).get("d") in bl and depth < 3:
                        return [y for l2 in negate(bl[strip(x["e"])["d"]]) for y in expand(l2, depth + 1)]
                    return [l0]
                extra = [(y, "cond") for l0 in (negate(c0) if neg0 else literals(c0)) for y in expand(l0)]
            env_site = env
            if l.get("k") == "Ref" and l.get("d") in av:
                others = [val for val in av[l["d"]] if val is not e.get("r")]
                if others and len(others) < len(av[l["d"]]):
                    env_site = dict(env)
                    env_site[l["d"]] = ("expr", others if len(others) > 1 else others[0], None)     # the test reads the earlier value
            for lit, origin in list(reach_tagged(fn["body"], n)) + extra:
                lit = strip(lit)
                if origin in ("after-throw", "loop"):
                    continue
                if isinstance(lit, dict) and lit.get("k") == "Bin" and lit.get("op") in triggers.FLIP:
                    op, ids, consts, text = triggers.parts(lit, env_site)
                    if not any(d["text"] == text for d in lits):
                        lits.append({"op": op, "ids": ids, "consts": consts, "text": text})
                elif isinstance(lit, dict):
                    neg = lit.get("k") == "Un" and lit.get("op") == "!"
                    core = strip(lit["e"]) if neg else lit
                    ids, consts = [], []
                    triggers.idc(core, env_site, ids, consts)
                    text = ("!" if neg else "") + txt(core)
                    if not any(d["text"] == text for d in lits):
                        lits.append({"op": "not" if neg else "is", "ids": sorted(str(x) for x in ids if x), "consts": sorted(consts, key=lambda x: (str(type(x)), x)), "text": text})
            if not lits:
                UNCOND.setdefault(_base_of(fn, kind, l, root, cenv, env, av), set()).add(_vtext(fn, e["r"]))
                continue
            lits = triggers._merge_relations(lits)
            if lits is None:
                continue
            base = _base_of(fn, kind, l, root, cenv, env, av)
            i = cnt.get(base, 0)
            cnt[base] = i + 1
            lits.sort(key=lambda d: (d["ids"], d["text"]))
            rows["%s#%d" % (base, i)] = {"lits": lits, "text": " && ".join(d["text"] for d in lits), "loc": n.get("loc"), "fn": fn["qname"], "value": _vtext(fn, e["r"])}
    return rows


def obligations(facts, families=None):
    sp = json.load(open(os.path.join(VERIF, "spec", "reader_assigns.json")))["assigns"]
    cur = inventory(facts)
    out = []
    groups = {}
    for key in sorted(sp):
        if families is not None and not any(sp[key].get("file", "").startswith(f + "/") for f in families):
            continue
        groups.setdefault(key.rsplit("#", 1)[0], []).append(key)
    for base, keys in sorted(groups.items()):
        have = [k for k in sorted(cur) if k.rsplit("#", 1)[0] == base]
        free = list(have)
        pending = []
        for key in keys:
            exact = [h for h in free if triggers._cmp(sp[key], cur[h])[0] == "discharged"]
            if exact:
                free.remove(exact[0])
                out.append(ob("reader.assign", "assign:" + key, cur[exact[0]]["loc"], "discharged", cur[exact[0]]["text"], cur[exact[0]]["fn"]))
            else:
                pending.append(key)
        for key in pending:
            want = sp[key]
            k = "assign:" + key
            if not free and want.get("value") and want["value"] in UNCOND.get(base, ()):
                out.append(ob("reader.assign", k, "", "discharged", "the value `%s` is now the default of %s, overridden under the complementary condition" % (want["value"][:60], base.split("->set ")[1][:60]), ""))
                continue
            if not free:
                out.append(ob("reader.assign", k, "", "unrecognised", "the conditional assignment `%s` under (%s) is no longer found in this form (refactored?): re-review and update spec/reader_assigns.json" % (key, want["text"]), ""))
                continue
            cand = [h for h in free if triggers._cmp(want, cur[h])[0] == "violated"] or free
            h = cand[0]
            free.remove(h)
            got = cur[h]
            status, moved = triggers._cmp(want, got)
            if status == "violated":
                w, g = moved[0]
                out.append(ob("reader.assign", k, got["loc"], "violated", "the condition under which the reader sets %s changed: now %s, reviewed %s (same operands, different %s): images for which the two differ are restored with another value of this field" % (base.split("->set ")[1], g["text"], w["text"], "operator" if g["op"] != w["op"] else "constant"), got["fn"]))
            else:
                # same literals up to one added / dropped: the assignment moved to another branch
                wl = set((tuple(d["ids"]), d["op"], tuple(str(c) for c in d["consts"])) for d in want["lits"])
                gl = set((tuple(d["ids"]), d["op"], tuple(str(c) for c in d["consts"])) for d in got["lits"])
                related = bool(wl & gl) or bool(set(i for i, o, c in wl) & set(i for i, o, c in gl))
                st = "violated" if related and len(keys) == len(have) else "unrecognised"
                out.append(ob("reader.assign", k, got["loc"], st, "the reader now sets %s under (%s), reviewed (%s): %s" % (base.split("->set ")[1], got["text"], want["text"], "the assignment moved to another branch - images of the states where the two conditions differ are restored with another value of this field" if st == "violated" else "different operands - re-review"), got["fn"]))
    return out
