"""C11 'never an unbounded allocation': in every reader (stream and bytes), a value taken from the image that can exceed 16 bits
(a 32/64-bit field, or a power of two whose exponent comes from the image) must be bounded - by a validation that throws, or, in a
byte reader, by a comparison with the buffer length - BEFORE it sizes an allocation (resize / reserve / allocate / sized
container construction).  Function-local, ordered by statement position; values of 8/16 bits used linearly are bounded by their
type (at most 65535 elements)."""
import re
from astu import C, ctxt, gt_pair, eq_const, reach, reach_txt, ctext, strip, strip_all, walk, txt, short, functions_by, local_decls, always_throws, stmts_of
from vlib.core import ob

READERS = ("deserialize", "deserialize_items", "deserialize_array", "deserialize_compat", "newList", "newSet", "newHll", "internal_deserialize_or_wrap",
           "deserialize_v1", "deserialize_v2", "deserialize_v3", "deserialize_v4", "wrap", "writable_wrap")
# helpers of the readers whose integer parameters are counts taken from the image by their callers
# (quantiles_sketch::deserialize_array is not listed: its callers pass counts derived from the 16-bit k only)
HELPER_PARAMS = {"deserialize_items": ("num",)}
WIDTH = {"unsigned char": 8, "char": 8, "signed char": 8, "bool": 1, "unsigned short": 16, "short": 16, "unsigned int": 32, "int": 32, "unsigned long": 64, "long": 64,
         "unsigned long long": 64, "long long": 64, "float": 32, "double": 64}


def _w(t):
    return WIDTH.get((t or "").replace("const ", "").strip(), 0)


def var_key(e):
    e = strip_all(e)
    if e.get("k") == "Ref" and e.get("dk") in ("local", "param"):
        return ("L", e["d"], e["n"])
    if e.get("k") == "Member" and strip_all(e.get("b") or {}).get("k") == "Ref" and strip_all(e["b"]).get("dk") == "local":
        return ("M", "%s.%s" % (strip_all(e["b"])["d"], e["f"]), strip_all(e["b"])["n"] + "." + e["f"])
    return None


def _has_throw(fn):
    hit = [False]
    walk(fn["body"], lambda n: hit.__setitem__(0, True) if n.get("k") == "Throw" else None)
    return hit[0]


def obligations(facts):
    fns = functions_by(facts)
    out = []
    n_sinks = 0
    for pat, fn in sorted(fns.items()):
        if (fn["name"] not in READERS and fn["name"] not in HELPER_PARAMS) or fn.get("body") is None or not fn["params"]:
            continue
        allp = " ".join(p["t"] for p in fn["params"])
        kind = "stream" if "basic_istream" in allp else ("bytes" if fn["params"][0]["t"].startswith(("const void", "void", "const unsigned char", "const char")) else None)
        if kind is None:
            continue
        taint = {}      # key -> (bits, origin)
        bounded = set()
        sources = {}    # derived key -> keys it was computed from (monotone arithmetic only)
        throwing = {p for p, f in fns.items() if f.get("body") is not None and _has_throw(f)}
        events = []     # ordered by source position

        def pos(n):
            m = re.search(r":(\d+)(?::(\d+))?$", n.get("loc", "") or "")
            return (int(m.group(1)), int(m.group(2) or 0)) if m else (0, 0)

        def magnitude(e):
            """(bits, [tainted keys]) of an expression: upper bound on log2 of its value as far as image values are concerned"""
            e = strip_all(e)
            k = e.get("k")
            vk = var_key(e)
            if vk and vk[:2] in {x[:2] for x in taint}:
                kk = [x for x in taint if x[:2] == vk[:2]][0]
                return (taint[kk][0] if kk not in bounded else 0, [kk] if kk not in bounded else [])
            if "v" in e and k not in ("Call",):
                try:
                    return (max(int(e["v"]), 1).bit_length() if isinstance(e["v"], int) else 0, [])
                except Exception:
                    return (0, [])
            if k == "Bin":
                a, ka = magnitude(e["l"])
                b, kb = magnitude(e["r"])
                op = e.get("op")
                if op == "<<":
                    if kb:   # shift by an image value: exponential
                        return (64, ka + kb)
                    rv = strip_all(e["r"]).get("v")
                    return (a + (int(rv) if isinstance(rv, int) else 6) if ka else 0, ka)
                if op == "*":
                    return ((a + b) if (ka or kb) else 0, ka + kb)
                if op in ("+", "-", "|", "^"):
                    return (max(a, b) + (1 if op == "+" else 0) if (ka or kb) else 0, ka + kb)
                if op in (">>", "/", "&", "%"):
                    return (a if ka else 0, ka)   # not larger than the left operand
                return (0, [])
            if k == "Cond":
                a, ka = magnitude(e["a"])
                b, kb = magnitude(e["e"])
                return (max(a, b), ka + kb)
            if k in ("Call", "OpCall", "Construct"):
                best, keys = 0, []
                for a in e.get("args", []):
                    m, kk = magnitude(a)
                    if kk:
                        best, keys = max(best, m), keys + kk
                # a function of image values: its result width is that of its return type
                return (min(best, _w(e.get("t")) or best) if keys else 0, keys)
            if k == "Un":
                return magnitude(e["e"])
            return (0, [])

        def mentions(c, key):
            hit = [False]

            def rec(x):
                if isinstance(x, list):
                    for y in x:
                        rec(y)
                    return
                if not isinstance(x, dict):
                    return
                if x.get("k") == "Sizeof":
                    return  # sizeof(field) says nothing about the field's value
                vk = var_key(x)
                if vk and vk[:2] == key[:2]:
                    hit[0] = True
                for y in x.values():
                    rec(y)
            rec(c)
            return hit[0]

        def visit(n):
            k = n.get("k")
            if k == "Decl":
                for v in n.get("vars", []):
                    ini = v.get("init")
                    if ini is None:
                        continue
                    s = strip_all(ini)
                    key = ("L", v["d"], v["n"])
                    if s.get("k") == "Call" and s.get("cname") in ("read", "read_big_endian"):
                        events.append((pos(v), "taint", key, (_w(v.get("t")), "read")))
                    elif s.get("k") in ("Index",) and _w(v.get("t")) <= 8:
                        events.append((pos(v), "taint", key, (8, "byte")))
                    else:
                        events.append((pos(v), "derive", key, ini))
            if k == "Call" and n.get("cname") in ("copy_from_mem", "memcpy"):
                for a in n.get("args", [])[:2]:
                    a = strip_all(a)
                    r = strip_all(a["e"]) if a.get("k") == "Un" and a.get("op") == "&" else a
                    vk = var_key(r)
                    if vk and _w(r.get("t")):
                        events.append((pos(n), "taint", vk, (_w(r.get("t")), "copy")))
            if k == "Assign" and n.get("op") == "=":
                vk = var_key(n["l"])
                if vk:
                    s = strip_all(n["r"])
                    if s.get("k") == "Call" and s.get("cname") in ("read", "read_big_endian"):
                        events.append((pos(n), "taint", vk, (_w(strip_all(n["l"]).get("t")), "read")))
                    else:
                        events.append((pos(n), "derive", vk, n["r"]))
            if k == "If" and n.get("e") is None and always_throws(n.get("t")):
                events.append((pos(n), "guard", None, n["c"]))
            if k == "Call" and ((n.get("cname") or "").startswith(("check", "ensure", "validate"))):
                events.append((pos(n), "checkcall", None, n))
            if k == "Call" and n.get("cname") in ("resize", "reserve", "allocate") and n.get("args"):
                events.append((pos(n), "sink", n.get("cname"), n["args"][0], n))
            if k == "Construct" and (n.get("crec") or "") == "std::vector" and n.get("args") and _w(strip_all(n["args"][0]).get("t")) >= 8 and len(n.get("ptypes") or []) >= 1 and _w((n.get("ptypes") or [""])[0]) >= 32:
                events.append((pos(n), "sink", "vector(n)", n["args"][0], n))
        walk(fn["body"], visit)
        for p_ in fn["params"]:
            if p_["n"] in HELPER_PARAMS.get(fn["name"], ()) and _w(p_["t"]) >= 32:
                events.append(((0, 0), "taint", ("L", p_["d"], p_["n"]), (_w(p_["t"]), "count parameter handed over by the reader")))
        events.sort(key=lambda e: e[0])
        idx = 0
        for ev in events:
            what = ev[1]
            if what == "taint":
                taint[ev[2]] = ev[3]
                bounded.discard(ev[2])
            elif what == "derive":
                m, keys = magnitude(ev[3])
                e0 = strip_all(ev[3])
                if keys and e0.get("k") == "Call" and e0.get("cpat") in throwing and not (e0.get("cname") or "").startswith(("read", "copy")):
                    # result of a library function that validates its arguments (contains throw): relations between the image
                    # fields were checked there; the result is treated as validated (reviewed: validate_and_get_target_size)
                    taint[ev[2]] = (m, "validated result of %s" % e0.get("cname"))
                    bounded.add(ev[2])
                elif keys:
                    taint[ev[2]] = (m, "derived from " + ", ".join(sorted({k[2] for k in keys})))
                    bounded.discard(ev[2])
                    sources[ev[2]] = set(keys)
                else:
                    taint.pop(ev[2], None)
            elif what == "guard":
                c = strip_all(ev[3])
                for key in list(taint):
                    if mentions(c, key):
                        t = txt(c)
                        # any throwing comparison that mentions the value bounds or pins it; `good()` tests do not mention values
                        if any(op in t for op in (">", "<", "!=", "==")):
                            bounded.add(key)
                            bounded.update(sources.get(key, ()))   # a bound on n * c bounds n
                        # values this one was derived into are bounded when recomputed later; values derived FROM a bounded one are handled at derive time
            elif what == "checkcall":
                for key in list(taint):
                    if any(mentions(a, key) for a in ev[3].get("args", [])):
                        bounded.add(key)
                        bounded.update(sources.get(key, ()))
            elif what == "sink":
                n_sinks += 1
                m, keys = magnitude(ev[3])
                keys = [k for k in keys if k not in bounded]
                key = "%s(%s):%s#%d" % (short(fn["patq"]), kind, ev[2], idx)
                idx += 1
                if keys and m > 24:
                    names = ", ".join(sorted({k[2] for k in keys}))
                    out.append(ob("reader.unbounded-allocation", key, ev[4]["loc"], "violated", "%s(%s) is sized by the image value(s) %s (up to 2^%d) with no validation %sbefore the allocation: one corrupted field makes the reader request an allocation unrelated to the size of the image" % (ev[2], txt(ev[3])[:50], names, min(m, 64), "or buffer-length check " if kind == "bytes" else ""), fn["qname"]))
                else:
                    out.append(ob("reader.unbounded-allocation", key, ev[4]["loc"], "discharged", "allocation size `%s` is bounded (by type width, a validation or a length check) when it is evaluated" % txt(ev[3])[:50], fn["qname"]))
    if n_sinks < 20:
        out.append(ob("reader.unbounded-allocation", "anchor", "", "unrecognised", "only %d allocation sinks found in readers" % n_sinks, ""))
    return out
