#!/usr/bin/env python3
"""A1 prototype: bounded-cursor abstract interpretation of byte-level readers.

State per path:
  env   : decl-id -> value   (Ptr(off:Poly) | EndPtr | Poly | Pred | None)
  G     : list of Poly g with  size >= g
  pc    : dict atom -> bool   (path condition over atoms)
  eqs   : dict symbol -> int  (symbol == const known on this path)
  los   : dict symbol -> int  (symbol >= const known on this path)
Obligation at a read of w bytes at offset off: exists g in G with (g - off - w) syntactically >= 0
after substituting eqs and lower bounds (sym := lo + fresh).
"""
import json, sys, glob, itertools, copy, re
from poly import Poly

SIZE = "size"


class Ptr:
    def __init__(self, off, stride=1):
        self.off = off  # Poly, bytes from buffer start
        self.stride = stride  # sizeof pointee

    def __repr__(self):
        return "Ptr(%r,x%d)" % (self.off, self.stride)


class Atom:
    """boolean atom: ('bit', sym, mask) | ('cmp', polyrepr) | ('opaque', text)"""
    pass


class Pred:
    """predicate tree: ('atom', key) | ('not', p) | ('and', a, b) | ('or', a, b) | ('cmp', op, Poly, Poly) | ('true',) | ('false',)"""

    def __init__(self, t):
        self.t = t

    def __repr__(self):
        return "Pred%r" % (self.t,)


def p_not(p):
    t = p.t
    if t[0] == "not":
        return t[1]
    if t[0] == "true":
        return Pred(("false",))
    if t[0] == "false":
        return Pred(("true",))
    if t[0] == "cmp":
        neg = {"<": ">=", ">=": "<", ">": "<=", "<=": ">", "==": "!=", "!=": "=="}
        return Pred(("cmp", neg[t[1]], t[2], t[3]))
    if t[0] == "and":
        return Pred(("or", p_not(t[1]), p_not(t[2])))
    if t[0] == "or":
        return Pred(("and", p_not(t[1]), p_not(t[2])))
    return Pred(("not", p))


class Unrecognised(Exception):
    pass


class State:
    def __init__(self):
        self.env = {}
        self.mem = {}  # member-path string -> value
        self.G = []
        self.pc = {}  # atom key -> bool
        self.eqs = {}
        self.los = {}
        self.his = {}
        self.imps = []  # implications from validators: (list of (atomkey,bool)), Pred consequence
        self.fresh = 0
        self.trace = []
        self._firing = False
        self.decisions = []

    def clone(self):
        s = State()
        s.env = dict(self.env)
        s.mem = dict(self.mem)
        s.G = list(self.G)
        s.pc = dict(self.pc)
        s.eqs = dict(self.eqs)
        s.los = dict(self.los)
        s.his = dict(self.his)
        s.imps = list(self.imps)
        s.fresh = self.fresh
        s.trace = list(self.trace)
        s.decisions = list(self.decisions)
        return s


class Analyzer:
    def __init__(self, facts):
        self.fns = {}
        self.by_pat = {}
        for f in facts:
            for fn in f["functions"]:
                self.fns[fn["id"], id(f)] = fn
                self.by_pat.setdefault(fn["pat"], []).append(fn)
        self.counter = itertools.count()
        self.obligations = []
        self.validator_cache = {}
        self.entry_req = {}

    # ---------- helpers
    def fresh(self, hint, loc=None):
        loc = loc or getattr(self, "cur_loc", None)
        if loc is not None:
            return "%s#%s" % (hint, loc.split("/")[-1])
        return "%s#%d" % (hint, next(self.counter))

    def report(self, fn, loc, kind, status, detail):
        self.obligations.append({"fn": fn["qname"], "pat": fn["pat"], "loc": loc, "kind": kind, "status": status, "detail": detail})

    # ---------- obligation
    def covered(self, st, need):
        """need: Poly upper offset (off + w). True if some g in G proves size >= need."""
        for g in st.G:
            if self.nonneg(st, g - need):
                return True
        return False

    def nonneg(self, st, p):
        # substitute equalities, then lower bounds
        q = p
        for _ in range(3):
            for s, c in st.eqs.items():
                if s in q.symbols():
                    q = q.subst(s, c if isinstance(c, Poly) else Poly.const(c))
        if q.nonneg_syntactic():
            return True
        # lower bounds: sym = lo + d (d>=0) helps only if coefficient positive; upper bounds if negative
        for s in list(q.symbols()):
            coeff_signs = set((v > 0) for k, v in q.t.items() if s in k)
            if coeff_signs == {True} and s in st.los:
                q = q.subst(s, Poly.const(st.los[s]) + Poly.sym(s + "'"))
            elif coeff_signs == {False} and s in st.his:
                # s <= hi : s = hi - d
                q = q.subst(s, Poly.const(st.his[s]) - Poly.sym(s + "'"))
        return q.nonneg_syntactic()

    # ---------- predicates
    def assume(self, st, pred, val=True):
        """Add pred==val to state. Returns False if contradiction detected."""
        if not val:
            pred = p_not(pred)
        t = pred.t
        if t[0] == "true":
            return True
        if t[0] == "false":
            return False
        if t[0] == "and":
            return self.assume(st, t[1]) and self.assume(st, t[2])
        if t[0] == "eqp":
            st.eqs[t[1]] = t[2]
            return True
        if t[0] == "not":
            inner = t[1].t
            if inner[0] == "atom":
                if st.pc.get(inner[1], False) is True and inner[1] in st.pc:
                    return False
                st.pc[inner[1]] = False
                return self.fire_imps(st)
            return True
        if t[0] == "atom":
            if t[1] in st.pc and st.pc[t[1]] is False:
                return False
            st.pc[t[1]] = True
            return self.fire_imps(st)
        if t[0] == "cmp":
            op, a, b = t[1], t[2], t[3]
            d = a - b  # a op b  <=> d op 0
            syms = d.symbols()
            if SIZE in syms and d.t.get((SIZE,), 0) in (1, -1) and all(SIZE not in k or k == (SIZE,) for k in d.t):
                # normalise to  size >= e / size > e
                coef = d.t[(SIZE,)]
                rest = d - Poly({(SIZE,): coef})
                if coef == 1:   # size + rest op 0  => size op -rest
                    e, o = -rest, op
                else:           # -size + rest op 0 => size (flip) rest
                    e, o = rest, {"<": ">", ">": "<", "<=": ">=", ">=": "<=", "==": "==", "!=": "!="}[op]
                if o == ">=":
                    st.G.append(e)
                elif o == ">":
                    st.G.append(e + 1)
                elif o == "==":
                    st.G.append(e)
                return True
            if len(syms) == 1 and all(len(k) <= 1 for k in d.t):
                s = next(iter(syms))
                coef = d.t.get((s,), 0)
                c = d.t.get((), 0)
                if coef in (1, -1):
                    # coef*s + c op 0
                    if coef == 1:
                        k = -c  # s op k
                        o = op
                    else:
                        k = c  # -s + c op 0 => s (flip op) c
                        o = {"<": ">", ">": "<", "<=": ">=", ">=": "<=", "==": "==", "!=": "!="}[op]
                    if o == "==":
                        if s in st.eqs and not isinstance(st.eqs[s], Poly) and st.eqs[s] != k:
                            return False
                        st.eqs[s] = k
                    elif o == ">=":
                        st.los[s] = max(st.los.get(s, k), k)
                    elif o == ">":
                        st.los[s] = max(st.los.get(s, k + 1), k + 1)
                    elif o == "<=":
                        st.his[s] = min(st.his.get(s, k), k)
                    elif o == "<":
                        st.his[s] = min(st.his.get(s, k - 1), k - 1)
                    elif o == "!=":
                        if st.eqs.get(s) == k:
                            return False
                        # record as exclusion when range is two-valued
                        lo, hi = st.los.get(s), st.his.get(s)
                        if lo is not None and hi is not None:
                            if lo == k:
                                st.los[s] = lo + 1
                            if hi == k:
                                st.his[s] = hi - 1
                    lo, hi = st.los.get(s), st.his.get(s)
                    if lo is not None and hi is not None:
                        if lo > hi:
                            return False
                        if lo == hi:
                            st.eqs[s] = lo
                    if s in st.eqs and not isinstance(st.eqs[s], Poly):
                        e = st.eqs[s]
                        if (lo is not None and e < lo) or (hi is not None and e > hi):
                            return False
                    return self.fire_imps(st)
            # size >= e forms : G
            if op in (">=",) and a == Poly.sym(SIZE):
                st.G.append(b)
            elif op in ("<=",) and b == Poly.sym(SIZE):
                st.G.append(a)
            elif op == ">" and a == Poly.sym(SIZE):
                st.G.append(b + 1)
            elif op in (">=", ">") and (a - Poly.sym(SIZE)).nonneg_syntactic() is False:
                # forms like (size - X) >= e  ==> size >= X + e
                if a.t.get((SIZE,), 0) == 1:
                    rest = a - Poly.sym(SIZE)
                    st.G.append(b - rest + (1 if op == ">" else 0))
            return True
        if t[0] == "or":
            # keep only if one side is already false
            l, r = t[1], t[2]
            def eqc(p):
                if p.t[0] == "cmp" and p.t[1] == "==":
                    dd = p.t[2] - p.t[3]
                    sy = dd.symbols()
                    if len(sy) == 1 and dd.t.get((next(iter(sy)),), 0) == 1 and all(len(k) <= 1 for k in dd.t):
                        return next(iter(sy)), -dd.t.get((), 0)
                return None
            el, er = eqc(l), eqc(r)
            if el and er and el[0] == er[0]:
                sname = el[0]
                lo, hi = min(el[1], er[1]), max(el[1], er[1])
                st.los[sname] = max(st.los.get(sname, lo), lo)
                st.his[sname] = min(st.his.get(sname, hi), hi)
                if st.los[sname] == st.his[sname]:
                    st.eqs[sname] = st.los[sname]
                return st.los[sname] <= st.his[sname]
            if self.known(st, l) is False:
                return self.assume(st, r)
            if self.known(st, r) is False:
                return self.assume(st, l)
            if len(st.imps) < 64:
                st.imps.append(([], pred))
            return True
        return True

    def or_as_range(self, st, pred):
        """(s == a) || (s == b) on one symbol -> range [min,max]; returns True if handled"""
        vals = []
        def collect(p):
            if p.t[0] == "or":
                return collect(p.t[1]) and collect(p.t[2])
            if p.t[0] == "cmp" and p.t[1] == "==":
                dd = p.t[2] - p.t[3]
                sy = dd.symbols()
                if len(sy) == 1 and dd.t.get((next(iter(sy)),), 0) == 1 and all(len(k) <= 1 for k in dd.t):
                    vals.append((next(iter(sy)), -dd.t.get((), 0)))
                    return True
            return False
        if not collect(pred) or len(set(v[0] for v in vals)) != 1:
            return False
        sname = vals[0][0]
        lo, hi = min(v[1] for v in vals), max(v[1] for v in vals)
        st.los[sname] = max(st.los.get(sname, lo), lo)
        st.his[sname] = min(st.his.get(sname, hi), hi)
        if st.los[sname] == st.his[sname]:
            st.eqs[sname] = st.los[sname]
        return True

    def known(self, st, pred):
        t = pred.t
        if t[0] == "true":
            return True
        if t[0] == "false":
            return False
        if t[0] == "atom":
            return st.pc.get(t[1])
        if t[0] == "eqp":
            return None
        if t[0] == "not":
            k = self.known(st, t[1])
            return None if k is None else (not k)
        if t[0] == "and":
            a, b = self.known(st, t[1]), self.known(st, t[2])
            if a is False or b is False:
                return False
            if a is True and b is True:
                return True
            return None
        if t[0] == "or":
            a, b = self.known(st, t[1]), self.known(st, t[2])
            if a is True or b is True:
                return True
            if a is False and b is False:
                return False
            return None
        if t[0] == "cmp":
            op, a, b = t[1], t[2], t[3]
            d = a - b
            for s, c in st.eqs.items():
                if s in d.symbols():
                    d = d.subst(s, c if isinstance(c, Poly) else Poly.const(c))
            if d.is_const():
                v = d.const_value()
                return {"<": v < 0, ">": v > 0, "<=": v <= 0, ">=": v >= 0, "==": v == 0, "!=": v != 0}[op]
            syms = d.symbols()
            if len(syms) == 1 and all(len(k) <= 1 for k in d.t):
                s = next(iter(syms))
                coef = d.t.get((s,), 0)
                c = d.t.get((), 0)
                lo, hi = st.los.get(s), st.his.get(s)
                if coef == 1:
                    # s + c op 0
                    if lo is not None and op in (">=",) and lo + c >= 0:
                        return True
                    if lo is not None and op in (">",) and lo + c > 0:
                        return True
                    if hi is not None and op in ("<",) and hi + c < 0:
                        return True
                    if hi is not None and op in ("<=",) and hi + c <= 0:
                        return True
                    if op == "==" and ((lo is not None and lo + c > 0) or (hi is not None and hi + c < 0)):
                        return False
                    if op == "!=" and ((lo is not None and lo + c > 0) or (hi is not None and hi + c < 0)):
                        return True
                    if lo is not None and op == "<" and lo + c >= 0:
                        return False
                    if hi is not None and op == ">" and hi + c <= 0:
                        return False
            return None
        return None

    def fire_imps(self, st):
        if getattr(st, "_firing", False):
            return True
        st._firing = True
        try:
            for _round in range(50):
                pending = st.imps
                st.imps = []
                progressed = False
                for guards, cons in pending:
                    vals = [self.known(st, g) for g in guards]
                    if any(v is False for v in vals):
                        progressed = True
                        continue  # guard false on this path: drop
                    if all(v is True for v in vals):
                        if cons.t[0] == "or":
                            kl, kr = self.known(st, cons.t[1]), self.known(st, cons.t[2])
                            if kl is True or kr is True:
                                progressed = True
                                continue
                            if kl is None and kr is None:
                                if self.or_as_range(st, cons):
                                    progressed = True
                                    continue
                                st.imps.append((guards, cons))
                                continue
                            if kl is None and kr is not False:
                                st.imps.append((guards, cons))
                                continue
                            if kr is None and kl is not False:
                                st.imps.append((guards, cons))
                                continue
                        if not self.assume(st, cons):
                            return False
                        progressed = True
                    else:
                        st.imps.append((guards, cons))
                if not progressed:
                    break
            return True
        finally:
            st._firing = False

    # ---------- expression evaluation
    def ev(self, fn, st, e):
        """returns value: Poly | Ptr | Pred | 'END' | None(unknown)"""
        if e is None:
            return None
        k = e["k"]
        if "loc" in e:
            self.cur_loc = e["loc"]
        ty = e.get("t", "")
        if "v" in e and k not in ("Assign", "Call", "OpCall") and not ty.endswith("*"):
            if ty == "bool":
                return Pred(("true",)) if e["v"] else Pred(("false",))
            return Poly.const(e["v"])
        if k == "Int":
            return Poly.const(int(e["lit"]))
        if k == "Bool":
            return Pred(("true",)) if e["b"] else Pred(("false",))
        if k == "Sizeof":
            return Poly.const(e["v"]) if "v" in e else None
        if k == "Ref":
            if e["d"] in st.env:
                return st.env[e["d"]]
            return None
        if k == "Member":
            key = self.mpath(e)
            if key in st.mem:
                return st.mem[key]
            return None
        if k == "Cast":
            v = self.ev(fn, st, e["e"])
            if isinstance(v, Ptr):
                sz = self.pointee_size(e["t"])
                return Ptr(v.off, sz)
            if e["t"] == "bool" and isinstance(v, Poly):
                return Pred(("cmp", "!=", v, Poly.const(0)))
            if isinstance(v, Pred) and e["t"] != "bool":
                return None
            return v
        if k == "Un":
            op = e["op"]
            if op in ("++", "--"):
                tgt = e["e"]
                old = self.ev(fn, st, tgt)
                if isinstance(old, Ptr):
                    new = Ptr(old.off + (old.stride if op == "++" else -old.stride), old.stride)
                    self.assign(fn, st, tgt, new)
                    return old if e["post"] else new
                if isinstance(old, Poly):
                    new = old + (1 if op == "++" else -1)
                    self.assign(fn, st, tgt, new)
                    return old if e["post"] else new
                self.assign(fn, st, tgt, None)
                return None
            if op == "*":
                v = self.ev(fn, st, e["e"])
                if isinstance(v, Ptr):
                    w = e.get("sz") or v.stride
                    self.read(fn, st, v.off, Poly.const(w), e["loc"], "deref")
                    return Poly.sym(self.fresh("img"))
                return None
            if op == "!":
                v = self.ev(fn, st, e["e"])
                if isinstance(v, Pred):
                    return p_not(v)
                if isinstance(v, Poly):
                    return Pred(("cmp", "==", v, Poly.const(0)))
                return None
            if op == "&":
                # address-of: treat &x as opaque; &buf[i] handled by Index returning lvalue? keep unknown
                inner = e["e"]
                if inner["k"] == "Index":
                    b = self.ev(fn, st, inner["b"])
                    i = self.ev(fn, st, inner["i"])
                    if isinstance(b, Ptr) and isinstance(i, Poly):
                        return Ptr(b.off + i * b.stride, b.stride)
                return None
            if op == "-":
                v = self.ev(fn, st, e["e"])
                return -v if isinstance(v, Poly) else None
            return None
        if k == "Bin":
            op = e["op"]
            if op in ("&&", "||"):
                l = self.as_pred(self.ev(fn, st, e["l"]))
                r = self.as_pred(self.ev(fn, st, e["r"]))
                if l is None or r is None:
                    return None
                return Pred(("and" if op == "&&" else "or", l, r))
            l = self.ev(fn, st, e["l"])
            r = self.ev(fn, st, e["r"])
            if op == ",":
                return r
            if op in ("<", ">", "<=", ">=", "==", "!="):
                if isinstance(l, Ptr) and isinstance(r, Ptr):
                    return Pred(("cmp", op, l.off, r.off))
                if isinstance(l, Poly) and isinstance(r, Poly):
                    return Pred(("cmp", op, l, r))
                if isinstance(l, Pred) and isinstance(r, Poly) and op in (">", "!=") and r == Poly.const(0):
                    return l
                # a bit test compared with zero, either way round: (x & m) != 0, 0 != (x & m), (x & m) > 0 are the test;
                # (x & m) == 0 is its negation
                for a, b, o in ((l, r, op), (r, l, {"<": ">", ">": "<", "<=": ">=", ">=": "<="}.get(op, op))):
                    if (isinstance(a, tuple) or isinstance(a, Pred)) and isinstance(b, Poly) and b == Poly.const(0):
                        pa = self.as_pred(a)
                        if pa is not None and o in ("!=", ">"):
                            return pa
                        if pa is not None and o == "==":
                            return p_not(pa)
                return None
            if op == "+":
                if isinstance(l, Ptr) and isinstance(r, Poly):
                    return Ptr(l.off + r * l.stride, l.stride)
                if isinstance(r, Ptr) and isinstance(l, Poly):
                    return Ptr(r.off + l * r.stride, r.stride)
                if isinstance(l, Poly) and isinstance(r, Poly):
                    return l + r
                return None
            if op == "-":
                if isinstance(l, Ptr) and isinstance(r, Ptr):
                    if l.stride == 1:
                        return l.off - r.off
                    return None
                if isinstance(l, Ptr) and isinstance(r, Poly):
                    return Ptr(l.off - r * l.stride, l.stride)
                if isinstance(l, Poly) and isinstance(r, Poly):
                    return l - r
                return None
            if op == "*":
                if isinstance(l, Poly) and isinstance(r, Poly):
                    return l * r
                return None
            if op == "<<":
                if isinstance(l, Poly) and isinstance(r, Poly) and r.is_const():
                    return l * (1 << r.const_value())
                if isinstance(l, Poly) and isinstance(r, Poly):
                    self.check_bounded(fn, st, r, e["loc"], "shift")
                    return l * Poly.sym("pow2(%r)" % (r,))
                return None
            if op == "&":
                # flag test: sym & mask
                if isinstance(l, Poly) and isinstance(r, Poly) and r.is_const() and len(l.symbols()) == 1 and l == Poly.sym(next(iter(l.symbols()))):
                    m = r.const_value()
                    if m and (m & (m - 1)) == 0:
                        return ("bits", next(iter(l.symbols())), m)
                    return Poly.sym(self.fresh("masked"))
                return None
            if op == "|" and (isinstance(l, tuple) or isinstance(r, tuple) or isinstance(l, Pred) or isinstance(r, Pred)):
                lp, rp = self.as_pred(l), self.as_pred(r)
                if lp is not None and rp is not None:
                    return Pred(("or", lp, rp))
                return None
            if op in ("/", "%", ">>", "|", "^"):
                if isinstance(l, Poly) and isinstance(r, Poly) and l.is_const() and r.is_const() and r.const_value():
                    a, b = l.const_value(), r.const_value()
                    return Poly.const({"/": a // b, "%": a % b, ">>": a >> b, "|": a | b, "^": a ^ b}[op])
                return Poly.sym(self.fresh("arith"))
            return None
        if k == "Cond":
            c = self.as_pred(self.ev(fn, st, e["c"]))
            kn = self.known(st, c) if c is not None else None
            if kn is True:
                return self.ev(fn, st, e["a"])
            if kn is False:
                return self.ev(fn, st, e["e"])
            ea, eb = e["a"], e["e"]
            while isinstance(ea, dict) and ea.get("k") == "Cast":
                ea = ea["e"]
            while isinstance(eb, dict) and eb.get("k") == "Cast":
                eb = eb["e"]
            if c is not None and ea.get("k") == "Bool" and eb.get("k") == "Bool" and ea["b"] != eb["b"]:
                return c if ea["b"] else p_not(c)   # (x ? true : false) is x
            a = self.ev(fn, st, e["a"])
            b = self.ev(fn, st, e["e"])
            # an arm the interpreter has no value for (the result of a library call) is an unknown integer: the selection as a
            # whole is then an unknown that later guards can still bound (`x = c ? f(..) : byte; if (x > max) throw;`)
            scalar = not any(z in (e.get("t") or "") for z in ("*", "std::", "double", "float"))
            if a is None and scalar and isinstance(b, Poly):
                a = Poly.sym(self.fresh("callv"))
            if b is None and scalar and isinstance(a, Poly):
                b = Poly.sym(self.fresh("callv"))
            if isinstance(a, Poly) and isinstance(b, Poly):
                if a == b:
                    return a
                # if one arm provably dominates the other, the result is (smaller arm) + d with d >= 0
                for lo_arm, hi_arm, lo_pred in ((a, b, c), (b, a, p_not(c) if c is not None else None)):
                    if not (a.is_const() and b.is_const()) and self.nonneg(st, hi_arm - lo_arm):
                        d = self.fresh("selrem")
                        if c is not None:
                            st.imps.append(([lo_pred], Pred(("eqp", d, Poly.const(0)))))
                            st.imps.append(([p_not(lo_pred)], Pred(("eqp", d, hi_arm - lo_arm))))
                        return lo_arm + Poly.sym(d)
                s = self.fresh("sel")
                # s >= min(a,b) if both const
                if a.is_const() and b.is_const():
                    st.los[s] = min(a.const_value(), b.const_value())
                    st.his[s] = max(a.const_value(), b.const_value())
                if c is not None:
                    st.imps.append(([c], Pred(("eqp", s, a))))
                    st.imps.append(([p_not(c)], Pred(("eqp", s, b))))
                return Poly.sym(s)
            return None
        if k == "Index":
            b = self.ev(fn, st, e["b"])
            i = self.ev(fn, st, e["i"])
            if isinstance(b, Ptr):
                if isinstance(i, Poly):
                    w = e.get("sz") or b.stride
                    self.read(fn, st, b.off + i * b.stride, Poly.const(w), e["loc"], "index")
                    return Poly.sym(self.fresh("img"))
                self.report(fn, e["loc"], "read", "unrecognised", "index with unknown subscript into buffer")
            return None
        if k == "Assign":
            return self.ev_assign(fn, st, e)
        if k == "Call":
            return self.ev_call(fn, st, e)
        if k == "OpCall":
            for a in e["args"]:
                self.ev(fn, st, a)
            return None
        if k == "Construct":
            vals = [self.ev(fn, st, a) for a in e["args"]]
            if len(vals) == 1 and e.get("ckind") in ("copy", "move"):
                return vals[0]
            for v in vals:
                if isinstance(v, Ptr):
                    self.escape(fn, st, e, v)
            return None
        if k in ("Throw",):
            return None
        if k == "Lambda":
            return None
        for a in e.get("args", []):
            self.ev(fn, st, a)
        return None

    def as_pred(self, v):
        if isinstance(v, Pred):
            return v
        if isinstance(v, tuple) and v[0] == "bits":
            return Pred(("atom", ("bit", v[1], v[2])))
        if isinstance(v, Poly):
            return Pred(("cmp", "!=", v, Poly.const(0)))
        return None

    def pointee_size(self, t):
        t = t.strip()
        m = re.match(r"^(const )?(.*?)\s*\*\s*(const)?$", t)
        if not m:
            return 1
        b = m.group(2).replace("const ", "").strip()
        return {"void": 1, "char": 1, "unsigned char": 1, "signed char": 1, "unsigned short": 2, "short": 2, "unsigned int": 4, "int": 4, "unsigned long": 8, "long": 8, "double": 8, "float": 4, "unsigned long long": 8, "long long": 8}.get(b, 1)

    def mpath(self, e):
        if e["k"] == "Member":
            return self.mpath(e["b"]) + "." + e["f"]
        if e["k"] == "Ref":
            return "%s@%d" % (e["n"], e["d"])
        if e["k"] == "This":
            return "this"
        if e["k"] == "Cast":
            return self.mpath(e["e"])
        return "?"

    def assign(self, fn, st, tgt, val):
        if tgt["k"] == "Ref":
            st.env[tgt["d"]] = val
        elif tgt["k"] == "Member":
            st.mem[self.mpath(tgt)] = val
        elif tgt["k"] == "Cast":
            self.assign(fn, st, tgt["e"], val)

    def ev_assign(self, fn, st, e):
        op = e["op"]
        r = self.ev(fn, st, e["r"])
        if isinstance(r, tuple):
            r = self.as_pred(r)
        if op == "=":
            self.assign(fn, st, e["l"], r if not isinstance(r, Poly) or True else r)
            return r
        l = self.ev(fn, st, e["l"])
        new = None
        if op == "+=":
            if isinstance(l, Ptr) and isinstance(r, Poly):
                new = Ptr(l.off + r * l.stride, l.stride)
            elif isinstance(l, Ptr):
                new = Ptr(l.off + Poly.sym(self.fresh("adv")), l.stride)
            elif isinstance(l, Poly) and isinstance(r, Poly):
                new = l + r
        elif op == "-=":
            if isinstance(l, Poly) and isinstance(r, Poly):
                new = l - r
            elif isinstance(l, Ptr) and isinstance(r, Poly):
                new = Ptr(l.off - r * l.stride, l.stride)
        elif op in ("|=", "&=", "<<=", ">>=", "*=", "/=", "^="):
            new = Poly.sym(self.fresh("upd")) if not isinstance(l, Ptr) else None
        self.assign(fn, st, e["l"], new)
        return new

    # ---------- A3: image-derived values used as shift amounts / allocation sizes must be bounded
    def check_bounded(self, fn, st, val, loc, what):
        if not isinstance(val, Poly):
            return
        for sname in val.symbols():
            if "#" not in sname or sname.startswith(("adv#", "iter#", "loopadv#", "i#", "rem#")):
                continue
            if sname in st.eqs or sname in st.his:
                continue
            if what != "shift" and any(any(sname in k and v > 0 for k, v in g.t.items()) for g in st.G):
                continue  # proportional to the bytes actually present
            self.report(fn, loc, "unbounded-" + what, "violated", "image value %s reaches a %s with no upper bound (facts: his=%r)" % (sname, what, {k: v for k, v in st.his.items() if k == sname}))

    # ---------- reads
    def read(self, fn, st, off, w, loc, how):
        need = off + w
        ok = self.covered(st, need)
        self.report(fn, loc, "read", "discharged" if ok else "violated", "%s: bytes [%r, %r) vs size >= {%s}%s" % (how, off, need, ", ".join(repr(g) for g in st.G), (" facts " + repr(st.eqs) + repr(st.los)) if not ok else ""))
        if not ok:
            st.G.append(need)  # assume it held from here on: one report per root cause

    # wrap paths: a constructor that keeps a pointer into the caller's buffer for later reads.
    # ctor -> (index of the argument giving the extent, divisor, bytes before the extent starts)
    WRAP_EXTENTS = {"datasketches::bloom_filter_alloc::bloom_filter_alloc": (5, 8, 32)}

    def escape(self, fn, st, e, ptrval):
        name = e.get("ctor") or e.get("callee") or ""
        import re as _re
        base = _re.sub(r"<[^<>]*(<[^<>]*>[^<>]*)*>", "", name)
        if base in self.WRAP_EXTENTS and len(e.get("args", [])) > self.WRAP_EXTENTS[base][0]:
            idx, div, pre = self.WRAP_EXTENTS[base]
            ext = self.ev(fn, st, e["args"][idx])
            if isinstance(ext, Poly) and all(v % div == 0 for v in ext.t.values()):
                need = Poly({k: v // div for k, v in ext.t.items()}) + pre
                ok = self.covered(st, need)
                self.report(fn, e["loc"], "wrap-extent", "discharged" if ok else "violated",
                            "object keeps a pointer into the caller's buffer and will read bytes [0, %r): size >= {%s}%s" % (need, ", ".join(repr(g) for g in st.G), "" if ok else " does not cover it (a truncated image wraps successfully and later reads run past the buffer)"))
                return
        self.report(fn, e["loc"], "escape", "unrecognised", "buffer pointer passed to %s" % (e.get("callee") or e.get("ctor")))

    READ_FNS = {"datasketches::copy_from_mem"}

    def ev_call(self, fn, st, e):
        callee = e.get("callee", "")
        cname = e.get("cname", "")
        args = e.get("args", [])
        # --- guards
        if callee == "datasketches::ensure_minimum_memory":
            a = self.ev(fn, st, args[0])
            b = self.ev(fn, st, args[1])
            if isinstance(a, Poly) and isinstance(b, Poly):
                if a.t.get((SIZE,), 0) == 1:
                    st.G.append(b + (Poly.sym(SIZE) - a))
                    self.report(fn, e["loc"], "guard", "info", "size >= %r" % (b + (Poly.sym(SIZE) - a)))
                else:
                    self.report(fn, e["loc"], "guard", "unrecognised", "ensure_minimum_memory(%r, %r) not relative to size" % (a, b))
            else:
                self.report(fn, e["loc"], "guard", "unrecognised", "ensure_minimum_memory with non-polynomial args")
            return None
        if callee == "datasketches::check_memory_size":
            a = self.ev(fn, st, args[0])
            b = self.ev(fn, st, args[1])
            if isinstance(a, Poly) and isinstance(b, Poly) and b.t.get((SIZE,), 0) == 1:
                st.G.append(a + (Poly.sym(SIZE) - b))
                self.report(fn, e["loc"], "guard", "info", "size >= %r" % (a + (Poly.sym(SIZE) - b)))
            else:
                self.report(fn, e["loc"], "guard", "unrecognised", "check_memory_size(%r, %r)" % (a, b))
            return None
        if callee.endswith("compact_theta_sketch_parser::check_memory_size") or (cname == "check_memory_size" and len(args) == 4):
            b = self.ev(fn, st, args[1])
            c = self.ev(fn, st, args[2])
            if isinstance(b, Poly) and isinstance(c, Poly) and b == Poly.sym(SIZE):
                st.G.append(c)
                self.report(fn, e["loc"], "guard", "info", "size >= %r" % (c,))
            return None
        # --- primitive reads
        if callee == "datasketches::copy_from_mem":
            src = self.ev(fn, st, args[0])
            if len(args) == 3:
                n = self.ev(fn, st, args[2])
                w = n if isinstance(n, Poly) else None
            else:
                w = Poly.const(args[1].get("sz")) if args[1].get("sz") else None
            if isinstance(src, Ptr):
                if w is None:
                    self.report(fn, e["loc"], "read", "unrecognised", "copy_from_mem with unknown length")
                    return Poly.sym(self.fresh("adv"))
                self.read(fn, st, src.off, w, e["loc"], "copy_from_mem")
                # destination gets an image-derived value
                if len(args) == 2:
                    sym = self.fresh(self.name_of(args[1]))
                    self.assign(fn, st, args[1], Poly.sym(sym))
                return w
            return w
        if callee in ("memcpy", "std::memcpy"):
            src = self.ev(fn, st, args[1])
            dst = self.ev(fn, st, args[0])
            n = self.ev(fn, st, args[2])
            if isinstance(src, Ptr):
                if isinstance(n, Poly):
                    self.read(fn, st, src.off, n, e["loc"], "memcpy")
                else:
                    self.report(fn, e["loc"], "read", "unrecognised", "memcpy from buffer with unknown length")
                tgt = args[0]
                while tgt["k"] == "Cast":
                    tgt = tgt["e"]
                if tgt["k"] == "Un" and tgt["op"] == "&":
                    self.assign(fn, st, tgt["e"], Poly.sym(self.fresh(self.name_of(tgt["e"]))))
            return None
        # --- serde / nested readers with capacity
        if cname in ("deserialize", "deserialize_items", "deserialize_array", "deserialize_compat", "parse", "newList", "newSet", "newHll", "internal_deserialize_or_wrap") and len(args) >= 2:
            p = self.ev(fn, st, args[0])
            if isinstance(p, Ptr):
                cap = self.ev(fn, st, args[1])
                want = Poly.sym(SIZE) - p.off
                if isinstance(cap, Poly) and cap == want:
                    # capacity is exact remaining; remaining must be provably >= 0
                    ok = self.covered(st, p.off)
                    self.report(fn, e["loc"], "delegate", "discharged" if ok else "violated", "%s(capacity = size - %r)%s" % (callee, p.off, "" if ok else " but size >= offset not established (underflow)"))
                    if not ok:
                        st.G.append(p.off)
                else:
                    self.report(fn, e["loc"], "delegate", "violated" if isinstance(cap, Poly) else "unrecognised", "%s capacity %r != size - %r" % (callee, cap, p.off))
                best = 0
                for g in st.G:
                    dd = g - p.off
                    if dd.is_const():
                        best = max(best, dd.const_value())
                cp = e.get("cpat")
                self.entry_req[cp] = min(self.entry_req.get(cp, best), best)
                adv = Poly.sym(self.fresh("adv"))
                st.G.append(p.off + adv)  # callee guarantees it stays within capacity
                st.last_adv = adv
                return adv if e.get("t", "").startswith("unsigned long") else ("pairadv", adv)
        # --- validators: interprocedural summaries
        if callee.startswith("datasketches::") and (cname.startswith("check") or cname.startswith("validate")):
            self.apply_validator(fn, st, e)
            return Poly.sym(self.fresh("ret")) if e.get("t") not in ("void", None) else None
        # generic: evaluate args; buffer pointers escaping into unknown callees
        vals = [self.ev(fn, st, a) for a in args]
        cv = self.const_call(e, vals)
        if cv is not None:
            return Poly.const(cv)
        if cname in ("allocate", "resize", "reserve") and vals:
            self.check_bounded(fn, st, vals[0], e["loc"], "allocation")
        if e.get("obj"):
            self.ev(fn, st, e["obj"])
        for a, v in zip(args, vals):
            if isinstance(v, Ptr) and callee and not callee.startswith("std::to_string"):
                if cname in ("hex_dump", "unpack_bits", "unpack_bits_block8", "static_cast"):
                    continue
                self.report(fn, e["loc"], "escape", "unrecognised", "buffer pointer passed to %s" % callee)
        t = e.get("t", "")
        if t in ("unsigned long", "unsigned int", "unsigned char", "unsigned short", "int", "long", "unsigned long long"):
            return Poly.sym(self.fresh(cname or "call"))
        return None

    def const_call(self, call, vals):
        """Constant evaluation of a small pure library function whose decisive branches depend only on constant
        arguments (e.g. computeLgArrInts(LIST, ..) == LG_INIT_LIST_SIZE).  Returns int or None."""
        if not (call.get("callee") or "").startswith("datasketches::"):
            return None
        callee = self.find_fn(call)
        if callee is None or callee.get("body") is None or len(callee["params"]) != len(vals):
            return None
        env = {}
        for p, v in zip(callee["params"], vals):
            if isinstance(v, Poly) and v.is_const():
                env[p["d"]] = v.const_value()

        def cev(x):
            while isinstance(x, dict) and x.get("k") == "Cast":
                if "v" in x:
                    return x["v"]
                x = x["e"]
            if not isinstance(x, dict):
                return None
            if "v" in x and x.get("k") not in ("Call", "Assign"):
                return x["v"]
            if x.get("k") == "Ref":
                return env.get(x["d"])
            if x.get("k") == "Bin" and x["op"] in ("==", "!=", "<", ">", "<=", ">="):
                a, b = cev(x["l"]), cev(x["r"])
                if a is None or b is None:
                    return None
                return int({"==": a == b, "!=": a != b, "<": a < b, ">": a > b, "<=": a <= b, ">=": a >= b}[x["op"]])
            return None

        def run(stm):
            """returns ('ret', v) | ('fall',) | None(unknown)"""
            k = stm.get("k")
            if k == "Block":
                for c in stm["s"]:
                    r = run(c)
                    if r is None or r[0] == "ret":
                        return r
                return ("fall",)
            if k == "If":
                c = cev(stm["c"])
                if c is None:
                    return None
                br = stm["t"] if c else stm.get("e")
                return run(br) if br else ("fall",)
            if k == "Return":
                v = cev(stm.get("e"))
                return ("ret", v) if v is not None else None
            return None  # any other statement: not decidable from constants
        r = run(callee["body"])
        if r and r[0] == "ret":
            return r[1]
        return None

    def ctor_fields(self, fn, st, var, init):
        """Constructor field summary: a member initialiser `f(param)` (possibly through integral casts) binds
        <var>.f to the value of the corresponding constructor argument."""
        cands = self.by_pat.get(init.get("cpat"), [])
        ctor = None
        for c in cands:
            if c.get("kind") == "ctor" and len(c["params"]) == len(init.get("args", [])):
                ctor = c
                break
        if ctor is None:
            return
        pidx = {p["d"]: i for i, p in enumerate(ctor["params"])}
        for ini in ctor.get("inits", []):
            if "field" not in ini:
                continue
            x = ini.get("e")
            while isinstance(x, dict) and x.get("k") == "Cast":
                x = x["e"]
            if isinstance(x, dict) and x.get("k") == "Construct" and len(x.get("args", [])) == 1:
                x = x["args"][0]
                while isinstance(x, dict) and x.get("k") == "Cast":
                    x = x["e"]
            if isinstance(x, dict) and x.get("k") == "Ref" and x.get("d") in pidx:
                val = self.ev(fn, st, init["args"][pidx[x["d"]]])
                if isinstance(val, Poly):
                    st.mem["%s@%d.%s" % (var["n"], var["d"], ini["field"])] = val

    def name_of(self, e):
        while e["k"] == "Cast":
            e = e["e"]
        if e["k"] == "Ref":
            return e["n"]
        if e["k"] == "Member":
            return e["f"]
        return "img"

    # ---------- validators
    def find_fn(self, call):
        pat = call.get("cpat")
        cands = self.by_pat.get(pat, [])
        for c in cands:
            if c["qname"] == call.get("callee"):
                return c
        return cands[0] if cands else None

    def apply_validator(self, fn, st, call):
        callee = self.find_fn(call)
        if callee is None or callee.get("body") is None:
            return
        sub = st.clone()
        sub.env = {}
        sub.decisions = []
        for p, a in zip(callee["params"], call["args"]):
            v = self.ev(fn, st, a)
            if isinstance(v, tuple) and v[0] == "bits":
                v = self.as_pred(v)
            sub.env[p["d"]] = v
        nob = len(self.obligations)
        outs = self.run_block(callee, [sub], callee["body"])
        del self.obligations[nob:]
        normal = [x for (x, how) in outs if how in ("fall", "return")]
        if not normal:
            return
        n_imp = 0
        for x in normal:
            guards = [d for d, forced in x.decisions if not forced]
            for d, forced in x.decisions:
                if forced:
                    st.imps.append((guards, d))
                    n_imp += 1
        ok = self.fire_imps(st)
        self.report(fn, call["loc"], "validator", "info", "%s: %d exits, %d implications; eqs %r los %r his %r" % (call.get("cname"), len(normal), n_imp, st.eqs, st.los, st.his))

    # ---------- statements
    def run_block(self, fn, states, s, collect_only=False):
        """returns list of (state, how) with how in fall|return|throw|break|continue"""
        if s is None:
            return [(st, "fall") for st in states]
        k = s["k"]
        out = []
        if k == "Block":
            cur = list(states)
            for c in s["s"]:
                nxt = []
                for (st2, how) in self.run_block(fn, cur, c):
                    if how == "fall":
                        nxt.append(st2)
                    else:
                        out.append((st2, how))
                cur = self.merge(nxt)
                if not cur:
                    break
            out.extend((st, "fall") for st in cur)
            return out
        if k == "Expr":
            for st in states:
                self.ev(fn, st, s["e"])
                if s["e"]["k"] == "Throw":
                    out.append((st, "throw"))
                else:
                    out.append((st, "fall"))
            return out
        if k == "Decl":
            for st in states:
                for v in s["vars"]:
                    if "n" not in v:
                        continue
                    init = v.get("init")
                    val = None
                    if init is not None:
                        val = self.ev(fn, st, init)
                        if isinstance(val, tuple) and val[0] == "bits":
                            val = self.as_pred(val)
                        if isinstance(val, tuple) and val[0] == "pairadv":
                            st.mem["%s@%d.second" % (v["n"], v["d"])] = val[1]
                            val = None
                        if isinstance(val, Ptr) and v["t"].endswith("*"):
                            val = Ptr(val.off, self.pointee_size(v["t"]))
                        if init["k"] == "Construct" and v["t"].startswith("std::vector<") and init.get("args"):
                            n0 = self.ev(fn, st, init["args"][0])
                            if isinstance(n0, Poly) and init.get("ptypes") and init["ptypes"][0] in ("unsigned long",):
                                self.check_bounded(fn, st, n0, init["loc"], "allocation")
                                val = ("vec", n0)
                        if init["k"] == "Construct" and (init.get("ctor") or "").startswith("datasketches::"):
                            self.ctor_fields(fn, st, v, init)
                    st.env[v["d"]] = val
                out.append((st, "fall"))
            return out
        if k == "Return":
            for st in states:
                if s.get("e"):
                    self.ev(fn, st, s["e"])
                out.append((st, "return"))
            return out
        if k in ("Break", "Continue"):
            return [(st, k.lower()) for st in states]
        if k == "Null":
            return [(st, "fall") for st in states]
        if k == "If":
            for st in states:
                c = self.as_pred(self.ev(fn, st, s["c"]))
                kn = self.known(st, c) if c is not None else None
                res_t, res_e = None, None
                if kn is not False:
                    st_t = st.clone()
                    if c is None or self.assume(st_t, c, True):
                        res_t = self.run_block(fn, [st_t], s["t"])
                if kn is not True:
                    st_e = st.clone()
                    if c is None or self.assume(st_e, c, False):
                        res_e = self.run_block(fn, [st_e], s.get("e"))
                def all_throw(r):
                    return r is None or all(how == "throw" for _, how in r)
                if c is not None:
                    for (x, how) in (res_t or []):
                        x.decisions.append((c, all_throw(res_e)))
                    for (x, how) in (res_e or []):
                        x.decisions.append((p_not(c), all_throw(res_t)))
                out.extend(res_t or [])
                out.extend(res_e or [])
            return out
        if k in ("For", "While", "Do", "RangeFor"):
            for st in states:
                out.extend(self.run_loop(fn, st, s))
            return out
        if k == "Switch":
            # analyse each case arm as a separate path starting at that label (fallthrough followed)
            for st in states:
                c = self.ev(fn, st, s["c"])
                body = s["b"]["s"] if s["b"] and s["b"]["k"] == "Block" else []
                # flatten nested Case chains
                flat = []
                def flatten(x):
                    if x["k"] in ("Case", "Default"):
                        flat.append(("label", x))
                        flatten(x["s"])
                    else:
                        flat.append(("stmt", x))
                for x in body:
                    flatten(x)
                labels = [i for i, (kk, x) in enumerate(flat) if kk == "label"]
                for li in labels:
                    lab = flat[li][1]
                    st2 = st.clone()
                    if lab["k"] == "Case" and isinstance(c, Poly) and "v" in lab["v"]:
                        if not self.assume(st2, Pred(("cmp", "==", c, Poly.const(lab["v"]["v"])))):
                            continue
                    cur = [st2]
                    for kk, x in flat[li + 1:]:
                        if kk == "label":
                            continue
                        nxt = []
                        for (s3, how) in self.run_block(fn, cur, x):
                            if how == "fall":
                                nxt.append(s3)
                            elif how == "break":
                                out.append((s3, "fall"))
                            else:
                                out.append((s3, how))
                        cur = nxt
                        if not cur:
                            break
                    out.extend((s3, "fall") for s3 in cur)
            return out
        if k == "Try":
            return self.run_block(fn, states, s["b"])
        for st in states:
            self.report(fn, s.get("loc", "?"), "stmt", "unrecognised", "statement kind %s" % k)
            out.append((st, "fall"))
        return out

    def ptr_offsets(self, st):
        return {d: v.off for d, v in st.env.items() if isinstance(v, Ptr)}

    def subst_state(self, st, name, repl):
        if isinstance(name, tuple):
            sub = lambda p: p.subst_mono(name, repl)
            for d, v in list(st.env.items()):
                if isinstance(v, Ptr):
                    st.env[d] = Ptr(sub(v.off), v.stride)
                elif isinstance(v, Poly):
                    st.env[d] = sub(v)
                elif isinstance(v, tuple) and v and v[0] == "vec" and isinstance(v[1], Poly):
                    st.env[d] = ("vec", sub(v[1]))
            for kx, v in list(st.mem.items()):
                if isinstance(v, Poly):
                    st.mem[kx] = sub(v)
            st.G = [sub(g) for g in st.G]
            for kx, v in list(st.eqs.items()):
                if isinstance(v, Poly):
                    st.eqs[kx] = sub(v)
            return
        for d, v in list(st.env.items()):
            if isinstance(v, Ptr):
                st.env[d] = Ptr(v.off.subst(name, repl), v.stride)
            elif isinstance(v, Poly):
                st.env[d] = v.subst(name, repl)
            elif isinstance(v, tuple) and v and v[0] == "vec" and isinstance(v[1], Poly):
                st.env[d] = ("vec", v[1].subst(name, repl))
        for kx, v in list(st.mem.items()):
            if isinstance(v, Poly):
                st.mem[kx] = v.subst(name, repl)
        st.G = [g.subst(name, repl) for g in st.G]
        for kx, v in list(st.eqs.items()):
            if isinstance(v, Poly):
                st.eqs[kx] = v.subst(name, repl)

    def state_symbols(self, st):
        syms = set()
        for g in st.G:
            syms |= g.symbols()
        for v in list(st.env.values()) + list(st.mem.values()):
            if isinstance(v, Poly):
                syms |= v.symbols()
            if isinstance(v, Ptr):
                syms |= v.off.symbols()
        return syms

    def run_loop(self, fn, st, s):
        k = s["k"]
        out = []
        loc = s.get("loc", "?")
        if k == "For" and s.get("init"):
            r = self.run_block(fn, [st], s["init"])
            st = r[0][0]
        # trip count
        bound, ivar, start = None, None, None
        if k == "For" and s.get("c") and s["c"]["k"] == "Bin" and s["c"]["op"] == "<":
            l, rr = s["c"]["l"], s["c"]["r"]
            while l["k"] == "Cast":
                l = l["e"]
            if l["k"] == "Ref":
                ivar = l["d"]
                start = st.env.get(ivar)
                b = self.ev(fn, st, rr)
                if isinstance(b, Poly) and isinstance(start, Poly) and start == Poly.const(0):
                    bound = b
        if k == "RangeFor":
            rv = self.ev(fn, st, s["range"])
            if isinstance(rv, tuple) and rv and rv[0] == "vec" and isinstance(rv[1], Poly):
                bound = rv[1]
        before = self.ptr_offsets(st)
        base_syms = self.state_symbols(st)
        # ---- pass 1: probe per-iteration consumption
        probe = st.clone()
        if ivar is not None:
            probe.env[ivar] = Poly.sym("i#probe")
        if k == "RangeFor":
            probe.env[s["var"]["d"]] = None
        nob = len(self.obligations)
        res = self.run_block(fn, [probe], s["b"])
        if k == "For" and s.get("inc"):
            for x, how in res:
                if how in ("fall", "continue"):
                    self.ev(fn, x, s["inc"])
        del self.obligations[nob:]
        falls = [x for x, how in res if how in ("fall", "continue")]
        cons, invariant = {}, True
        for d, off0 in before.items():
            deltas = set()
            for x in falls:
                v = x.env.get(d)
                if isinstance(v, Ptr):
                    deltas.add(v.off - off0)
            if len(deltas) == 1:
                c = deltas.pop()
                cons[d] = c
                if not all(sy in base_syms for sy in c.symbols()):
                    invariant = False
            elif len(deltas) > 1:
                cons[d] = None
                invariant = False
        moving = {d: c for d, c in cons.items() if c is None or not (c == Poly.const(0))}
        counted = bound is not None and invariant
        # ---- pass 2: one generic iteration
        it = st.clone()
        if k == "RangeFor":
            it.env[s["var"]["d"]] = None
        if k == "While" and s.get("c"):
            c = self.as_pred(self.ev(fn, it, s["c"]))
            if c is not None:
                self.assume(it, c, True)
        inv_ptrs = []
        if counted:
            isym = self.fresh("i", loc)
            bs = list(bound.symbols())
            if len(bs) == 1 and bound == Poly.sym(bs[0]):
                dsym = self.fresh("rem", loc)
                self.subst_state(it, bs[0], Poly.sym(isym) + 1 + Poly.sym(dsym))
            elif len(bound.t) == 1 and list(bound.t.values()) == [1] and len(next(iter(bound.t))) > 1:
                # bound is a single product of symbols (e.g. num_buckets*num_hashes): treat the product as one quantity
                dsym = self.fresh("rem", loc)
                self.subst_state(it, next(iter(bound.t)), Poly.sym(isym) + 1 + Poly.sym(dsym))
            if ivar is not None:
                it.env[ivar] = Poly.sym(isym)
            for d, c in moving.items():
                v = it.env[d]
                it.env[d] = Ptr(v.off + Poly.sym(isym) * c, v.stride)
        else:
            if ivar is not None:
                it.env[ivar] = Poly.sym(self.fresh("i", loc))
            for d, c in moving.items():
                v = it.env[d]
                off_it = v.off + Poly.sym(self.fresh("iter", loc))
                it.env[d] = Ptr(off_it, v.stride)
                if self.covered(st, before[d]):
                    it.G.append(off_it)  # loop invariant: cursor <= size (holds at entry)
                    inv_ptrs.append(d)
        res2 = self.run_block(fn, [it], s["b"])
        if k == "For" and s.get("inc"):
            for x, how in res2:
                if how in ("fall", "continue"):
                    saved = x.env.get(ivar) if ivar is not None else None
                    self.ev(fn, x, s["inc"])
                    if ivar is not None:
                        x.env[ivar] = saved
        for x, how in res2:
            if how in ("return", "throw"):
                out.append((x, how))
            elif how in ("fall", "continue"):
                for d in inv_ptrs:  # inductive step of the invariant
                    v = x.env.get(d)
                    if isinstance(v, Ptr) and not self.covered(x, v.off):
                        self.report(fn, loc, "loopinv", "violated", "cursor may pass the end of the buffer after one iteration: offset %r vs size >= {%s}" % (v.off, ", ".join(repr(g) for g in x.G)))
        # ---- state after the loop
        after = st.clone()
        for d, c in moving.items():
            v = after.env[d]
            if counted and c is not None:
                after.env[d] = Ptr(v.off + bound * c, v.stride)
            else:
                off_a = v.off + Poly.sym(self.fresh("loopadv", loc))
                after.env[d] = Ptr(off_a, v.stride)
                if d in inv_ptrs:
                    after.G.append(off_a)
        # guarantees established by violated-and-assumed reads inside the body are dropped (pre-loop G kept)
        for x, how in res2:
            for d, v in x.env.items():
                if d in after.env and not isinstance(after.env[d], Ptr) and d not in before and d != ivar:
                    if repr(after.env[d]) != repr(v):
                        after.env[d] = None
        out.append((after, "fall"))
        return out

    def sig(self, st):
        return (tuple(sorted((d, repr(v)) for d, v in st.env.items())), tuple(sorted(st.mem.items(), key=repr).__repr__() for _ in [0]),
                tuple(sorted(repr(g) for g in set(st.G))), tuple(sorted(st.pc.items(), key=repr)), tuple(sorted(st.eqs.items())),
                tuple(sorted(st.los.items())), tuple(sorted(st.his.items())), len(st.imps))

    def merge(self, states):
        seen = {}
        for st in states:
            seen.setdefault(self.sig(st), st)
        states = list(seen.values())
        if len(states) > 256:
            raise Unrecognised("path explosion: %d states" % len(states))
        return states

    # ---------- entry
    def analyze_reader(self, fn, entry_guarantee=0):
        ps = fn["params"]
        st = State()
        bidx = None
        for i in range(len(ps) - 1):
            if ps[i]["t"].endswith("*") and ps[i + 1]["t"] in ("unsigned long",) and any(x in ps[i]["t"] for x in ("void", "unsigned char", "char")):
                bidx = i
                break
        if bidx is None:
            return False
        st.env[ps[bidx]["d"]] = Ptr(Poly.const(0), self.pointee_size(ps[bidx]["t"]))
        st.env[ps[bidx + 1]["d"]] = Poly.sym(SIZE)
        st.G = [Poly.const(entry_guarantee)]
        for i, p in enumerate(ps):
            if i not in (bidx, bidx + 1):
                if p["t"] in ("unsigned int", "unsigned char", "unsigned short", "unsigned long", "int", "bool"):
                    st.env[p["d"]] = Poly.sym(self.fresh(p["n"])) if p["t"] != "bool" else Pred(("atom", ("param", p["n"])))
        try:
            self.run_block(fn, [st], fn["body"])
        except Unrecognised as ex:
            self.report(fn, fn["loc"], "fn", "unrecognised", str(ex))
        return True


def main():
    files = sys.argv[1:] or glob.glob("/root/verif-proto/facts/*.json")
    facts = [json.load(open(f)) for f in files]
    A = Analyzer(facts)
    names = ("deserialize", "deserialize_items", "deserialize_array", "deserialize_compat", "parse", "wrap", "writable_wrap", "newList", "newSet", "newHll", "internal_deserialize_or_wrap")
    helpers = ("deserialize_items", "deserialize_array", "deserialize_compat")
    def run_all(entry):
        seen = set()
        A.obligations = []
        for f in facts:
            for fn in f["functions"]:
                if fn["name"] not in names or fn["ret"] == "void":
                    continue
                if fn["pat"] in seen:
                    continue
                g0 = entry.get(fn["pat"], 0) if fn["name"] in helpers else 0
                if A.analyze_reader(fn, g0):
                    seen.add(fn["pat"])
        return seen
    run_all({})
    entry = dict(A.entry_req)
    run_all(entry)
    # summary
    by_fn = {}
    for o in A.obligations:
        by_fn.setdefault((o["pat"], o["fn"]), []).append(o)
    tot = {"discharged": 0, "violated": 0, "unrecognised": 0}
    for (pat, name), obs in sorted(by_fn.items()):
        c = {"discharged": 0, "violated": 0, "unrecognised": 0, "info": 0}
        seen_o = set()
        uniq = []
        for o in obs:
            k = (o["loc"], o["kind"], o["status"])
            if k in seen_o:
                continue
            seen_o.add(k)
            uniq.append(o)
        # a site is violated if violated on any path
        site = {}
        for o in uniq:
            if o["status"] == "info":
                continue
            cur = site.get((o["loc"], o["kind"]))
            rank = {"discharged": 0, "unrecognised": 1, "violated": 2}
            if cur is None or rank[o["status"]] > rank[cur["status"]]:
                site[(o["loc"], o["kind"])] = o
        for o in site.values():
            c[o["status"]] += 1
            tot[o["status"]] += 1
        print("%-80s %s  ok=%d viol=%d unrec=%d" % (name[:80], pat.split("/")[-1], c["discharged"], c["violated"], c["unrecognised"]))
        for o in sorted(site.values(), key=lambda o: o["loc"]):
            if o["status"] != "discharged":
                print("     %-12s %-9s %s  %s" % (o["status"], o["kind"], o["loc"], o["detail"][:230]))
    print("TOTAL", tot)


if __name__ == "__main__":
    main()
