"""A8 canonicalisation chains: for every typed update/query overload, the conversion path of the argument down to the bytes
that are hashed, computed from types and resolved callees (not spelling).  Obligations: the path equals the row of the
cross-language contract (spec/canonical.json) and sibling families agree."""
import re
import json
import os
from astu import C, ctxt, gt_pair, eq_const, reach, reach_txt, ctext, strip, strip_all, walk, txt, short, stmts_of, functions_by
from vlib.core import ob, VERIF

INT_NAMES = {"unsigned long": "u64", "long": "i64", "unsigned int": "u32", "int": "i32", "unsigned short": "u16", "short": "i16",
             "unsigned char": "u8", "signed char": "i8", "char": "i8", "double": "f64", "float": "f32"}


def tname(t):
    t = (t or "").replace("const ", "").replace(" &", "").strip()
    if "basic_string" in t:
        return "string"
    if t.startswith("void") or t.endswith("void *"):
        return "bytes"
    return INT_NAMES.get(t, t)


def bytes_like(f, fam, depth=0):
    """f takes the bytes to hash: (const void*, size), or a (pointer, size) overload that only forwards both to such a function"""
    if tname(f["params"][0]["t"]) == "bytes":
        return True
    if depth > 2 or len(f["params"]) < 2 or not (f["params"][0]["t"] or "").rstrip().endswith("*") or f.get("body") is None:
        return False
    st = stmts_of(f["body"])
    if len(st) != 1 or st[0].get("k") not in ("Expr", "Return"):
        return False
    c = strip_all(st[0].get("e") or {})
    if c.get("k") != "Call" or c.get("cpat") not in fam or len(c.get("args", [])) < 2:
        return False
    return strip_all(c["args"][0]).get("d") == f["params"][0].get("d") and strip_all(c["args"][1]).get("d") == f["params"][1].get("d") and bytes_like(fam[c["cpat"]], fam, depth + 1)


def step_of(fn, fam):
    """one step of the chain of overload fn: ('delegate', [types...], next_fn_pat) | ('hash', type, nbytes) | ('canonical',) | ('opaque', text)"""
    p0 = fn["params"][0]
    body = stmts_of(fn["body"])
    # look for the (single) call that consumes the parameter
    calls = []
    walk(fn["body"], lambda n: calls.append(n) if n.get("k") == "Call" else None)
    same = [c for c in calls if c.get("cpat") in fam and (c.get("cname") == fn["name"] or fam[c["cpat"]].get("_sink"))]
    guards = []
    walk(fn["body"], lambda n: guards.append(txt(n["c"])) if n.get("k") == "If" else None)
    if same:
        c = same[0]
        a = c["args"][0]
        # terminal: (&x, sizeof x) / (s.c_str(), s.length())
        nxt = fam[c["cpat"]]
        a0 = strip_all(a)
        if bytes_like(nxt, fam):
            if a0.get("k") == "Un" and a0.get("op") == "&":
                src = strip(a0["e"])
                n = strip(c["args"][1]).get("v") if len(c["args"]) > 1 else None
                return ("hash", tname(src.get("t")), n, guards)
            if a0.get("k") == "Call" and a0.get("cname") in ("c_str", "data"):
                return ("hash", "string-bytes", "length", guards)
            return ("hash", txt(a0), txt(c["args"][1]) if len(c["args"]) > 1 else "?", guards)
        # delegation with a cast chain / canonical_double
        casts = []
        x = a
        while isinstance(x, dict):
            if x.get("k") == "Cast":
                if x.get("ck") in ("IntegralCast", "FloatingCast", "IntegralToFloating", "FloatingToIntegral", "NoOp") and not x.get("impl"):
                    casts.append(tname(x.get("t")))
                elif x.get("impl") and x.get("ck") in ("IntegralCast", "FloatingCast", "IntegralToFloating", "FloatingToIntegral"):
                    casts.append("implicit:" + tname(x.get("t")))
                x = x["e"]
            elif x.get("k") == "Construct" and len(x.get("args", [])) == 1:
                x = x["args"][0]
            elif x.get("k") == "Call" and x.get("cname") == "canonical_double":
                casts.append("canonical_double")
                x = x["args"][0]
            else:
                break
        casts.reverse()
        return ("delegate", casts, c["cpat"], guards)
    # HLL style: local of another type initialised by a cast of the parameter, then hash(&local, sizeof)
    hashes = [c for c in calls if c.get("cname") in ("hash", "MurmurHash3_x64_128", "compute_hash") and len(c.get("args", [])) >= 2]
    if hashes:
        h = hashes[0]
        a0 = strip_all(h["args"][0])
        n = strip(h["args"][1]).get("v")
        if a0.get("k") == "Un" and a0.get("op") == "&":
            src = strip(a0["e"])
            decl = {}
            walk(fn["body"], lambda n_: [decl.__setitem__(v["d"], v) for v in n_.get("vars", []) if "d" in v] if n_.get("k") == "Decl" else None)
            if src.get("k") == "Ref" and src.get("d") in decl and decl[src["d"]].get("init") is not None:
                ini = decl[src["d"]]["init"]
                casts = []
                x = ini
                while isinstance(x, dict) and x.get("k") in ("Cast", "Construct"):
                    if x.get("k") == "Cast" and not x.get("impl"):
                        casts.append(tname(x.get("t")))
                    x = x["e"] if x.get("k") == "Cast" else (x["args"][0] if x.get("args") else None)
                if isinstance(x, dict) and x.get("k") == "Ref" and x.get("d") == p0["d"]:
                    return ("hashvia", casts or [tname(decl[src["d"]]["t"])], tname(decl[src["d"]]["t"]), n, guards)
            if src.get("k") == "Ref" and src.get("d") == p0["d"]:
                return ("hash", tname(src.get("t")), n, guards)
            # union canonicalisation idiom
            return ("opaque", normal_body(fn), guards)
        if a0.get("k") == "Call" and a0.get("cname") in ("c_str", "data"):
            return ("hash", "string-bytes", "length", guards)
    return ("opaque", normal_body(fn), guards)


def normal_body(fn):
    parts = []
    for s in stmts_of(fn["body"]):
        if s.get("k") in ("Expr", "Return"):
            parts.append(txt(s.get("e")))
        elif s.get("k") == "Decl":
            parts.append(";".join("%s=%s" % (v.get("n"), txt(v.get("init"))) for v in s.get("vars", [])))
        elif s.get("k") == "If":
            parts.append("if(%s){%s}else{%s}" % (txt(s["c"]), ";".join(txt(x.get("e")) for x in stmts_of(s.get("t"))), _else(s.get("e"))))
        else:
            parts.append(s.get("k"))
    p0 = fn["params"][0]["n"]
    return " ; ".join(parts).replace(p0, "ARG")


def _else(e):
    if e is None:
        return ""
    if e.get("k") == "If":
        return "if(%s){%s}else{%s}" % (txt(e["c"]), ";".join(txt(x.get("e")) for x in stmts_of(e.get("t"))), _else(e.get("e")))
    return ";".join(txt(x.get("e")) for x in stmts_of(e))


def family_chains(fns, rect, name="update"):
    fam = {p: f for p, f in fns.items() if f.get("rect") == rect and f["name"] == name and f["params"]}
    by_type = {}
    for p, f in fam.items():
        by_type.setdefault(tname(f["params"][0]["t"]), f)
    # private helpers that hash exactly the (pointer, length) pair they are handed stand for the bytes overload
    fam = dict(fam)
    for p, f in fns.items():
        if f.get("rect") == rect and f["name"] != name and len(f.get("params") or []) >= 2 and f.get("body") is not None and tname(f["params"][0]["t"]) == "bytes" and p not in fam:
            hs = []
            walk(f["body"], lambda n: hs.append(n) if n.get("k") == "Call" and n.get("cname") in ("hash", "MurmurHash3_x64_128", "compute_hash") and len(n.get("args", [])) >= 2 else None)
            if len(hs) == 1 and strip_all(hs[0]["args"][0]).get("d") == f["params"][0].get("d") and strip_all(hs[0]["args"][1]).get("d") == f["params"][1].get("d") and f["params"][0].get("d") is not None:
                g = dict(f)
                g["_sink"] = True
                fam[p] = g
    res = {}
    for t, f in by_type.items():
        if t in ("bytes",) or (t.endswith("*") and bytes_like(f, fam)):
            continue
        chain = [t]
        cur = f
        guards_all = []
        for _ in range(6):
            st = step_of(cur, fam)
            if st[0] == "delegate":
                chain += st[1]
                guards_all += st[3]
                nxt = fam.get(st[2])
                if nxt is None:
                    chain.append("?")
                    break
                # the overload actually selected
                chain.append("->" + tname(nxt["params"][0]["t"]))
                cur = nxt
                continue
            if st[0] == "hash":
                chain.append("hash(%s,%s)" % (st[1], st[2]))
                guards_all += st[3]
            elif st[0] == "hashvia":
                chain += st[1]
                chain.append("hash(%s,%s)" % (st[2], st[3]))
                guards_all += st[4]
            else:
                chain.append("opaque{%s}" % st[1])
                guards_all += st[2]
            break
        res[t] = (simplify(chain, [g for g in guards_all if g]), f, [g for g in guards_all if g])
    return res


def simplify(chain, guards):
    """type path with cast markers stripped and consecutive duplicates removed; the inline -0.0/NaN union idiom and
    canonical_double both become `canonical`"""
    toks = []
    g = " ".join(guards).replace(" ", "")
    canon_inline = (("==0" in g) or ("(0==" in g) or ("(0.0==" in g)) and ("isnan(" in g)
    for c in chain:
        c = str(c)
        if c.startswith("implicit:"):
            c = c[9:]
        if c.startswith("->"):
            c = c[2:]
        if c == "canonical_double":
            c = "canonical"
        if c.startswith("opaque{"):
            c = "canonical hash(i64,8)" if (canon_inline and "hash(&" in c and ",8," in c.replace(" ", "")) else "opaque"
        if c.startswith("hash((unnamed union") or c.startswith("hash((anonymous"):
            c = "canonical hash(i64,8)" if (canon_inline and c.endswith(",8)")) else "opaque"
        for t in c.split(" "):
            if not toks or toks[-1] != t:
                toks.append(t)
    # canonical_double returns the long bits: "canonical i64 hash(i64,8)" == "canonical hash(i64,8)"
    out = []
    for i, t in enumerate(toks):
        if t == "i64" and i > 0 and toks[i - 1] == "canonical":
            continue
        out.append(t)
    sfx = " if-not-empty" if any(".empty()" in x or re.search(r"\(0==[A-Za-z_][A-Za-z_0-9]*\.(size|length)\(\)\)", x.replace(" ", "")) for x in guards) else ""
    return " ".join(out) + sfx


FAMILIES = {
    "theta": ("theta", "datasketches::update_theta_sketch_alloc"),
    "tuple": ("tuple", "datasketches::update_tuple_sketch"),
    "hll": ("hll", "datasketches::hll_sketch_alloc"),
    "cpc": ("cpc", "datasketches::cpc_sketch_alloc"),
}


def load_spec():
    with open(os.path.join(VERIF, "spec", "canonical.json")) as f:
        return json.load(f)


def obligations(facts, families, siblings=()):
    """contract check for `families`; sibling agreement for pairs in `siblings`"""
    spec = load_spec()
    out = []
    got = {}
    for fam in set(families) | {x for pr in siblings for x in pr}:
        drv, rect = FAMILIES[fam]
        fns = functions_by(facts, [drv])
        got[fam] = family_chains(fns, rect)
    for fam in families:
        want = spec["contract"]
        for t, w in sorted(want.items()):
            key = "%s::update(%s):canonical-chain" % (short(FAMILIES[fam][1]), t)
            if t not in got[fam]:
                out.append(ob("canon.contract", key, "", "unrecognised", "overload for %s not found" % t, ""))
                continue
            ch, fn, guards = got[fam][t]
            norm = ch
            if norm in w:
                out.append(ob("canon.contract", key, fn["pat"], "discharged", norm, fn["qname"]))
            else:
                out.append(ob("canon.contract", key, fn["pat"], "violated", "update(%s) reaches the hash through `%s`; the cross-language contract is `%s` (sign extension of narrower integers via the same-width signed type, floats via double and canonical long bits, 8 bytes hashed): the same logical value hashes differently than in the other sketches / languages" % (t, norm, w[0]), fn["qname"]))
    for a, b in siblings:
        for t in sorted(set(got[a]) & set(got[b])):
            ca, fa, ga = got[a][t]
            cb, fb, gb = got[b][t]
            key = "%s~%s::update(%s):same-chain" % (a, b, t)
            if ca == cb:
                out.append(ob("canon.siblings", key, fb["pat"], "discharged", "%s and %s: %s" % (a, b, ca), fb["qname"]))
            else:
                out.append(ob("canon.siblings", key, fb["pat"], "violated", "%s hashes a %s key through `%s` but %s through `%s`: the two sketches retain different hashes for the same key, so they cannot be combined exactly" % (b, t, cb, a, ca), fb["qname"]))
    return out
