"""Reader twins hand the same decoded facts to the constructor.  The stream reader and the byte reader of one class are written in
different idioms (10.8), but both end in a call of the same private constructor.  Per argument position the rule computes a coarse
role - `flag:<mask>` for a boolean decoded from the image by a constant-mask bit test, `cmp:<op><K>` for a boolean that compares a
value read from the image with a constant - and requires the two readers to agree wherever both sides have such a role.  Constants,
parameters (`!wrap`, `read_only`, `memory`) and plain values are not compared: the twins legitimately differ there."""
from astu import strip, strip_all, walk, txt, short, functions_by, single_assignment_locals
from vlib.core import ob


def _role(e, sa, depth=0):
    x = e
    while isinstance(x, dict) and x.get("k") in ("Paren", "Cast"):
        if x.get("k") == "Cast" and x.get("ck") == "IntegralToBoolean":
            inner = strip_all(x.get("e") or {})
            if inner.get("k") == "Bin" and inner.get("op") == "&" and isinstance(strip_all(inner["r"]).get("v"), int):
                return "flag:%d" % strip_all(inner["r"])["v"]      # (bool)(flags & MASK): the normalised form of `(flags & MASK) != 0`
        x = x.get("e")
    e0 = strip_all(e)
    if not isinstance(e0, dict) or depth > 4:
        return None
    if e0.get("k") == "Ref" and e0.get("d") in sa and (e0.get("t") or "").replace("const ", "") == "bool":
        return _role(sa[e0["d"]], sa, depth + 1)
    if e0.get("k") == "Un" and e0.get("op") == "!":
        r = _role(e0["e"], sa, depth + 1)
        return ("!" + r) if r else None
    if e0.get("k") == "Bin" and e0.get("op") in ("==", "!=", ">", "<", ">=", "<="):
        l, r = strip_all(e0["l"]), strip_all(e0["r"])
        if isinstance(r.get("v"), int) and l.get("k") == "Bin" and l.get("op") == "&" and isinstance(strip_all(l["r"]).get("v"), int) and r["v"] == 0:
            return "flag:%d%s" % (strip_all(l["r"])["v"], "" if e0["op"] in ("!=", ">") else ":clear")
        if isinstance(l.get("v"), int) and r.get("k") == "Bin" and r.get("op") == "&" and isinstance(strip_all(r["r"]).get("v"), int) and l["v"] == 0:
            return "flag:%d%s" % (strip_all(r["r"])["v"], "" if e0["op"] in ("!=", "<") else ":clear")
        if isinstance(r.get("v"), int) and not isinstance(r.get("v"), bool) and "v" not in l:
            return "cmp:%s%d" % (e0["op"], r["v"])
        if isinstance(l.get("v"), int) and not isinstance(l.get("v"), bool) and "v" not in r:
            return "cmp:%s%d" % ({"<": ">", ">": "<", "<=": ">=", ">=": "<="}.get(e0["op"], e0["op"]), l["v"])
    if e0.get("k") == "Bin" and e0.get("op") == "&" and isinstance(strip_all(e0["r"]).get("v"), int) and (e0.get("t") or "") == "bool":
        return "flag:%d" % strip_all(e0["r"])["v"]
    return None


def obligations(facts, families=None):
    fns = functions_by(facts, families)
    out = []
    by_cls = {}
    for pat, fn in sorted(fns.items()):
        if fn.get("body") is None or not fn.get("rect") or not fn.get("params"):
            continue
        if not (fn["name"].startswith("deserialize") or fn["name"] in ("internal_deserialize_or_wrap", "newHll", "newList", "newSet")):
            continue
        mode = "stream" if "basic_istream" in (fn["params"][0].get("t") or "") else ("bytes" if (fn["params"][0].get("t") or "").rstrip().endswith("*") else None)
        if mode:
            by_cls.setdefault((fn["rect"], fn["name"] if fn["name"] in ("newHll", "newList", "newSet") else "deserialize"), {}).setdefault(mode, []).append(fn)
    for (cls, nm), d in sorted(by_cls.items()):
        if "stream" not in d or "bytes" not in d:
            continue

        def ctor_calls(fn):
            sa = single_assignment_locals(fn)
            res = {}

            def v(n):
                if n.get("k") in ("Construct", "New") and n.get("cpat") and short(n.get("crec") or "").split("<")[0] == short(cls) and len(n.get("args", [])) >= 3:
                    res.setdefault(n["cpat"], []).append(([_role(a, sa) for a in n["args"]], n))
            walk(fn["body"], v)
            return res
        sc, bc = {}, {}
        for f in d["stream"]:
            for k, v in ctor_calls(f).items():
                sc.setdefault(k, []).extend(v)
        for f in d["bytes"]:
            for k, v in ctor_calls(f).items():
                bc.setdefault(k, []).extend(v)
        for cp in sorted(set(sc) & set(bc), key=str):
            for i, ((rs, ns), (rb, nb)) in enumerate(zip(sc[cp], bc[cp])):
                key = "%s::%s:ctor@%s#%d" % (short(cls), nm, str(cp).split("/")[-1], i)
                bad = [(j, a, b) for j, (a, b) in enumerate(zip(rs, rb)) if a and b and a != b]
                n_cmp = sum(1 for a, b in zip(rs, rb) if a and b)
                if bad:
                    j, a, b = bad[0]
                    out.append(ob("reader.twin-roles", key, ns.get("loc", ""), "violated", "constructor argument %d is `%s` (%s) in the stream reader but `%s` (%s) in the byte reader: the two readers restore different objects from one image (a flag decoded from one bit is handed over where the other reader hands over a comparison / another bit)" % (j, txt(ns["args"][j]), a, txt(nb["args"][j]), b), short(cls)))
                elif n_cmp:
                    out.append(ob("reader.twin-roles", key, ns.get("loc", ""), "discharged", "%d decoded boolean argument(s) have the same origin in both readers" % n_cmp, short(cls)))
    return out
