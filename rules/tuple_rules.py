"""C13 tuple sketch rules: policy call discipline in update, adapter argument order, filter, A-not-B source,
intersection re-insertion of matched entries."""
from astu import C, ctxt, gt_pair, eq_const, reach, reach_txt, ctext, strip, strip_all, walk, walkp, txt, short, is_this_field, field_name, stmts_of, always_throws, functions_by, local_decls
from vlib.core import ob


def tfns(facts):
    return functions_by(facts, ["tuple", "theta"])


def policy_discipline(facts):
    fns = tfns(facts)
    out = []
    for pat, fn in sorted(fns.items()):
        if fn.get("rect") == "datasketches::update_tuple_sketch" and fn["name"] == "update" and fn["params"] and fn["params"][0]["t"].startswith("const void"):
            key = "update_tuple_sketch::update(void*):policy-discipline"
            ifs = [s for s in stmts_of(fn["body"]) if s.get("k") == "If" and s.get("e") is not None]
            problems = []
            if not ifs:
                problems.append("no first-sight / repeat branch found")
            else:
                s = ifs[-1]
                c = txt(s["c"])
                first, rep = (s["t"], s["e"]) if c.startswith("!") and c.endswith(".second") else ((s["e"], s["t"]) if c.endswith(".second") else (None, None))
                if first is None:
                    problems.append("branch condition `%s` is not a test of find().second" % c)
                else:
                    ft = [txt(x.get("e")) if x.get("k") == "Expr" else ";".join("%s=%s" % (v["n"], txt(v.get("init"))) for v in x.get("vars", [])) for x in stmts_of(first)]
                    rt = [txt(x.get("e")) for x in stmts_of(rep) if x.get("k") == "Expr"]
                    fj = " ; ".join(ft).replace(" ", "")
                    if "summary=policy_.create()" not in fj:
                        problems.append("first sight does not start from policy.create()")
                    if fj.count("policy_.update(summary,") != 1:
                        problems.append("first sight does not apply policy.update(summary, value) exactly once")
                    if "map_.insert(result.first,Entry(hash,summary))" not in fj.replace("std::move(", "").replace("move(", "").replace("))", ")"):
                        if "map_.insert(" not in fj or "summary" not in fj[fj.index("map_.insert("):] if "map_.insert(" in fj else True:
                            problems.append("first sight does not insert the created summary")
                    rj = " ; ".join(rt).replace(" ", "")
                    if rj.count("policy_.update(") != 1 or "policy_.update(result.first.second," not in rj:
                        problems.append("repeat does not apply policy.update to the stored summary `(*result.first).second` exactly once (%s)" % rt)
            if problems:
                out.append(ob("tuple.policy", key, fn["pat"], "violated", "; ".join(problems) + ": the summary of a key would not equal the policy folded over every value offered with it", fn["qname"]))
            else:
                out.append(ob("tuple.policy", key, fn["pat"], "discharged", "first sight: create + one update + insert; repeat: one update of the stored summary", fn["qname"]))
        # filter: copy_if with the un-negated predicate on .second
        if fn["name"] == "filter" and (fn.get("rect") or "").startswith("datasketches::") and "tuple" in fn["pat"]:
            key = "%s::filter:predicate" % short(fn["rect"])
            calls = []
            walk(fn["body"], lambda n: calls.append(n) if n.get("k") == "Call" and n.get("cname") in ("copy_if", "remove_copy_if", "remove_if") else None)
            if not calls:
                continue   # thin delegator to the static filter
            lam = []
            walk(fn["body"], lambda n: lam.append(n) if n.get("k") == "Lambda" else None)
            lt = ""
            if lam:
                r = []
                walk(lam[0]["body"], lambda n: r.append(txt(n["e"])) if n.get("k") == "Return" and n.get("e") is not None else None)
                lt = r[0] if r else ""
            if calls and calls[0]["cname"] == "copy_if" and lt.replace(" ", "").startswith("predicate(") and ".second" in lt and not lt.startswith("!"):
                out.append(ob("tuple.filter", key, fn["pat"], "discharged", "copy_if(entries, %s)" % lt, fn["qname"]))
            else:
                out.append(ob("tuple.filter", key, fn["pat"], "violated", "filter uses %s with `%s`: it must keep exactly the entries whose summary satisfies the predicate" % (calls[0]["cname"] if calls else "?", lt), fn["qname"]))
    return out


def intersection_rebuild(facts):
    """after moving matched entries out of the table, the intersection always rebuilds its table from them"""
    fns = tfns(facts)
    out = []
    for pat, fn in sorted(fns.items()):
        if fn.get("rect") != "datasketches::theta_intersection_base" or fn["name"] != "update":
            continue
        # the loop that re-inserts the matched entries (insert calls under a loop bounded by the match counter) must run whenever
        # any entry matched: at that loop nothing may be known but `match_count != 0` - beyond what already holds where the
        # entries are moved out (push_back(std::move(...)))
        from astu import reach_tagged, single_assignment_locals
        moved, loops = [], []
        walk(fn["body"], lambda x: moved.append(x) if x.get("k") == "Call" and x.get("cname") == "push_back" and "move(" in txt(x) else None)

        # the vector that receives the moved entries, and the counters stepped where they are moved (whatever they are called)
        vec = set(strip_all(m.get("obj") or {}).get("d") for m in moved) - {None}
        counters = set()

        def cv(x):
            if x.get("k") == "Block" and any(any(y is m for y in _all(st)) for st in stmts_of(x) for m in moved if st.get("k") == "Expr"):
                for st in stmts_of(x):
                    e = strip(st.get("e")) if st.get("k") == "Expr" else None
                    if isinstance(e, dict) and e.get("k") == "Un" and e.get("op") == "++" and strip(e.get("e")).get("k") == "Ref":
                        counters.add(strip(e["e"]).get("n"))
        walk(fn["body"], cv)

        def lv(x):
            if x.get("k") in ("For", "RangeFor", "While") and any(y.get("k") == "Call" and y.get("cname") == "insert" for y in _all(x.get("b"))):
                if any(y.get("k") == "Ref" and y.get("d") in vec for y in _all(x)):
                    loops.append(x)
        walk(fn["body"], lv)
        key = "theta_intersection_base::update:rebuild-after-match"
        if not moved:
            continue
        if not loops:
            out.append(ob("tuple.rebuild", key, fn["pat"], "violated", "the rebuild of the table from the matched entries is missing: matched entries were moved out of the table (push_back(std::move(*result.first))), so skipping the rebuild leaves moved-from summaries in the result", fn["qname"]))
            continue
        # conditions of the enclosing branches of the moving loop hold for the rebuild too; everything else is extra
        mv_loop = None

        def find_outer(x):
            nonlocal mv_loop
            if x.get("k") in ("For", "RangeFor", "While") and any(y is moved[0] for y in _all(x.get("b"))) and mv_loop is None:
                mv_loop = x
        walk(fn["body"], find_outer)
        base = set(C(txt(l)) for l, o in reach_tagged(fn["body"], mv_loop or moved[0]) if o != "loop")
        extra = [C(txt(l)) for l, o in reach_tagged(fn["body"], loops[0]) if o not in ("loop", "after-throw") and C(txt(l)) not in base]
        allowed = set()
        for cn in counters:
            allowed |= {C("(%s!=0)" % cn), C("(0!=%s)" % cn), C("(%s>0)" % cn), C("(0<%s)" % cn)}
        extra = [t for t in extra if t not in allowed]
        if not extra:
            out.append(ob("tuple.rebuild", key, loops[0]["loc"], "discharged", "whenever any entry matched, all match_count matched entries are re-inserted", fn["qname"]))
        else:
            out.append(ob("tuple.rebuild", key, loops[0]["loc"], "violated", "the rebuild of the table from the matched entries is conditional on `%s`: matched entries were moved out of the table (push_back(std::move(*result.first))), so skipping the rebuild leaves moved-from summaries in the result" % " && ".join(extra), fn["qname"]))
    return out


def _all(n):
    acc = []
    walk(n, lambda x: acc.append(x))
    return acc



