"""C10: documented layout constants, writer preamble prefixes (offset, width, constant), legacy dispatch sets, published hash
constants, canonicalisation chains."""
import json
import os
import re
from astu import C, ctxt, gt_pair, eq_const, reach, reach_txt, ctext, strip, strip_all, walk, walkp, txt, short, stmts_of, functions_by, always_throws
from vlib.core import ob, VERIF
import a4_twin
import a4_shape

CONST_RE = re.compile(r"^Prime\d$|FAMILY|SER_VER|SERIAL_VERSION|PREAMBLE|SKETCH_TYPE|COMPAT_|_FLAG|FLAG_|_MASK$|_BYTE$|_INT$|_DOUBLE$|OFFSET|_U16$|_U32$|_U64$|KEY_BITS|AUX_TOKEN|EMPTY_SIZE_BYTES|DIRTY_BITS")


def layout_constants(facts):
    """name -> value for every preamble-related constant and every flags enumerator of the sketch classes"""
    res = {}
    for g in facts.globals():
        q = g["qname"]
        if "<" in q or isinstance(g.get("value"), list) or g.get("value") is None:
            continue
        name = q.replace("datasketches::", "")
        if g["t"] == "enum":
            if name.count("::") >= 1 and not name.startswith(("hll_mode", "target_hll_type", "frequent_items_error_type", "resize_factor", "theta_constants")):
                res[name] = g["value"]
        elif CONST_RE.search(name.split("::")[-1]):
            res[name] = g["value"]
    return res


def writer_prefixes(facts):
    """for every stream writer: the constant-offset prefix as [[width, constant-or-null], ...]"""
    fd = [facts.load(n) for n in facts.drivers if n != "bitpack"]
    X = a4_twin.TExtractor(fd)
    res = {}
    for (rec, name), g in sorted(a4_twin.writer_pairs(X).items()):
        if "ws" not in g:
            continue
        items = X.shape_fn(g["ws"], "ws", track=None)
        pref = []
        def const(v):
            return int(v) if re.fullmatch(r"-?\d+", str(v)) else None
        for it in items:
            if it[0] == "If" and len(it) >= 4 and it[2] and it[3] and all(x[0] == "F" for x in tuple(it[2]) + tuple(it[3])) and [x[1] for x in it[2]] == [x[1] for x in it[3]]:
                # both arms write fields of the same widths: the layout goes on, the values are not constants
                for a, b in zip(it[2], it[3]):
                    pref.append([a[1], const(a[2]) if const(a[2]) == const(b[2]) else None])
                continue
            if it[0] != "F":
                break
            v = it[2]
            pref.append([it[1], const(v)])
        res["%s::%s" % (rec.replace("datasketches::", ""), name)] = pref
    return res


def spec():
    with open(os.path.join(VERIF, "spec", "layouts.json")) as f:
        return json.load(f)


def constants_rule(facts):
    sp = spec()["constants"]
    cur = layout_constants(facts)
    locs = {g["qname"].replace("datasketches::", ""): g["loc"] for g in facts.globals()}
    out = []
    for name, want in sorted(sp.items()):
        key = "const:" + name
        if name not in cur:
            out.append(ob("layout.constant", key, "", "unrecognised", "documented constant %s no longer exists (anchor vanished)" % name, ""))
        elif cur[name] == want:
            out.append(ob("layout.constant", key, locs.get(name, ""), "discharged", "%s = %s as documented" % (name, want), ""))
        else:
            out.append(ob("layout.constant", key, locs.get(name, ""), "violated", "%s is %s; the documented cross-language layout fixes it at %s (a writer and reader changed together still produce images other implementations and earlier releases cannot read)" % (name, cur[name], want), ""))
    return out


def prefix_rule(facts):
    sp = spec()["writer_prefixes"]
    cur = writer_prefixes(facts)
    out = []
    pats = {}
    for fn in facts.functions():
        if fn.get("rect") and fn["name"].startswith("serialize"):
            pats.setdefault("%s::%s" % (fn["rect"].replace("datasketches::", ""), fn["name"]), fn["pat"])
    for name, want in sorted(sp.items()):
        key = "prefix:" + name
        if name not in cur:
            out.append(ob("layout.prefix", key, "", "unrecognised", "stream writer %s not found" % name, ""))
            continue
        got = cur[name]
        # the documented prefix is what is fixed; an unconditional run that goes on beyond it (a conditional write folded into a
        # ternary) is no change of the layout
        got = got[:len(want)]
        if got == want:
            out.append(ob("layout.prefix", key, pats.get(name, ""), "discharged", "preamble prefix (width, constant): %s" % " ".join("%d%s" % (w, "" if c is None else "=%d" % c) for w, c in got), ""))
        else:
            # first difference
            i = next((j for j in range(min(len(got), len(want))) if got[j] != want[j]), min(len(got), len(want)))
            off = sum(w for w, c in want[:i])
            out.append(ob("layout.prefix", key, pats.get(name, ""), "violated", "the image prefix written by %s differs from the documented layout at byte offset %d: writes %s, documented %s" % (name, off, got[i] if i < len(got) else "nothing", want[i] if i < len(want) else "nothing"), ""))
    return out


def dispatch_rule(facts):
    """readers accept exactly the documented sets of serial versions / sketch types.  The dispatched field is identified by its
    rename-invariant identity (spec `on_id`: k-th value read from the stream, k-th local of its type, parameter index, or the
    identifiers / constants of the expression a local stands for); the accepted values are the case labels of a switch on it and
    the constants it is compared with by == / != - in the reader itself or in pure-validator helpers it calls (validators.inlined_guards),
    so a switch rewritten as a chain of comparisons, or guards moved into / out of a helper, give the same set."""
    import validators
    import triggers
    sp = spec()["dispatch"]
    out = []
    fns = functions_by(facts)
    by_pat = {f["pat"]: f for f in fns.values()}

    def ident(e, env):
        i, k = [], []
        triggers.idc(e, env, i, k)
        return [str(x) for x in i if x], sorted(k, key=lambda x: (str(type(x)), x))
    for ent in sp:
        rect, name, want = ent["record"], ent["function"], ent["values"]
        cands = [f for f in fns.values() if (f.get("rect") or "") == "datasketches::" + rect and f["name"] == name and (ent.get("param") is None or (f["params"] and ent["param"] in f["params"][0]["t"]))]
        key = "dispatch:%s::%s(%s):%s" % (rect, name, ent.get("param") or "", ent["what"])
        if not cands or cands[0].get("body") is None:
            out.append(ob("layout.dispatch", key, "", "unrecognised", "reader not found", ""))
            continue
        fn = cands[0]
        want_id = (ent["on_id"]["ids"], ent["on_id"]["consts"])
        got = set()
        others = {}
        env = triggers.flat_env(fn)

        def scan(node, env):
            def v(n):
                if n.get("k") == "Switch":
                    tgt = got if ident(n["c"], env) == want_id else others.setdefault(str(ident(n["c"], env)), set())
                    walk(n["b"], lambda c: tgt.add(strip(c["v"]).get("v")) if c.get("k") == "Case" else None)
                ec = eq_const(n) if n.get("k") == "Bin" else None
                if ec:
                    (got if ident(ec[0], env) == want_id else others.setdefault(str(ident(ec[0], env)), set())).add(ec[1])
            walk(node, v)
        scan(fn["body"], env)
        for g in validators.inlined_guards(fn, by_pat):
            if g[0] != "call" and g[1] is not env:
                scan(g[0], g[1])
        got.discard(None)
        if got == set(want):
            out.append(ob("layout.dispatch", key, fn["pat"], "discharged", "%s accepted: %s" % (ent["what"], sorted(got)), fn["qname"]))
        elif not got and any(v == set(want) for v in others.values()):
            out.append(ob("layout.dispatch", key, fn["pat"], "unrecognised", "no switch / comparison on the %s field (identity %s) found in %s::%s: re-review spec/layouts.json" % (ent["what"], want_id, rect, name), fn["qname"]))
        else:
            out.append(ob("layout.dispatch", key, fn["pat"], "violated", "%s accepted by %s::%s are %s; the documented set is %s (images written by earlier releases must stay readable, unknown versions must be rejected)" % (ent["what"], rect, name, sorted(got), sorted(want)), fn["qname"]))
    return out


def _hash_fn_cands(fns, name):
    """the published hash function `name` (`fn` or `Class::fn`), wherever it is declared (a free function made a static member
    keeps its identity)"""
    simple = name.split("::")[-1]
    cls = name.split("::")[0] if "::" in name else None
    old = [f for f in fns.values() if f["qname"].split("<")[0].endswith(name) or f["qname"] == name]
    if old:
        return old
    got = [f for f in sorted(fns.values(), key=lambda f: f["pat"]) if f["name"] == simple and f.get("body") is not None and (cls is None or short(f.get("rect") or "").endswith(cls))]
    if not got and cls is not None:
        # a member made a file-local free function (or the other way round) keeps its identity
        got = [f for f in sorted(fns.values(), key=lambda f: f["pat"]) if f["name"] == simple and f.get("body") is not None and not f.get("rect")]
    return got


def hash_constants_rule(facts):
    """integer literals of the hash functions equal the published definitions"""
    sp = spec()["hash_literals"]
    fns = functions_by(facts)
    out = []
    for name, want in sorted(sp.items()):
        cands = _hash_fn_cands(fns, name)
        key = "hash:" + name
        if not cands:
            out.append(ob("layout.hash", key, "", "unrecognised", "function %s not found" % name, ""))
            continue
        fn = cands[0]
        got = hash_literals(fn)
        if got == want:
            out.append(ob("layout.hash", key, fn["pat"], "discharged", "%d integer literals equal the published definition" % len(got), fn["qname"]))
        else:
            a, b = list(got), list(want)
            extra = [x for x in a if x not in b or a.count(x) > b.count(x)]
            missing = [x for x in b if x not in a or b.count(x) > a.count(x)]
            out.append(ob("layout.hash", key, fn["pat"], "violated", "literals of %s differ from the published definition: unexpected %s, missing %s: hashes no longer match other implementations (sketches stop being mergeable across languages)" % (name, sorted(set(extra), key=str)[:4], sorted(set(missing), key=str)[:4]), fn["qname"]))
    return out


CODEC_FUNCS = ["cpc_compressor::low_level_compress_bytes", "cpc_compressor::low_level_compress_pairs", "cpc_compressor::low_level_uncompress_bytes",
               "cpc_compressor::low_level_uncompress_pairs", "cpc_compressor::safe_length_for_compressed_pair_buf", "cpc_compressor::safe_length_for_compressed_window_buf"]


def codec_literal_set(fn, fns, depth=2):
    """the distinct integer constants of fn and of the library helpers of its own directory that it calls (a block moved into a
    helper, or a helper inlined by hand, changes nothing)"""
    by_pat = {f["pat"]: f for f in fns.values()}
    seen, todo, acc = set(), [(fn, 0)], set()
    while todo:
        f, d = todo.pop()
        if f["pat"] in seen or f.get("body") is None:
            continue
        seen.add(f["pat"])
        # the constants the bit counters are advanced by (stream paddings, code lengths) and the peek / mask widths
        def lit(n):
            if n.get("k") == "Assign" and n.get("op") in ("+=", "-=") and isinstance(strip_all(n["r"]).get("v"), int):
                acc.add("%s%d" % (n["op"], strip_all(n["r"])["v"]))
            if n.get("k") == "Bin" and n.get("op") in ("+", "-") and isinstance(strip_all(n["r"]).get("v"), int) and strip_all(n["r"])["v"] > 1 and strip_all(n["l"]).get("k") in ("Ref", "Member", "Bin"):
                acc.add("%s%d" % (n["op"], strip_all(n["r"])["v"]))
        walk(f["body"], lit)
        if d < depth:
            def v(n, d=d):
                if n.get("k") == "Call" and n.get("cpat") in by_pat and str(n["cpat"]).split("/")[0] == str(fn["pat"]).split("/")[0]:
                    todo.append((by_pat[n["cpat"]], d + 1))
            walk(f["body"], v)
    return sorted(acc)


def codec_constants_rule(facts):
    """the integer literals (named constants by value) of the CPC low-level encoders / decoders and of the buffer-size functions
    equal the reviewed ones: peek width 12, stream paddings 11 (bytes) and 10 (pairs), word size 32, .. - the compressed stream is a
    cross-language format, and encoder padding, decoder peek width and buffer bound must stay in step"""
    sp = spec().get("codec_literals", {})
    fns = functions_by(facts, ["cpc"])
    out = []
    for name, want in sorted(sp.items()):
        cands = _hash_fn_cands(fns, name)
        key = "codec:" + name
        if not cands:
            out.append(ob("cpc.codec", key, "", "unrecognised", "function %s not found" % name, ""))
            continue
        fn = cands[0]
        got = codec_literal_set(fn, fns)
        # every reviewed constant must still be there (constants of other helpers that became reachable do not matter)
        if all(x in got for x in want):
            out.append(ob("cpc.codec", key, fn["pat"], "discharged", "%d distinct integer constants equal the reviewed codec constants" % len(got), fn["qname"]))
        else:
            a, b = list(got), list(want)
            extra = [x for x in a if x not in b or a.count(x) > b.count(x)]
            missing = [x for x in b if x not in a or b.count(x) > a.count(x)]
            out.append(ob("cpc.codec", key, fn["pat"], "violated", "constants of %s differ from the reviewed codec: unexpected %s, missing %s: the encoder's padding, the decoder's peek width and the buffer bound are no longer in step (an image can come out one word short, or be read past its end)" % (name, sorted(set(extra), key=str)[:4], sorted(set(missing), key=str)[:4]), fn["qname"]))
    return out


def hash_literals(fn):
    """sorted multiset of integer literals (as written) in the function body, excluding 0 and 1"""
    lits = []

    def v(n):
        if n.get("k") == "Int":
            x = int(n["lit"])
            if x not in (0, 1):
                lits.append(x)
    walk(fn["body"], v)
    # shifts by a constant (covers shifts by 1, which the literal list skips) and evaluated named constants
    sh = []
    walk(fn["body"], lambda n: sh.append("%s%s" % (n["op"], strip(n["r"])["v"])) if n.get("k") == "Bin" and n.get("op") in ("<<", ">>") and "v" in strip(n["r"]) else None)
    # a named constant reads as its value (naming a literal, or renaming the constant, changes nothing)
    walk(fn["body"], lambda n: lits.append(int(n["v"]) % (1 << 64)) if n.get("k") in ("Ref", "Member") and isinstance(n.get("v"), int) and not isinstance(n.get("v"), bool) and n["v"] not in (0, 1) and (n.get("dk") in ("global", "enum") or n.get("isstatic")) else None)
    return sorted(lits) + sorted(sh)


def _legacy_empty(expr, theta_arg, sa, literals):
    """(ok, text): expr - read through single-assignment locals - is the conjunction of exactly `N == 0` (N a local) and
    `T == MAX_THETA` where T is the variable handed over as theta"""
    MAX_THETA = 9223372036854775807

    def expand(e, depth=0):
        e0 = strip_all(e)
        if isinstance(e0, dict) and e0.get("k") == "Ref" and e0.get("d") in sa and depth < 4 and (e0.get("t") or "").replace("const ", "") == "bool":
            return expand(sa[e0["d"]], depth + 1)
        if isinstance(e0, dict) and e0.get("k") == "Bin" and e0.get("op") == "&&":
            return expand(e0["l"], depth) + expand(e0["r"], depth)
        return [e0]
    # named conditions read as the condition itself, in negation normal form (`!has_data` with has_data = a || b is !a && !b)
    try:
        import validators
        bl = {d: e for d, e in sa.items() if True}
        expr = validators._inline_bools(expr, {d: e for d, e in bl.items() if isinstance(e, dict) and (e.get("t") or "").replace("const ", "") == "bool"})
    except Exception:
        pass
    lits = expand(expr)
    t = " && ".join(txt(l) for l in lits)
    th = strip_all(theta_arg)
    zero, mx = [], []
    for l in lits:
        ec = eq_const(l)
        if ec and ec[2] == "==" and ec[1] == 0 and strip_all(ec[0]).get("k") == "Ref" and strip_all(ec[0]).get("dk") == "local":
            zero.append(l)
        elif ec and ec[2] == "==" and ec[1] == MAX_THETA and strip_all(ec[0]).get("k") == "Ref" and th.get("k") == "Ref" and strip_all(ec[0]).get("d") == th.get("d"):
            mx.append(l)
    return (len(lits) == 2 and len(zero) == 1 and len(mx) == 1), t


def documented_semantics(facts):
    """layout facts stated in the documentation that are not constants:
    (1) serial-version-1/2 theta images carry no usable empty flag: empty <=> no entries AND theta == MAX_THETA;
    (2) a compact theta sketch with at most one entry is ordered (single-item images carry the ORDERED flag, 0x1A)."""
    fns = functions_by(facts, ["theta"])
    out = []
    for pat, fn in sorted(fns.items()):
        rect = fn.get("rect") or ""
        if rect == "datasketches::compact_theta_sketch_alloc" and fn["name"] == "deserialize_v1":
            # the emptiness handed to the constructor (first argument; through whatever locals) is exactly
            # `count == 0 && theta == MAX_THETA`, theta being the value handed over as theta (fourth argument)
            from astu import single_assignment_locals, literals
            sa = single_assignment_locals(fn)
            cons = []
            walk(fn["body"], lambda n: cons.append(n) if n.get("k") == "Return" and isinstance(strip_all(n.get("e") or {}), dict) and strip_all(n["e"]).get("k") == "Construct" and len(strip_all(n["e"]).get("args", [])) == 5 else None)
            ok, t = bool(cons), "?"
            for r in cons:
                args = strip_all(r["e"])["args"]
                good, t = _legacy_empty(args[0], args[3], sa, literals)
                ok = ok and good
            out.append(ob("layout.semantics", "compact_theta_sketch_alloc::deserialize_v1:legacy-empty-rule", fn["pat"], "discharged" if ok else "violated",
                          "v1 image is empty iff num_entries == 0 && theta == MAX_THETA" if ok else "v1 emptiness is decided by `%s`: a non-empty sketch with zero retained entries and theta < 1 (e.g. a disjoint intersection) would be read as empty and then ignored by unions" % t, fn["qname"]))
        if rect == "datasketches::compact_theta_sketch_parser" and fn["name"] == "parse":
            # serial version 1: a result flagged empty (first element true) is returned exactly under `count == 0 && theta == MAX_THETA`
            # (beyond the version dispatch), theta being the fifth element of that result
            from astu import single_assignment_locals, literals
            sa = single_assignment_locals(fn)
            rets = []
            walk(fn["body"], lambda n: rets.append(n) if n.get("k") == "Return" and isinstance(strip_all(n.get("e") or {}), dict) and strip_all(n["e"]).get("k") == "InitList" and len(strip_all(n["e"]).get("args", [])) >= 5 else None)
            v1 = []
            for r in rets:
                ls = reach(fn["body"], r)
                ver = [eq_const(l) for l in ls if eq_const(l) and eq_const(l)[1] == 1 and eq_const(l)[2] == "==" and "version" in txt(eq_const(l)[0]).lower()]
                if ver:
                    v1.append((r, [l for l in ls if not (eq_const(l) and eq_const(l)[1] == 1 and "version" in txt(eq_const(l)[0]).lower())]))
            if v1:
                ok, t, where = True, "?", None
                flagged = [(r, ls) for r, ls in v1 if strip_all(strip_all(r["e"])["args"][0]).get("k") == "Bool" and strip_all(strip_all(r["e"])["args"][0]).get("b")]
                if not flagged:
                    # emptiness passed as an expression
                    for r, ls in v1:
                        args = strip_all(r["e"])["args"]
                        good, t = _legacy_empty(args[0], args[4], sa, literals)
                        ok = ok and good
                        where = r
                for r, ls in flagged:
                    args = strip_all(r["e"])["args"]
                    conj = None
                    for l in ls:
                        conj = l if conj is None else {"k": "Bin", "op": "&&", "l": conj, "r": l}
                    good, t = _legacy_empty(conj, args[4], sa, literals) if conj is not None else (False, "unconditionally")
                    ok = ok and good
                    where = r
                out.append(ob("layout.semantics", "compact_theta_sketch_parser::parse:v1-legacy-empty-rule", (where or {}).get("loc", fn["pat"]), "discharged" if ok else "violated",
                              "v1 image is empty iff num_entries == 0 && theta == MAX_THETA" if ok else "v1 emptiness is decided by `%s` (must be num_entries == 0 && theta == MAX_THETA)" % t, fn["qname"]))
        if rect == "datasketches::compact_theta_sketch_alloc" and fn["kind"] == "ctor" and not fn.get("special") and len(fn["params"]) == 5:
            ini = [i for i in fn.get("inits", []) if i.get("field") == "is_ordered_"]
            penv = {pm["d"]: {"k": "Ref", "n": "p%d" % i, "d": None, "dk": "synthetic"} for i, pm in enumerate(fn["params"]) if "d" in pm}
            t = C(txt(ini[0]["e"], penv).replace(" ", "")) if ini else "?"     # parameters by position
            ok = t in (C("(p1||(p4.size()<=1))"), C("((p4.size()<=1)||p1)"), C("(p1||(2>p4.size()))"), C("((2>p4.size())||p1)"))
            out.append(ob("layout.semantics", "compact_theta_sketch_alloc::ctor(entries):single-item-ordered", fn["pat"], "discharged" if ok else "violated",
                          "is_ordered_ = is_ordered || entries.size() <= 1: single-item images carry the ORDERED flag (documented pattern 0x1A)" if ok else "is_ordered_ is initialised with `%s`: a single-item result requested unordered is written without the ORDERED flag, which readers following the documented single-item pattern (flags & 0x1F == 0x1A) take for empty" % t, fn["qname"]))
    return out


def _decls(fn):
    d = []
    walk(fn["body"], lambda n: [d.append(v) for v in n.get("vars", []) if "n" in v] if n.get("k") == "Decl" else None)
    return d


def ast_digest(fn):
    """structure digest of a function body: node kinds, operators, literals and resolved library/std callee names - no local
    names, no locations, no types.  Used only for the published reference hash functions, whose algorithm must not change."""
    import hashlib
    toks = []

    def v(n):
        if isinstance(n, dict):
            k = n.get("k")
            if k:
                t = k
                for a in ("op", "lit", "post"):
                    if a in n and n[a] not in (None, False):
                        t += ":%s" % n[a]
                if k in ("Call",) and n.get("cname"):
                    t += ":" + n["cname"]
                if k in ("Ref", "Member") and "v" in n and (n.get("dk") in ("global", "enum") or n.get("isstatic")):
                    t = "Int:%s" % (n["v"] % (1 << 64) if isinstance(n["v"], int) and not isinstance(n["v"], bool) else n["v"])      # a named constant reads as the literal it stands for
                if k == "Cast" and not n.get("impl"):
                    t += ":" + str(n.get("t"))
                inner = n.get("e")
                while isinstance(inner, dict) and (inner.get("k") == "Paren" or (inner.get("k") == "Cast" and inner.get("impl"))):
                    inner = inner.get("e")
                if k == "Paren":
                    t = None
                elif k == "Cast" and not n.get("impl") and isinstance(inner, dict) and (inner.get("t") or "").replace("const ", "") == (n.get("t") or "").replace("const ", ""):
                    t = None      # an explicit cast to the type the operand (below implicit conversions) already has
                elif k == "Cast" and n.get("impl"):
                    # implicit conversions count only when they change the width of a non-literal operand (a 64-bit seed passed
                    # through a 32-bit parameter); conversions of literals and same-width conversions come and go with spelling
                    op0 = n.get("e")
                    while isinstance(op0, dict) and op0.get("k") == "Paren":
                        op0 = op0.get("e")
                    if isinstance(op0, dict) and op0.get("k") not in ("Int", "Bool", "Float", "Sizeof") and op0.get("sz") and n.get("sz") and op0.get("sz") != n.get("sz") \
                            and n.get("ck") in ("IntegralCast",) and isinstance(op0.get("v"), type(None)):
                        t = "ICast:%s>%s" % (op0.get("sz"), n.get("sz"))
                    elif n.get("ck") in ("IntegralToFloating", "FloatingToIntegral"):
                        # a value that changes representation (an integer bit pattern stored through the double member of a
                        # union is converted numerically, not bit for bit)
                        t = "ICast:" + n.get("ck")
                    else:
                        t = None
                if t:
                    toks.append(t)
            for key in sorted(n):
                if key in ("loc", "t", "sz", "n", "d", "q", "ts", "fid", "cpat", "callee", "crec", "targs", "ptypes", "from", "written"):
                    continue
                v(n[key])
        elif isinstance(n, list):
            for x in n:
                v(x)
    v(fn["body"])
    # a bag, not a sequence: swapping independent statements or re-parenthesising does not change it, any changed operator,
    # literal, cast, loop or call does
    return hashlib.sha256(" ".join(sorted(toks)).encode()).hexdigest()[:20], len(toks)


HASH_DIGEST_FUNCS = ["MurmurHash3_x64_128", "fmix64", "getblock64", "XXHash64::hash", "XXHash64::add", "XXHash64::process", "XXHash64::processSingle", "XXHash64::rotateLeft", "compute_seed_hash", "compute_hash", "canonical_double"]


def hash_digest_rule(facts):
    sp = spec().get("hash_digests", {})
    fns = functions_by(facts)
    out = []
    for name, want in sorted(sp.items()):
        cands = _hash_fn_cands(fns, name)
        key = "hash-structure:" + name
        if not cands:
            out.append(ob("layout.hash", key, "", "unrecognised", "function %s not found / not instantiated" % name, ""))
            continue
        fn = cands[0]
        got, n = ast_digest(fn)
        if got == want:
            out.append(ob("layout.hash", key, fn["pat"], "discharged", "operator/literal structure (%d nodes) equals the reviewed reference implementation" % n, fn["qname"]))
        else:
            out.append(ob("layout.hash", key, fn["pat"], "violated", "the operator / literal / control structure of %s differs from the reviewed reference implementation of the published algorithm (digest %s, expected %s): an altered comparison, shift or loop bound changes hash values for some input lengths and breaks cross-language compatibility" % (name, got, want), fn["qname"]))
    return out


def flag_rows(facts):
    """booleans decoded from the image by a constant-mask bit test in reader functions: (key, terms, decl, fn); keys and terms are
    independent of local names, of hoisting the flags byte into a local and of naming the mask / the byte offset"""
    import field_validation
    from astu import ctext
    from triggers import _loc_key
    fns = functions_by(facts)
    out = []
    for pat, fn in sorted(fns.items()):
        if not (fn["name"].startswith("deserialize") or fn["name"].startswith("check_") or fn["name"] in ("parse", "newHll", "newList", "newSet", "internal_deserialize_or_wrap")):
            continue
        if fn.get("body") is None:
            continue
        rect = short(fn.get("rect") or "")
        cands = []

        def v(n):
            if n.get("k") != "Decl":
                return
            for var in n.get("vars", []):
                if var.get("t") not in ("const bool", "bool") or var.get("init") is None:
                    continue
                masks = []
                # a flag test masks a byte of the image with a constant - as a term of the initialiser, possibly compared with a
                # constant; `(word >> (i & 7)) & 1` walks a bit vector and is not one

                def is_mask(x):
                    x = strip_all(x)
                    if x.get("k") == "Un" and x.get("op") == "!":
                        return is_mask(x["e"])
                    if x.get("k") == "Bin" and x.get("op") in ("==", "!=", ">", "<") and ("v" in strip(x["l"]) or "v" in strip(x["r"])):
                        return is_mask(x["r"] if "v" in strip(x["l"]) else x["l"])
                    if x.get("k") == "Cond":
                        return is_mask(x["c"])
                    return x.get("k") == "Bin" and x.get("op") == "&" and (("v" in strip(x["l"]) and strip_all(x["r"]).get("k") != "Bin") or ("v" in strip(x["r"]) and strip_all(x["l"]).get("k") != "Bin"))
                masks = [t for t in _split_nodes(var["init"]) if is_mask(t)]
                if masks:
                    cands.append(var)

        def is_mask(x):
            x = strip_all(x)
            if x.get("k") == "Un" and x.get("op") == "!":
                return is_mask(x["e"])
            if x.get("k") == "Bin" and x.get("op") in ("==", "!=", ">", "<") and ("v" in strip(x["l"]) or "v" in strip(x["r"])):
                return is_mask(x["r"] if "v" in strip(x["l"]) else x["l"])
            if x.get("k") == "Cond":
                return is_mask(x["c"])
            return x.get("k") == "Bin" and x.get("op") == "&" and (("v" in strip(x["l"]) and strip_all(x["r"]).get("k") != "Bin") or ("v" in strip(x["r"]) and strip_all(x["l"]).get("k") != "Bin"))

        in_decl = set()
        for var in cands:
            walk(var["init"], lambda x: in_decl.add(id(x)))
        seen_inline = set()

        def vc(n):
            # a flag tested in place (`if (bytes[FLAGS] & MASK)`, `x != bool(flags & MASK)`) is the same decoding as one that is given
            # a name first: every bit test of an image byte with a constant mask is a row
            if n.get("k") == "Bin" and n.get("op") == "&" and id(n) not in in_decl and is_mask(n):
                t0 = ctext(fn, n).replace(" ", "")
                if re.search(r"^\((param#\d+\[[^\]]*\]|read#\d+<unsignedchar>|local<unsignedchar>#\d+)&\d+\)$", t0) and t0 not in seen_inline:
                    seen_inline.add(t0)
                    cands.append({"init": n, "loc": n.get("loc"), "n": None, "t": "bool", "inline": True})
        walk(fn["body"], v)
        cands_decl = list(cands)
        in_decl = set()
        for var in cands_decl:
            walk(var["init"], lambda x: in_decl.add(id(x)))
        walk(fn["body"], vc)
        cands.sort(key=_loc_key)
        kind = field_validation._kind(fn) or ""
        seen_terms = set()
        i = 0
        for var in cands:
            terms = sorted(set(ctext(fn, t) for t in _split_nodes(var["init"])))
            if tuple(terms) in seen_terms:
                continue       # one row per distinct decoding, however often it is spelled out
            seen_terms.add(tuple(terms))
            out.append(("%s::%s(%s):flag#%d" % (rect, fn["name"], kind, i), terms, var, fn))
            i += 1
    return out


def _split_nodes(e):
    e = strip(e)
    if isinstance(e, dict) and e.get("k") == "Bin" and e.get("op") in ("|", "||", "&&"):
        return _split_nodes(e["l"]) + _split_nodes(e["r"])
    if isinstance(e, dict) and e.get("k") == "Construct" and len(e.get("args", [])) == 1:
        return _split_nodes(e["args"][0])
    return [e]


def flag_provenance(facts):
    """a boolean decoded from the image's flags byte depends on exactly the documented flag bit(s); the decodings of each reader
    (as a bag: their order and the names of the locals do not matter) are listed (reviewed) in spec/layouts.json -> flag_terms"""
    sp = spec().get("flag_terms", {})
    out = []
    per_fn = {}
    for key, terms, var, fn in flag_rows(facts):
        per_fn.setdefault(key.rsplit(":flag#", 1)[0], []).append((terms, var, fn))
    for fkey, rows in sorted(per_fn.items()):
        want = [list(w) for w in sp.get(fkey, [])]
        if fkey not in sp:
            for terms, var, fn in rows:
                out.append(ob("layout.flags", "%s:%s" % (fkey, "|".join(terms)), var["loc"], "unrecognised", "flag decoding `%s = %s` is in a reader that is not in the reviewed table (new reader code: review and add to spec/layouts.json)" % (var["n"], " | ".join(terms)), fn["qname"]))
            continue
        left = []
        for terms, var, fn in rows:
            if terms in want:
                want.remove(terms)
                out.append(ob("layout.flags", "%s:%s" % (fkey, "|".join(terms)), var["loc"], "discharged", "%s = %s" % (var["n"], " | ".join(terms)), fn["qname"]))
            else:
                left.append((terms, var, fn))
        # what is left on both sides: a decoding that changed (paired in source order), a new one, or one that disappeared
        for terms, var, fn in left:
            if want:
                w = want.pop(0)
                out.append(ob("layout.flags", "%s:%s" % (fkey, "|".join(w)), var["loc"], "violated", "`%s` is decoded as `%s`; the documented layout derives it from %s only: images written by other implementations / earlier releases are interpreted differently" % (var["n"], " | ".join(terms), " | ".join(w)), fn["qname"]))
            else:
                out.append(ob("layout.flags", "%s:%s" % (fkey, "|".join(terms)), var["loc"], "unrecognised", "flag decoding `%s = %s` is not in the reviewed table (new reader code: review and add to spec/layouts.json)" % (var["n"], " | ".join(terms)), fn["qname"]))
        for w in want:
            out.append(ob("layout.flags", "%s:%s" % (fkey, "|".join(w)), rows[0][1]["loc"], "unrecognised", "the reviewed flag decoding %s is no longer found as a boolean local in %s (inlined into its use?): re-review spec/layouts.json" % (" | ".join(w), fkey), rows[0][2]["qname"]))
    for fkey in sp:
        if fkey not in per_fn:
            out.append(ob("layout.flags", fkey, "", "unrecognised", "reader %s with reviewed flag decodings is no longer found: re-review spec/layouts.json" % fkey, ""))
    return out


def flag_terms_table(facts):
    """used by tools/gen_spec_c10.py to build the reviewed table: reader -> list of term lists"""
    res = {}
    for key, terms, var, fn in flag_rows(facts):
        res.setdefault(key.rsplit(":flag#", 1)[0], []).append(terms)
    return res


def estimation_state_written(facts):
    """compact Theta / Tuple writers (v3 layout): an estimation-mode sketch (theta < 1) always uses the 3-long preamble and writes
    theta, whatever its emptiness and entry count - the single-item and empty short forms exist only in exact mode.  Decided by a
    truth table over e = is_estimation_mode(), z = is_empty(), s = (entries_.size() == 1) on the writer's own expressions:
    for every assignment  e => preamble_longs == 3,  and the condition guarding the write of theta_ is equivalent to e."""
    import itertools
    from astu import functions_by, strip_all, strip, walk, txt, short, local_decls, stmts_of
    fns = functions_by(facts, ["theta", "tuple"])
    out = []

    def ev(e, env, decls, depth=0):
        e = strip_all(e)
        k = e.get("k")
        if depth > 8:
            return None
        if k == "Call" and e.get("cname") == "is_estimation_mode":
            return env["e"]
        if k == "Call" and e.get("cname") == "is_empty":
            return env["z"]
        if k == "Call" and e.get("cname") == "get_preamble_longs":
            return env.get("PL")
        if k == "Bin":
            op = e["op"]
            if op in ("==", "!=", ">", "<", ">=", "<="):
                t = txt(e).replace(" ", "")
                if t in ("(entries_.size()==1)", "(1==entries_.size())"):
                    return env["s"]
                a, b = ev(e["l"], env, decls, depth + 1), ev(e["r"], env, decls, depth + 1)
                if a is None or b is None or isinstance(a, bool) != isinstance(b, bool) and False:
                    return None
                try:
                    return {"==": a == b, "!=": a != b, ">": a > b, "<": a < b, ">=": a >= b, "<=": a <= b}[op]
                except Exception:
                    return None
            a, b = ev(e["l"], env, decls, depth + 1), ev(e["r"], env, decls, depth + 1)
            if op == "||":
                return True if (a is True or b is True) else (False if (a is False and b is False) else None)
            if op == "&&":
                return False if (a is False or b is False) else (True if (a is True and b is True) else None)
            return None
        if k == "Un" and e.get("op") == "!":
            a = ev(e["e"], env, decls, depth + 1)
            return None if a is None else (not a)
        if k == "Cond":
            c = ev(e["c"], env, decls, depth + 1)
            if c is None:
                return None
            return ev(e["a"] if c else e["e"], env, decls, depth + 1)
        if k == "Ref" and e.get("dk") == "local" and e.get("d") in decls and decls[e["d"]].get("init") is not None:
            if e["d"] == env.get("PLd") and "PL" in env:
                return env["PL"]
            return ev(decls[e["d"]]["init"], env, decls, depth + 1)
        if k == "Ref" and e.get("dk") == "param" and "compressed" in env and (e.get("t") or "").replace("const ", "") == "bool":
            return env.get("compressed")      # the one boolean parameter of get_preamble_longs(compressed)
        if "v" in e and k in ("Int", "Cast", "Bool"):
            return e["v"] if k != "Bool" else bool(e.get("b", e.get("v")))
        if k == "Bool":
            return bool(e.get("b"))
        return None
    # the uncompressed preamble function of theta
    gpl = [f for f in fns.values() if f["name"] == "get_preamble_longs" and "compact_theta_sketch_alloc" in f["qname"]]

    def gpl_value(env):
        if not gpl:
            return None
        env2 = dict(env, compressed=False)
        gdecls = local_decls(gpl[0])      # locals of the helper (a hoisted is_estimation_mode()) read as their initialisers

        def run(stmts):
            for s in stmts:
                if s.get("k") == "If":
                    c = ev(s["c"], env2, gdecls)
                    if c is None:
                        return None
                    br = s.get("t") if c else s.get("e")
                    if br is not None:
                        r = run(stmts_of(br) if br.get("k") == "Block" else [br])
                        if r is not None:
                            return r
                elif s.get("k") == "Return":
                    return ev(s["e"], env2, gdecls)
                elif s.get("k") == "Block":
                    r = run(stmts_of(s))
                    if r is not None:
                        return r
            return None
        return run(stmts_of(gpl[0]["body"]))
    for pat, fn in sorted(fns.items()):
        if fn["name"] != "serialize" or not any(x in fn["qname"] for x in ("compact_theta_sketch_alloc", "compact_tuple_sketch")) or "array" in fn["qname"]:
            continue
        decls = local_decls(fn)
        # the preamble-longs value is the first value written to the image (whatever the local is called)
        from triggers import _loc_key
        wr = []
        walk(fn["body"], lambda x: wr.append(x) if x.get("k") == "Call" and x.get("cname") in ("write", "copy_to_mem") else None)
        # `*ptr++ = v;` is a write too
        walk(fn["body"], lambda x: wr.append({"k": "Store", "loc": x.get("loc"), "args": [x.get("r")]}) if x.get("k") == "Assign" and x.get("op") == "=" and strip_all(x.get("l") or {}).get("k") == "Un" and strip_all(x["l"]).get("op") == "*" else None)
        wr.sort(key=_loc_key)
        pl = []
        if wr:
            for a in wr[0].get("args", []):
                a = strip_all(a)
                if isinstance(a, dict) and a.get("k") == "Ref" and a.get("dk") == "local" and a.get("d") in decls and decls[a["d"]].get("init") is not None and "stream" not in (a.get("t") or ""):
                    pl = [decls[a["d"]]]
                    break
        if not pl:
            continue
        # guard of the theta write
        guards = []

        def v(n):
            if n.get("k") == "If":
                hit = []
                walk(n.get("t"), lambda x: hit.append(x) if x.get("k") == "Call" and x.get("cname") in ("write", "copy_to_mem") and any(strip_all(a).get("k") == "Member" and strip_all(a).get("f") == "theta_" for a in x.get("args", [])) else None)
                if hit:
                    guards.append(n["c"])
        walk(fn["body"], v)
        kind = "stream" if any("basic_ostream" in p["t"] for p in fn["params"]) else "bytes"
        key = "%s(%s)" % (short(fn["patq"]), kind)
        if len(guards) != 1:
            out.append(ob("layout.estimation-state", key + ":theta-guard", fn["pat"], "unrecognised", "%d guarded writes of theta_ found" % len(guards), fn["qname"]))
            continue
        bad_pl, bad_g = [], []
        for e_, z_, s_ in itertools.product((False, True), repeat=3):
            if z_ and s_:
                continue  # an empty sketch has no entries
            env = {"e": e_, "z": z_, "s": s_}
            init = strip_all(pl[0]["init"])
            plv = gpl_value(env) if (init.get("k") == "Call" and init.get("cname") == "get_preamble_longs") else ev(pl[0]["init"], env, decls)
            if plv is None:
                bad_pl.append("preamble_longs not evaluable for %s" % env)
                break
            if e_ and plv != 3:
                bad_pl.append("is_estimation_mode()=true, is_empty()=%s, one entry=%s: preamble_longs = %s" % (str(z_).lower(), str(s_).lower(), plv))
            g = ev(guards[0], dict(env, PL=plv, PLd=pl[0].get("d")), decls)
            if g is None:
                bad_g.append("guard `%s` not evaluable" % txt(guards[0]))
                break
            if g != e_:
                bad_g.append("is_estimation_mode()=%s, is_empty()=%s, one entry=%s: theta is %swritten" % (str(e_).lower(), str(z_).lower(), str(s_).lower(), "" if g else "NOT "))
        out.append(ob("layout.estimation-state", key + ":preamble-longs", pl[0]["loc"], "violated" if bad_pl else "discharged", (bad_pl[0] + " - an estimation-mode sketch is written in a short form that has no theta field; every reader restores theta = 1.0 and the estimate collapses to the retained count") if bad_pl else "estimation mode always selects the 3-long preamble", fn["qname"]))
        out.append(ob("layout.estimation-state", key + ":theta-guard", guards[0].get("loc", fn["pat"]), "violated" if bad_g else "discharged", (bad_g[0] + " (guard `%s`)" % txt(guards[0])) if bad_g else "theta_ is written exactly when the sketch is in estimation mode", fn["qname"]))
    if len(out) < 8:
        out.append(ob("layout.estimation-state", "anchor", "", "unrecognised", "expected the stream and byte writers of compact theta and compact tuple (8 obligations), found %d" % len(out), ""))
    return out


def hll_set_probe(facts):
    """The SET-mode coupon table is written and read verbatim in updatable HLL images, so the slot a coupon occupies is part of the
    cross-language layout: start = coupon & (size - 1), stride = ((coupon & KEY_MASK_26) >> lgArrInts) | 1 (address bits only,
    forced odd).  Writer-side insert and reader-side lookup share this function, so a consistent change is invisible to every
    C++ round trip."""
    from astu import functions_by, strip_all, walk, txt, short, local_decls
    fns = functions_by(facts, ["hll"])
    out = []
    for pat, fn in sorted(fns.items()):
        if not (fn["name"] == "find" and "CouponHashSet" in fn["pat"] and len(fn["params"]) == 3):
            continue
        decls = local_decls(fn)
        # the stride is whatever is added to the probe position: probe = (probe + X) & mask
        pr = [v for v in decls.values() if v.get("init") is not None and strip_all(v["init"]).get("k") == "Bin" and strip_all(v["init"]).get("op") == "&" and any(strip_all(y).get("k") == "Ref" and strip_all(y).get("dk") == "param" for y in (strip_all(v["init"])["l"], strip_all(v["init"])["r"]))]
        st = []
        if pr:
            steps = []
            walk(fn["body"], lambda n: steps.append(n) if n.get("k") == "Assign" and n.get("op") == "=" and strip_all(n["l"]).get("d") == pr[0]["d"] else None)
            for a in steps:
                add = []
                walk(a["r"], lambda n: add.append(n) if n.get("k") == "Bin" and n.get("op") == "+" else None)
                for b in add:
                    for y in (strip_all(b["l"]), strip_all(b["r"])):
                        if y.get("k") == "Ref" and y.get("d") in decls and y.get("d") != pr[0]["d"]:
                            st.append(decls[y["d"]])
        key = "CouponHashSet::find:stride"
        if not st or st[0].get("init") is None:
            out.append(ob("layout.hll-set-probe", key, fn["pat"], "unrecognised", "no `probe = (probe + stride) & mask` step found", fn["qname"]))
            continue
        e = strip_all(st[0]["init"])
        ok = False
        why = txt(e)
        if e.get("k") == "Bin" and e.get("op") == "|" and strip_all(e["r"]).get("v") == 1:
            sh = strip_all(e["l"])
            if sh.get("k") == "Bin" and sh.get("op") == ">>" and strip_all(sh["r"]).get("k") == "Ref" and strip_all(sh["r"]).get("dk") == "param":
                m = strip_all(sh["l"])
                if m.get("k") == "Bin" and m.get("op") == "&":
                    sides = [strip_all(m["l"]), strip_all(m["r"])]
                    ok = any(s.get("k") == "Ref" and s.get("dk") == "param" for s in sides) and any(s.get("v") == 0x3ffffff for s in sides)
        out.append(ob("layout.hll-set-probe", key, st[0]["loc"], "discharged" if ok else "violated", "stride = ((coupon & KEY_MASK_26) >> lgArrInts) | 1" if ok else "probe stride is `%s`, documented `((coupon & KEY_MASK_26) >> lgArrInts) | 1`: for tables of 2^14 slots and more the value bits of the coupon leak into the stride, so coupons sit in slots that a reader probing as documented (Java, earlier releases) never visits - and the reverse for images it reads" % why, fn["qname"]))
        ok2 = bool(pr)
        out.append(ob("layout.hll-set-probe", "CouponHashSet::find:start", fn["pat"], "discharged" if ok2 else "violated", "start = coupon & (size - 1)" if ok2 else "probe start is `%s`" % (txt(pr[0].get("init")) if pr else "?"), fn["qname"]))
    if not out:
        out.append(ob("layout.hll-set-probe", "anchor", "", "unrecognised", "CouponHashSet find not found", ""))
    return out
