"""Tiny structured dataflow engine over the exported statement trees.

run(body, transfer, init) propagates a set of abstract states through a structured body (no goto in this code base):
  transfer(expr_node, state) -> state   is applied to every Call / OpCall / Construct / Assign / Un node of an
                                        expression in evaluation order (children first)
  cond(expr, state, branch) -> state|None  optional refinement on branches (None = branch infeasible)
Returns (exit_states, fall_states): states at `return` (or end of body) and at normal fallthrough.
Throwing paths are dropped (they do not reach a normal exit)."""
from astu import C, ctxt, gt_pair, eq_const, reach, reach_txt, ctext, strip

EVENT_KINDS = ("Call", "OpCall", "Construct", "Assign", "Un", "New", "Delete")


def _events(e, out):
    if isinstance(e, dict):
        k = e.get("k")
        if k == "Lambda":
            return
        if k == "Cond":
            # both arms may execute: treat conservatively as sequence cond, a, e (callers use may/must carefully)
            _events(e.get("c"), out)
            _events(e.get("a"), out)
            _events(e.get("e"), out)
            return
        for key, v in e.items():
            if key in ("loc", "t"):
                continue
            _events(v, out)
        if k in EVENT_KINDS:
            out.append(e)
    elif isinstance(e, list):
        for v in e:
            _events(v, out)


def events_of(e):
    out = []
    _events(e, out)
    return out


class Flow:
    def __init__(self, transfer, cond=None):
        self.transfer = transfer
        self.cond = cond
        self.exits = set()

    def expr(self, e, states):
        if e is None:
            return states
        evs = events_of(e)
        out = set()
        cur = set(states)
        for ev in evs:
            nxt = set()
            for s in cur:
                r = self.transfer(ev, s)
                if isinstance(r, (set, frozenset)):
                    nxt |= r
                else:
                    nxt.add(r)
            cur = nxt
        return cur

    def branch(self, c, states, b):
        if self.cond is None:
            return set(states)
        out = set()
        for s in states:
            r = self.cond(c, s, b)
            if r is not None:
                out.add(r)
        return out

    def stmt(self, s, states):
        """returns fallthrough states; records exits; break/continue handled by loop frames"""
        if s is None or not states:
            return states
        k = s.get("k")
        if k == "Block":
            cur = states
            for c in s.get("s", []):
                cur = self.stmt(c, cur)
                if not cur:
                    break
            return cur
        if k == "Expr":
            e = s["e"]
            if strip(e).get("k") == "Throw":
                self.expr(e, states)
                return set()
            return self.expr(e, states)
        if k == "Decl":
            cur = states
            for v in s.get("vars", []):
                if v.get("init") is not None:
                    cur = self.expr(v["init"], cur)
            return cur
        if k == "Return":
            cur = self.expr(s.get("e"), states)
            self.exits |= cur
            return set()
        if k == "If":
            cur = self.expr(s["c"], states)
            if s.get("init"):
                cur = self.stmt(s["init"], cur)
            t = self.stmt(s.get("t"), self.branch(s["c"], cur, True))
            e = self.stmt(s.get("e"), self.branch(s["c"], cur, False)) if s.get("e") else self.branch(s["c"], cur, False)
            return t | e
        if k in ("For", "While", "RangeFor", "Do"):
            cur = states
            if k == "For" and s.get("init"):
                cur = self.stmt(s["init"], cur)
            if k == "RangeFor":
                cur = self.expr(s.get("range"), cur)
            seen = set(cur)
            result = set()
            frontier = set(cur)
            for _ in range(6):
                if k != "Do" and s.get("c") is not None:
                    frontier = self.expr(s["c"], frontier)
                if k != "Do":
                    result |= frontier      # loop may exit here
                saved_b, saved_c = getattr(self, "brk", set()), getattr(self, "cont", set())
                self.brk, self.cont = set(), set()
                body = self.stmt(s.get("b"), set(frontier))
                body |= self.cont
                result |= self.brk
                self.brk, self.cont = saved_b, saved_c
                if k == "For" and s.get("inc") is not None:
                    body = self.expr(s["inc"], body)
                if k == "Do":
                    if s.get("c") is not None:
                        body = self.expr(s["c"], body)
                    result |= body
                new = body - seen
                if not new:
                    break
                seen |= new
                frontier = new
            return result
        if k == "Break":
            self.brk = getattr(self, "brk", set()) | states
            return set()
        if k == "Continue":
            self.cont = getattr(self, "cont", set()) | states
            return set()
        if k == "Switch":
            cur = self.expr(s["c"], states)
            saved_b = getattr(self, "brk", set())
            self.brk = set()
            out = self.stmt(s.get("b"), cur) | cur
            out |= self.brk
            self.brk = saved_b
            return out
        if k in ("Case", "Default", "Label"):
            return self.stmt(s.get("s"), states)
        if k == "Try":
            out = self.stmt(s.get("b"), states)
            for h in s.get("handlers", []):
                out |= self.stmt(h, set(states))
            return out
        return states

    def run(self, body, init):
        self.exits = set()
        fall = self.stmt(body, {init})
        return self.exits | fall
