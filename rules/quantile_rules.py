"""C07 / C20 rules: iterator level-step coupling and positioning agreement, query guards, sorted-view cache invalidation,
compaction triggers, density counters."""
from astu import C, ctxt, gt_pair, eq_const, reach, reach_txt, ctext, strip, strip_all, walk, walkp, txt, short, is_this_field, field_name, stmts_of, always_throws, functions_by, local_decls
from flow import Flow
from vlib.core import ob

QFAM = ("kll", "req", "quantiles", "density")


def qfns(facts, drivers=QFAM):
    return functions_by(facts, list(drivers))


def field_updates(block_stmts):
    """(field, op) for updates of this-fields performed directly by the statements of one block (not nested blocks)"""
    ups = []
    for s in block_stmts:
        e = s.get("e") if s.get("k") == "Expr" else None
        if e is None:
            continue
        e0 = strip(e)
        if e0.get("k") == "Un" and e0.get("op") in ("++", "--") and is_this_field(e0["e"]):
            ups.append((field_name(e0["e"]), e0["op"]))
        elif e0.get("k") == "OpCall" and e0.get("op") in ("++", "--") and e0.get("args") and is_this_field(e0["args"][0]):
            ups.append((field_name(e0["args"][0]), e0["op"]))
        elif e0.get("k") == "Assign" and e0.get("op") in ("*=", "+=", "<<=") and is_this_field(e0["l"]):
            ups.append((field_name(e0["l"]), e0["op"] + txt(e0["r"])))
    return ups


def all_blocks(n, out):
    if isinstance(n, dict):
        if n.get("k") == "Block":
            out.append(n)
        for k, v in n.items():
            all_blocks(v, out)
    elif isinstance(n, list):
        for v in n:
            all_blocks(v, out)
    return out


def iterator_rules(facts, fams=("kll/", "req/", "quantiles/", "density/")):
    fns = qfns(facts)
    recs = {}
    for pat, fn in fns.items():
        r = fn.get("rect") or ""
        if not r.endswith("const_iterator") or not any(pat.startswith(f) for f in fams):
            continue
        if fn["kind"] == "ctor" and not fn.get("special"):
            recs.setdefault(r, {})["ctor"] = fn
        elif fn["name"] == "operator++" and len(fn["params"]) == 0:
            recs.setdefault(r, {})["inc"] = fn
    out = []
    for r, d in sorted(recs.items()):
        if "ctor" not in d or "inc" not in d:
            continue
        base = short(r)
        # private void helpers of the iterator class are seen through (the skip loop may live in one)
        from astu import inlined_body
        by_pat = {f["pat"]: f for f in fns.values()}
        inc, ctor = dict(d["inc"], body=inlined_body(d["inc"], by_pat)), dict(d["ctor"], body=inlined_body(d["ctor"], by_pat))
        # coupling pairs established by operator++: two different fields updated side by side in one block
        pairs = set()
        for b in all_blocks(inc["body"], []):
            ups = field_updates(stmts_of(b))
            lv = [u for u in ups if u[1] in ("++",)]
            wt = [u for u in ups if u[1].startswith("*=") or u[1].startswith("<<=")]
            for a in lv:
                for w in wt:
                    pairs.add((a, w))
            if len(lv) >= 2 and not wt:
                # e.g. ++levels_it_; ++height_;
                names = sorted(lv)
                for i in range(len(names)):
                    for j in range(i + 1, len(names)):
                        pairs.add((names[i], names[j]))
        # every block (ctor and operator++) that applies one side of a pair applies the other side too
        for (a, w) in sorted(pairs):
            for which, fn in (("ctor", ctor), ("operator++", inc)):
                n_blocks = 0
                bad = None
                for b in all_blocks(fn["body"], []):
                    ups = field_updates(stmts_of(b))
                    ha, hw = a in ups, w in ups
                    if ha or hw:
                        n_blocks += 1
                        if ha != hw:
                            bad = (b, a if ha else w, w if ha else a)
                key = "%s:%s:couples(%s,%s)" % (base, which, a[0], w[0])
                if bad:
                    out.append(ob("iter.coupling", key, bad[0].get("loc", fn["pat"]), "violated", "%s updates `%s` without the coupled update of `%s` (operator++ always does both): the weight/level reported for items no longer matches the level they are in" % (which, bad[1][0], bad[2][0]), fn["qname"]))
                elif n_blocks:
                    out.append(ob("iter.coupling", key, fn["pat"], "discharged", "%s %s and %s %s always together (%d block(s))" % (a[0], a[1], w[0], w[1], n_blocks), fn["qname"]))
        # positioning agreement: if operator++ skips empty levels in a loop, the constructor has a skip loop too
        def loops(fn):
            ls = []
            walk(fn["body"], lambda n: ls.append(n) if n.get("k") in ("While", "Do", "For") else None)
            return ls
        li, lc = loops(inc), loops(ctor)
        key = "%s:ctor:skips-empty-levels" % base
        if li and not lc:
            out.append(ob("iter.positioning", key, ctor["pat"], "violated", "operator++ skips empty levels in a loop but the constructor does not: begin() of a sketch whose first level is empty is positioned on a non-item (wrong weights / runs off the end)", ctor["qname"]))
        elif li:
            # the loop conditions must test the same kind of boundary
            ci = sorted({txt(l["c"]) for l in li})
            cc = sorted({txt(l["c"]) for l in lc})
            same = any(x == y for x in ci for y in cc)
            if same:
                out.append(ob("iter.positioning", key, ctor["pat"], "discharged", "constructor and operator++ skip empty levels with the same loop condition `%s`" % cc[0], ctor["qname"]))
            else:
                out.append(ob("iter.positioning", key, ctor["pat"], "violated", "constructor skip-loop condition %s differs from operator++'s %s" % (cc, ci), ctor["qname"]))
    return out


def query_guards(facts):
    """every query is dominated by the empty check that throws; get_quantile also by the rank range check"""
    fns = qfns(facts, ("kll", "req", "quantiles"))
    out = []
    names = ("get_rank", "get_quantile", "get_PMF", "get_CDF", "get_min_item", "get_max_item", "get_rank_lower_bound", "get_rank_upper_bound")
    for pat, fn in sorted(fns.items()):
        rect = fn.get("rect") or ""
        if fn["name"] not in names or not any(rect == "datasketches::" + r for r in ("kll_sketch", "req_sketch", "quantiles_sketch")):
            continue
        if fn["name"] in ("get_rank_lower_bound", "get_rank_upper_bound"):
            continue
        st = stmts_of(fn["body"])
        first_use = None
        empty_at, range_at = None, None
        for i, s in enumerate(st):
            if s.get("k") == "If" and always_throws(s.get("t")):
                c = txt(s["c"])
                if c in ("is_empty()",) and empty_at is None:
                    empty_at = i
                cc = c.replace(" ", "").replace("0.0", "0").replace("1.0", "1")
                # rank < 0 || rank > 1 in either orientation of each comparison
                if fn["name"] == "get_quantile" and "||" in cc and any(x in cc for x in ("(rank<0)", "(0>rank)")) and any(x in cc for x in ("(rank>1)", "(1<rank)")) and range_at is None:
                    range_at = i
                continue
            if first_use is None:
                first_use = i
        key = "%s::%s:empty-guard" % (short(rect), fn["name"])
        if empty_at is not None and (first_use is None or empty_at < first_use):
            out.append(ob("query.guard", key, fn["pat"], "discharged", "`if (is_empty()) throw` precedes the query", fn["qname"]))
        else:
            out.append(ob("query.guard", key, fn["pat"], "violated", "query is not preceded by `if (is_empty()) throw`: an empty sketch answers (dereferences an empty optional / empty view) instead of rejecting", fn["qname"]))
        if fn["name"] == "get_quantile":
            key = "%s::get_quantile:rank-range" % short(rect)
            if range_at is not None and (first_use is None or range_at < first_use):
                out.append(ob("query.guard", key, fn["pat"], "discharged", "rank outside [0,1] is rejected before the query", fn["qname"]))
            else:
                out.append(ob("query.guard", key, fn["pat"], "violated", "no `rank < 0 || rank > 1 -> throw` before the query", fn["qname"]))
    return out


def cache_invalidation(facts):
    """every public mutator of a sketch with a cached sorted view invalidates the cache on every path that modifies data"""
    fns = qfns(facts, ("kll", "req", "quantiles"))
    out = []
    by_rec = {}
    for pat, fn in fns.items():
        if fn.get("rect") in ("datasketches::kll_sketch", "datasketches::req_sketch", "datasketches::quantiles_sketch"):
            by_rec.setdefault(fn["rect"], {})[pat] = fn
    for rect, fs in sorted(by_rec.items()):
        resetters = {p for p, f in fs.items() if f["name"] == "reset_sorted_view"}
        if not resetters:
            out.append(ob("cache.invalidate", short(rect) + ":anchor", "", "unrecognised", "reset_sorted_view not found", ""))
            continue
        memo = {}

        selfp = [set()]

        def is_this_field(e, names=None):   # shadows the module-level helper: `this->f` or `<self-param>.f`
            e = strip(e)
            if isinstance(e, dict) and e.get("k") == "Member" and e.get("isfield"):
                b = strip(e["b"])
                if b.get("k") == "This" or (b.get("k") == "Ref" and b.get("d") in selfp[0]):
                    return names is None or e["f"] in names
            return False

        def is_data_write(ev):
            k = ev.get("k")
            if k == "Assign":
                l = strip(ev["l"])
                root = l
                while isinstance(root, dict) and root.get("k") in ("Index", "Un", "OpCall", "Member") and not is_this_field(root):
                    if root.get("k") == "Index":
                        root = strip(root["b"])
                    elif root.get("k") == "Un":
                        root = strip(root["e"])
                    elif root.get("k") == "OpCall":
                        root = strip(root["args"][0]) if root.get("args") else {}
                    elif root.get("k") == "Member":
                        root = strip(root["b"])
                return is_this_field(root) and field_name(root) != "sorted_view_"
            if k == "Un" and ev.get("op") in ("++", "--"):
                root = strip(ev["e"])
                while isinstance(root, dict) and root.get("k") == "Index":
                    root = strip(root["b"])
                return is_this_field(root) and field_name(root) != "sorted_view_"
            if k == "Call" and ev.get("cname") == "swap":
                return any(is_this_field(a) and field_name(a) != "sorted_view_" for a in ev.get("args", []))
            if k == "Call" and ev.get("member") and ev.get("obj") is not None and not ev.get("cconst", True):
                o = strip(ev["obj"])
                while isinstance(o, dict) and o.get("k") in ("Index", "OpCall"):
                    o = strip(o["b"]) if o.get("k") == "Index" else (strip(o["args"][0]) if o.get("args") else {})
                return is_this_field(o) and field_name(o) != "sorted_view_"
            if k == "OpCall" and ev.get("op") in ("=", "+=", "-=") and ev.get("args") and is_this_field(ev["args"][0]):
                return field_name(ev["args"][0]) != "sorted_view_"
            if k == "New" and ev.get("placement") is not None:
                pl = []
                walk(ev["placement"], lambda n: pl.append(1) if is_this_field(n) else None)
                return bool(pl)
            return False

        def summary(pat, stack=()):
            if pat in memo:
                return memo[pat]
            if pat in stack:
                return {(False, False)}
            fn = fs[pat]
            # parameters that alias the sketch itself: non-const references to the same record (static helpers taking `tgt`)
            mine = {p["d"] for p in fn["params"] if p["t"].endswith("&") and not p["t"].startswith("const ") and short(rect) in p["t"]}

            def on_self(ev):
                if ev.get("obj") is not None:
                    o = strip(ev["obj"])
                    return o.get("k") == "This" or (o.get("k") == "Ref" and o.get("d") in mine)
                # static / free call: does it receive *this or a self parameter by reference?
                for a in ev.get("args", []):
                    x = strip_all(a)
                    if x.get("k") == "Un" and x.get("op") == "*" and strip(x["e"]).get("k") == "This":
                        return True
                    if x.get("k") == "Ref" and x.get("d") in mine:
                        return True
                return not ev.get("cstatic", False) and ev.get("member") is None and False

            def transfer(ev, s):
                w, r = s
                selfp[0] = mine
                if ev.get("k") == "Call" and ev.get("cpat") in resetters and on_self(ev):
                    return (w, True)
                if ev.get("k") == "Call" and ev.get("cpat") in fs and ev.get("cpat") != pat and on_self(ev):
                    sub = summary(ev["cpat"], stack + (pat,))
                    selfp[0] = mine
                    return {(w or w2, r or r2) for (w2, r2) in sub}
                if is_data_write(ev):
                    return (True, r)
                return s
            res = Flow(transfer).run(fn["body"], (False, False))
            if not stack:
                memo[pat] = res
            return res
        for pat, fn in sorted(fs.items()):
            is_assign = fn.get("special") in ("copy-assign", "move-assign")
            if fn["kind"] in ("ctor", "dtor") or fn.get("const") or fn.get("static") or pat in resetters:
                continue
            if not is_assign and fn.get("access", 0) != 0:
                continue
            if fn.get("defaulted") or fn.get("implicit"):
                continue
            ex = summary(pat)
            wrote = any(w for w, r in ex)
            if not wrote:
                continue
            key = "%s::%s:invalidates-sorted-view" % (short(rect), fn["name"] + ("(&&)" if fn.get("special") == "move-assign" else "(const&)" if fn.get("special") == "copy-assign" else ""))
            bad = [(w, r) for w, r in ex if w and not r]
            if bad:
                out.append(ob("cache.invalidate", key, fn["pat"], "violated", "a path modifies the sketch's data and returns without reset_sorted_view(): a sorted view cached by an earlier query keeps answering rank/quantile/CDF from the old contents (and may point into released memory)", fn["qname"]))
            else:
                out.append(ob("cache.invalidate", key, fn["pat"], "discharged", "every data-modifying path calls reset_sorted_view()", fn["qname"]))
    return out


def compaction_triggers(facts):
    """REQ: the trigger comparing retained count with nominal capacity includes equality; density: compaction after
    growth is a loop on num_retained_ >= k * levels"""
    fns = qfns(facts, ("req", "density"))
    out = []
    from astu import inlined_body
    by_pat = {f["pat"]: f for f in fns.values()}
    for pat, fn0 in sorted(fns.items()):
        rect = fn0.get("rect") or ""
        # private void helpers are seen through (the compaction loop may have been moved into one)
        fn = dict(fn0, body=inlined_body(fn0, by_pat, keep=("compact", "compress", "compact_level"))) if fn0.get("body") is not None and fn0["name"] in ("update", "merge") else fn0
        if rect == "datasketches::req_sketch" and fn["name"] in ("update", "merge"):
            idx = [0]

            def v(n):
                if n.get("k") == "If":
                    c = strip(n["c"])
                    calls = []
                    walk(n["t"], lambda x: calls.append(x.get("cname")) if x.get("k") == "Call" else None)
                    if "compress" in calls and c.get("k") == "Bin" and {field_name(c["l"]), field_name(c["r"])} == {"num_retained_", "max_nom_size_"}:
                        key = "req_sketch::%s:compress-trigger#%d" % (fn["name"], idx[0])
                        idx[0] += 1
                        op = c["op"] if field_name(c["l"]) == "num_retained_" else {"<": ">", ">": "<", "<=": ">=", ">=": "<=", "==": "=="}.get(c["op"], c["op"])
                        if op in ("==", ">="):
                            out.append(ob("compaction.trigger", key, n["loc"], "discharged", "compress when num_retained_ %s max_nom_size_ (boundary included)" % op, fn["qname"]))
                        else:
                            out.append(ob("compaction.trigger", key, n["loc"], "violated", "compress only when num_retained_ %s max_nom_size_: the boundary case is skipped; update() triggers on equality only, so once the count passes the capacity the sketch never compacts again (unbounded growth)" % op, fn["qname"]))
            walk(fn["body"], v)
        if rect == "datasketches::density_sketch" and fn["name"] in ("update", "merge"):
            key = "density_sketch::%s:compaction-loop" % fn["name"]
            loops = []
            walk(fn["body"], lambda n: loops.append(n) if n.get("k") in ("While", "For") and any(x.get("cname") == "compact" for x in _calls(n["b"])) else None)
            ifs = []
            walk(fn["body"], lambda n: ifs.append(n) if n.get("k") == "If" and any(x.get("cname") == "compact" for x in _calls(n.get("t"))) else None)
            if loops and not ifs:
                c = txt(loops[0]["c"])
                if c.replace(" ", "") in (C("(num_retained_>=(k_*levels_.size()))"), C("(num_retained_>=(levels_.size()*k_))")):
                    out.append(ob("compaction.trigger", key, loops[0]["loc"], "discharged", "while (%s) compact()" % c, fn["qname"]))
                else:
                    out.append(ob("compaction.trigger", key, loops[0]["loc"], "violated", "compaction loop guard is `%s`, not num_retained_ >= k_ * levels_.size()" % c, fn["qname"]))
            else:
                out.append(ob("compaction.trigger", key, fn["pat"], "violated", "compaction is not repeated until num_retained_ < k * levels (single `if`, or missing): after merging full sketches the retained count can stay above the bound", fn["qname"]))
    return out


def _calls(n):
    out = []
    walk(n, lambda x: out.append(x) if x.get("k") == "Call" else None)
    return out


def density_rules(facts):
    fns = qfns(facts, ("density",))
    out = []
    from astu import inlined_body
    by_pat = {f["pat"]: f for f in fns.values()}
    for pat, fn0 in sorted(fns.items()):
        if fn0.get("rect") != "datasketches::density_sketch":
            continue
        fn = dict(fn0, body=inlined_body(fn0, by_pat, keep=("compact", "compress", "compact_level"))) if fn0.get("body") is not None and fn0["name"] in ("update", "merge") else fn0
        if fn["name"] in ("update", "merge"):
            st = stmts_of(fn["body"])
            guard_at, first_mut = None, None
            for i, s in enumerate(st):
                if s.get("k") == "If" and always_throws(s.get("t")) and "dim_" in txt(s["c"]) and "!=" in txt(s["c"]) and guard_at is None:
                    guard_at = i
                mut = [False]
                walk(s, lambda n: mut.__setitem__(0, True) if (n.get("k") in ("Un", "Assign") and (is_this_field(n.get("e") or n.get("l") or {}, ("n_", "num_retained_")))) or (n.get("k") == "Call" and n.get("cname") in ("push_back", "compact")) else None)
                if mut[0] and first_mut is None:
                    first_mut = i
            key = "density_sketch::%s:dimension-guard" % fn["name"]
            if guard_at is not None and (first_mut is None or guard_at < first_mut):
                out.append(ob("density.guard", key, fn["pat"], "discharged", "dimension mismatch throws before any modification", fn["qname"]))
            else:
                out.append(ob("density.guard", key, fn["pat"], "violated", "no dimension check that throws before the sketch is modified: points of the wrong dimension are accepted", fn["qname"]))
            # counters: n_ and num_retained_ both updated exactly once at top level
            ups = {}
            for s in st:
                e = strip(s.get("e")) if s.get("k") == "Expr" else None
                if not e:
                    continue
                if e.get("k") == "Un" and e.get("op") == "++" and is_this_field(e["e"], ("n_", "num_retained_")):
                    ups.setdefault(field_name(e["e"]), []).append("++")
                if e.get("k") == "Assign" and e.get("op") == "+=" and is_this_field(e["l"], ("n_", "num_retained_")):
                    ups.setdefault(field_name(e["l"]), []).append("+=" + txt(e["r"]))
            key = "density_sketch::%s:counters" % fn["name"]
            want_n = ["++"] if fn["name"] == "update" else ["+=other.n_"]
            want_r = ["++"] if fn["name"] == "update" else ["+=other.num_retained_"]
            if ups.get("n_") == want_n and ups.get("num_retained_") == want_r:
                out.append(ob("density.counters", key, fn["pat"], "discharged", "n_ %s and num_retained_ %s exactly once on the accept path" % (want_n[0], want_r[0]), fn["qname"]))
            else:
                out.append(ob("density.counters", key, fn["pat"], "violated", "counter updates are n_: %s, num_retained_: %s (expected %s and %s, once each)" % (ups.get("n_"), ups.get("num_retained_"), want_n, want_r), fn["qname"]))
        if fn["name"] == "compact_level":
            # each point of the cleared level is either pushed up or accounted by --num_retained_
            loops = []
            walk(fn["body"], lambda n: loops.append(n) if n.get("k") == "For" else None)
            ok = False
            site = fn["pat"]
            for L in loops:
                for s in stmts_of(L["b"]):
                    if s.get("k") == "If" and s.get("e") is not None:
                        t, e = txt(s["t"].get("s", [s["t"]])[0].get("e")) if stmts_of(s["t"]) else "", txt(stmts_of(s["e"])[0].get("e")) if stmts_of(s["e"]) else ""
                        if ("push_back" in t and "--num_retained_" in e) or ("push_back" in e and "--num_retained_" in t):
                            ok = True
                            site = s["loc"]
            cleared = any(x.get("cname") == "clear" for x in _calls(fn["body"]))
            key = "density_sketch::compact_level:retained-accounting"
            if ok and cleared:
                out.append(ob("density.counters", key, site, "discharged", "each point of the compacted level is either promoted or subtracted from num_retained_, then the level is cleared", fn["qname"]))
            else:
                out.append(ob("density.counters", key, site, "violated", "compaction does not account every point of the cleared level (promote or --num_retained_): retained count drifts from the points visible through iteration", fn["qname"]))
        if fn["name"] == "get_estimate":
            t = txt(fn["body"]) if False else ""
            ws = []
            walk(fn["body"], lambda n: ws.append(txt(n)) if n.get("k") == "Assign" and n.get("op") == "+=" else None)
            key = "density_sketch::get_estimate:weights"
            if ws and "(1<<height)" in ws[0].replace(" ", "") and "/n_" in ws[0].replace(" ", ""):
                out.append(ob("density.estimate", key, fn["pat"], "discharged", "estimate accumulates (1 << height) * kernel / n_", fn["qname"]))
            else:
                out.append(ob("density.estimate", key, fn["pat"], "violated", "estimate term is `%s`, not (1 << height) * kernel / n_" % (ws[0] if ws else "?"), fn["qname"]))
    return out


LEVEL_CONTAINERS = {("datasketches::density_sketch", "levels_"), ("datasketches::quantiles_sketch", "levels_"), ("datasketches::req_sketch", "compactors_")}
GROW = ("push_back", "emplace_back")
MAY_SHRINK = ("resize", "pop_back", "erase", "clear", "assign", "shrink_to_fit", "swap")


def level_growth(facts):
    """the vector of levels / compactors (whose elements hold retained items) only ever grows outside constructors, assignment and
    reset: every size-changing call on it in a mutator is push_back / emplace_back.  A resize / erase / clear there can drop levels
    together with the items they hold while n and num_retained still count them."""
    from astu import root_views
    fns = qfns(facts)
    out = []
    # looked at per operation with the private helpers of the class seen through: a growth site that several operations share
    # through a helper counts once per operation, wherever the statements are written
    for fn, body in root_views(fns):
        if fn.get("special") or fn["kind"] == "ctor" or fn["name"] in ("reset", "operator=", "deserialize"):
            continue
        idx = [0]

        def v(n):
            if n.get("k") == "Call" and n.get("member") and n.get("obj") is not None and n.get("cname") in GROW + MAY_SHRINK:
                o = strip(n["obj"])
                if o.get("k") == "Member" and (o.get("rec"), o.get("f")) in LEVEL_CONTAINERS:
                    key = "%s:%s.%s#%d" % (short(fn["patq"]), o["f"], "grow" if n["cname"] in GROW else "resize", idx[0])
                    idx[0] += 1
                    if n["cname"] in GROW:
                        out.append(ob("levels.grow-only", key, n["loc"], "discharged", "%s.%s(...) adds a level" % (o["f"], n["cname"]), fn["qname"]))
                    else:
                        out.append(ob("levels.grow-only", key, n["loc"], "violated", "%s.%s(...) in a mutator can shrink the vector of levels: levels above the new size are dropped with the items they hold while n_ / num_retained_ still count them (all sibling sites only push_back under a size test)" % (o["f"], n["cname"]), fn["qname"]))
        walk(body, v)
    return out


def level_capacity(facts):
    """classic quantiles: zip_buffer / merge_two_size_k_buffers take k from the CAPACITY of the level they write into, so every level
    vector that starts empty (constructed from an allocator only) is reserved to k before it becomes part of a sketch (pushed into a
    levels array, returned, or handed to a constructor).  A placeholder level without the reservation makes the restored / merged
    sketch reject the next carry into that level."""
    fns = qfns(facts, ("quantiles",))
    out = []
    n = 0
    for pat, fn in sorted(fns.items()):
        if (fn.get("rect") or "") != "datasketches::quantiles_sketch" or fn.get("body") is None:
            continue
        idx = [0]
        for b in all_blocks(fn["body"], []):
            st = stmts_of(b)
            for i, s in enumerate(st):
                if s.get("k") != "Decl":
                    continue
                for v in s.get("vars", []):
                    ini = strip_all(v.get("init") or {})
                    t = (v.get("t") or "")
                    if not (t.startswith("std::vector<") or "Level" in (v.get("ts") or "")) or ini.get("k") != "Construct" or len(ini.get("args", [])) != 1:
                        continue
                    if "allocator" not in (strip_all(ini["args"][0]).get("t") or "").lower() and "alloc" not in txt(ini["args"][0]).lower():
                        continue
                    # where does the empty vector go?
                    sink, reserved = None, False
                    for s2 in st[i + 1:]:
                        calls = []
                        walk(s2, lambda x: calls.append(x) if x.get("k") == "Call" else None)
                        if any(c.get("cname") == "reserve" and c.get("obj") is not None and strip_all(c["obj"]).get("d") == v["d"] for c in calls) and sink is None:
                            reserved = True
                        uses = []
                        walk(s2, lambda x: uses.append(x) if x.get("k") == "Ref" and x.get("d") == v["d"] else None)
                        if uses and sink is None and any(c.get("cname") in ("push_back", "emplace_back") for c in calls) or (s2.get("k") == "Return" and uses and sink is None):
                            sink = s2
                            break
                    if sink is None:
                        continue
                    form = "(stream)" if any("basic_istream" in (pm.get("t") or "") for pm in fn.get("params", [])) else ("(bytes)" if fn.get("params") and (fn["params"][0].get("t") or "").startswith("const void") else "")
                    key = "quantiles_sketch::%s%s:%s-reserved#%d" % (fn["name"], form, v.get("n"), idx[0])
                    idx[0] += 1
                    n += 1
                    if reserved:
                        out.append(ob("quantiles.capacity", key, v.get("loc", fn["pat"]), "discharged", "empty level `%s` is reserved before it is used" % v.get("n"), fn["qname"]))
                    else:
                        out.append(ob("quantiles.capacity", key, v.get("loc", fn["pat"]), "violated", "the empty level `%s` becomes part of a sketch without reserve(k): zip_buffer takes k from the capacity of the level it fills, so the next carry into this level throws (a restored / merged sketch that cannot be updated)" % v.get("n"), fn["qname"]))
    if n < 3:
        out.append(ob("quantiles.capacity", "anchor", "", "unrecognised", "only %d empty levels found" % n, ""))
    return out
