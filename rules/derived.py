"""Derived fields: a field whose value the class computes with one library function g from other state (discovered: every
computed definition of the field uses the same g; confirmed by reading; frozen below). Every definition of such a field -
mutators, constructors, the constructors used by the readers - must be g(...), a copy of the same field of another object, or an
integral value passed through unchanged (parameter / literal / local integral), never a different computation (in particular
not a floating-point to integer conversion that bypasses g). Breaking this makes a restored / reset object disagree with the
live one on state that is not stored in the image."""
from astu import strip, strip_all, walk, txt, short, is_this_field, field_name, functions_by, local_decls
from vlib.core import ob

DERIVED = [
    # class, field, via, reason
    ("datasketches::req_compactor", "section_size_", "nearest_even", "integer section size is the nearest even of the raw float size (ensure_enough_sections, deserializing ctor)"),
    ("datasketches::var_opt_sketch", "curr_items_alloc_", "get_adjusted_size", "allocated size is adjusted so that it never lands just below the maximum"),
    ("datasketches::bloom_filter_alloc", "num_bits_set_", "count_num_bits_set", "cached popcount is recomputed from the bit array"),
]


def obligations(facts, classes=None):
    fns = functions_by(facts)
    out = []
    for rec, fld, via, reason in DERIVED:
        if classes and rec.split("::")[-1] not in classes:
            continue
        n = 0
        nvia = 0
        for pat, fn in sorted(fns.items()):
            if fn.get("rect") != rec:
                continue
            decls = local_decls(fn)

            def resolve(e, depth=0):
                e0 = strip(e)
                s = strip_all(e)
                if s.get("k") == "Ref" and s.get("dk") == "local" and s.get("d") in decls and decls[s["d"]].get("init") is not None and depth < 3:
                    return resolve(decls[s["d"]]["init"], depth + 1)
                return e
            ds = []
            for i in fn.get("inits", []):
                if i.get("written") and i.get("field") == fld:
                    ds.append((i["e"], i["e"].get("loc", fn["pat"])))

            def v(nn):
                if nn.get("k") == "Assign" and nn.get("op") == "=" and is_this_field(nn["l"], (fld,)):
                    ds.append((nn["r"], nn["loc"]))
            walk(fn["body"], v)
            for j, (e, loc) in enumerate(ds):
                r = resolve(e)
                s = strip_all(r)
                key = "%s::%s:%s#%d" % (rec.split("::")[-1], fn["name"] + (("(%s)" % (fn.get("special") or len(fn["params"]))) if fn["name"] == rec.split("::")[-1] else ""), fld, j)
                n += 1
                # float -> int conversions anywhere on the way to the field
                fconv = []

                def cv(x):
                    if x.get("k") == "Cast" and x.get("ck") == "FloatingToIntegral":
                        fconv.append(x)
                walk(r, cv)
                if s.get("k") == "Call" and s.get("cname") == via:
                    nvia += 1
                    out.append(ob("derived.field", key, loc, "discharged", "%s = %s(...)" % (fld, via), fn["qname"]))
                elif s.get("k") == "Member" and s.get("f") == fld:
                    out.append(ob("derived.field", key, loc, "discharged", "copied from another object's %s" % fld, fn["qname"]))
                elif fconv:
                    out.append(ob("derived.field", key, loc, "violated", "%s = %s converts a floating-point value to the integer field without %s(): %s - an object built here (e.g. restored from an image) disagrees with a live one" % (fld, txt(s)[:60], via, reason), fn["qname"]))
                elif s.get("k") in ("Ref", "Int") or "v" in s:
                    if (s.get("t") or "").replace("const ", "") in ("float", "double"):
                        out.append(ob("derived.field", key, loc, "violated", "%s = %s takes a floating value without %s()" % (fld, txt(s)[:60], via), fn["qname"]))
                    else:
                        out.append(ob("derived.field", key, loc, "discharged", "integral value `%s` passed through unchanged" % txt(s)[:40], fn["qname"]))
                else:
                    out.append(ob("derived.field", key, loc, "violated", "%s = %s is a computation other than %s(): %s" % (fld, txt(s)[:80], via, reason), fn["qname"]))
        if n == 0 or nvia == 0:
            out.append(ob("derived.field", "%s:%s" % (rec.split("::")[-1], fld), rec, "unrecognised", "derived field has %d definitions, %d through %s()" % (n, nvia, via)))
    return out
