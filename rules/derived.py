"""Derived fields: a field whose value the class computes with one library function g from other state (discovered: every
computed definition of the field uses the same g; confirmed by reading; frozen below). Every definition of such a field -
mutators, constructors, the constructors used by the readers - must be g(...), a copy of the same field of another object, or an
integral value passed through unchanged (parameter / literal / local integral), never a different computation (in particular
not a floating-point to integer conversion that bypasses g). Breaking this makes a restored / reset object disagree with the
live one on state that is not stored in the image."""
from astu import C, ctxt, gt_pair, eq_const, reach, reach_txt, ctext, strip, strip_all, walk, txt, short, is_this_field, field_name, functions_by, local_decls
from vlib.core import ob

DERIVED = [
    # class, field, via, reason
    ("datasketches::req_compactor", "section_size_", "nearest_even", "integer section size is the nearest even of the raw float size (ensure_enough_sections, deserializing ctor)"),
    ("datasketches::var_opt_sketch", "curr_items_alloc_", "get_adjusted_size", "allocated size is adjusted so that it never lands just below the maximum"),
    ("datasketches::bloom_filter_alloc", "num_bits_set_", "count_num_bits_set", "cached popcount is recomputed from the bit array"),
]


def obligations(facts, classes=None):
    fns = functions_by(facts)
    out = []
    for rec, fld, via, reason in DERIVED:
        if classes and rec.split("::")[-1] not in classes:
            continue
        n = 0
        nvia = 0
        for pat, fn in sorted(fns.items()):
            if fn.get("rect") != rec:
                continue
            decls = local_decls(fn)

            def resolve(e, depth=0):
                e0 = strip(e)
                s = strip_all(e)
                if s.get("k") == "Ref" and s.get("dk") == "local" and s.get("d") in decls and decls[s["d"]].get("init") is not None and depth < 3:
                    return resolve(decls[s["d"]]["init"], depth + 1)
                return e
            ds = []
            for i in fn.get("inits", []):
                if i.get("written") and i.get("field") == fld:
                    ds.append((i["e"], i["e"].get("loc", fn["pat"])))

            def v(nn):
                if nn.get("k") == "Assign" and nn.get("op") == "=" and is_this_field(nn["l"], (fld,)):
                    ds.append((nn["r"], nn["loc"]))
            walk(fn["body"], v)
            for j, (e, loc) in enumerate(ds):
                r = resolve(e)
                s = strip_all(r)
                key = "%s::%s:%s#%d" % (rec.split("::")[-1], fn["name"] + (("(%s)" % (fn.get("special") or len(fn["params"]))) if fn["name"] == rec.split("::")[-1] else ""), fld, j)
                n += 1
                # float -> int conversions anywhere on the way to the field
                fconv = []

                def cv(x):
                    if x.get("k") == "Cast" and x.get("ck") == "FloatingToIntegral":
                        fconv.append(x)
                walk(r, cv)
                if s.get("k") == "Call" and s.get("cname") == via:
                    nvia += 1
                    out.append(ob("derived.field", key, loc, "discharged", "%s = %s(...)" % (fld, via), fn["qname"]))
                elif s.get("k") == "Member" and s.get("f") == fld:
                    out.append(ob("derived.field", key, loc, "discharged", "copied from another object's %s" % fld, fn["qname"]))
                elif fconv:
                    out.append(ob("derived.field", key, loc, "violated", "%s = %s converts a floating-point value to the integer field without %s(): %s - an object built here (e.g. restored from an image) disagrees with a live one" % (fld, txt(s)[:60], via, reason), fn["qname"]))
                elif s.get("k") in ("Ref", "Int") or "v" in s:
                    if (s.get("t") or "").replace("const ", "") in ("float", "double"):
                        out.append(ob("derived.field", key, loc, "violated", "%s = %s takes a floating value without %s()" % (fld, txt(s)[:60], via), fn["qname"]))
                    else:
                        out.append(ob("derived.field", key, loc, "discharged", "integral value `%s` passed through unchanged" % txt(s)[:40], fn["qname"]))
                else:
                    out.append(ob("derived.field", key, loc, "violated", "%s = %s is a computation other than %s(): %s" % (fld, txt(s)[:80], via, reason), fn["qname"]))
        if n == 0 or nvia == 0:
            out.append(ob("derived.field", "%s:%s" % (rec.split("::")[-1], fld), rec, "unrecognised", "derived field has %d definitions, %d through %s()" % (n, nvia, via)))
    return out


REST_STATE = [
    # class, private-constructor parameter, value a live object has between operations, reason
    ("datasketches::var_opt_sketch", "m", 0, "the M region is transient: it is empty whenever no update is in progress, so an image (which stores h and r only) restores m = 0; a restored m = 1 makes the first heavy update throw"),
    ("datasketches::var_opt_sketch", "filled_data", False, "the readers construct items only in the H and R regions: the gap slot is raw memory"),
]


def rest_state(facts):
    """state that an image does not carry and that is not derived from it either: the readers hand the constructor the value a live
    object has at rest (a literal), not something computed from image fields."""
    fns = functions_by(facts)
    out = []
    for rec, pname, val, why in REST_STATE:
        ctors = [f for f in fns.values() if f.get("rect") == rec and f["kind"] == "ctor" and any(p["n"] == pname for p in f["params"])]
        if not ctors:
            out.append(ob("derived.rest-state", "%s:%s:anchor" % (rec.split("::")[-1], pname), "", "unrecognised", "no constructor with a parameter `%s`" % pname, ""))
            continue
        ct = ctors[0]
        pi = [i for i, p in enumerate(ct["params"]) if p["n"] == pname][0]
        n = 0
        for pat, fn in sorted(fns.items()):
            if not fn["name"].startswith("deserialize") or fn.get("rect") not in (rec, None) and not (fn.get("rect") or "").startswith(rec):
                continue
            calls = []
            walk(fn["body"], lambda x: calls.append(x) if x.get("k") == "Construct" and x.get("cpat") == ct["pat"] and len(x.get("args", [])) > pi else None)
            for j, c in enumerate(calls):
                n += 1
                a = strip_all(c["args"][pi])
                kind = "bytes" if fn["params"] and fn["params"][0]["t"].startswith("const void") else "stream"
                key = "%s::%s(%s):%s-at-rest#%d" % (rec.split("::")[-1], fn["name"], kind, pname, j)
                lit = (a.get("k") in ("Int", "Bool") or ("v" in a and a.get("k") == "Cast")) and (a.get("v", a.get("b")) == val or a.get("b") == val)
                if lit:
                    out.append(ob("derived.rest-state", key, c["loc"], "discharged", "%s restored as %s" % (pname, val), fn["qname"]))
                else:
                    out.append(ob("derived.rest-state", key, c["loc"], "violated", "the reader passes `%s` for `%s`, expected the rest value %s: %s" % (txt(a)[:50], pname, val, why), fn["qname"]))
        if n == 0:
            out.append(ob("derived.rest-state", "%s:%s:calls" % (rec.split("::")[-1], pname), ct["pat"], "unrecognised", "no reader constructs the object through this constructor", ""))
    return out
