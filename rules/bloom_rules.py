"""C15 Bloom filter rules: write-through / dirty-flag typestate, read-only guard, stale-count reads, index agreement,
compatibility dominance, bit-op counting, overload sibling agreement."""
from astu import C, ctxt, gt_pair, eq_const, reach, reach_txt, ctext, strip, strip_all, walk, walkp, txt, short, is_this_field, field_name, stmts_of, always_throws, functions_by
from flow import Flow
from vlib.core import ob

REC = "datasketches::bloom_filter_alloc"
BITOPS_W = ("set_bit", "clear_bit", "assign_bit", "get_and_set_bit", "union_with", "intersect", "invert")


_PUB = {}


def publishers(fns):
    """names of the helper(s) that publish the bit count, recognised by what they do: a one-parameter member that stores its
    parameter into num_bits_set_ and clears is_dirty_ (update_num_bits_set in the reviewed tree)"""
    k = id(fns)
    if k in _PUB:
        return _PUB[k]
    names = set()
    for f in fns.values():
        if f.get("rect") != REC or f.get("body") is None or len(f.get("params") or []) != 1 or f.get("kind") in ("ctor", "dtor"):
            continue
        pd = f["params"][0].get("d")
        st_count, clr = [False], [False]

        def v(n):
            if n.get("k") == "Assign" and n.get("op") == "=" and is_this_field(n["l"], ("num_bits_set_",)) and strip(n["r"]).get("k") == "Ref" and strip(n["r"]).get("d") == pd:
                st_count[0] = True
            if n.get("k") == "Assign" and n.get("op") == "=" and is_this_field(n["l"], ("is_dirty_",)) and strip(n["r"]).get("k") == "Bool" and not strip(n["r"]).get("b"):
                clr[0] = True
        walk(f["body"], v)
        if st_count[0] and clr[0]:
            names.add(f["name"])
    _PUB[k] = tuple(sorted(names)) or ("update_num_bits_set",)
    return _PUB[k]


def bloom_fns(facts):
    """the member functions of the filter as the rules look at them: statement-level calls of private void helpers are seen through
    (checks or bit loops moved into a helper are still found in the operation that uses them); the calls the rules anchor on stay"""
    from astu import inlined_body
    fns = functions_by(facts, ["filters"])
    by_pat = {f["pat"]: f for f in fns.values()}
    bf = {}
    for p, f in fns.items():
        if f.get("rect") == REC:
            bf[p] = dict(f, body=inlined_body(f, by_pat, keep=publishers(fns))) if f.get("body") is not None else f
    return fns, bf


def writes_bits(n):
    """node writes the filter's bit array"""
    if n.get("k") == "Call":
        cal = n.get("callee") or ""
        if cal.startswith("datasketches::bit_array_ops::") and n.get("cname") in BITOPS_W and n.get("args") and is_this_field(n["args"][0], ("bit_array_",)):
            return True
        if n.get("cname") in ("fill_n", "fill", "memset", "memcpy") and n.get("args") and is_this_field(n["args"][0], ("bit_array_",)):
            return True
        # output-iterator position of the copying algorithms
        if n.get("cname") in ("copy", "copy_n", "copy_backward", "move", "transform") and len(n.get("args", [])) >= 3 and is_this_field(n["args"][2], ("bit_array_",)):
            return True
    if n.get("k") == "Assign":
        l = strip(n["l"])
        if l.get("k") == "Index" and is_this_field(l["b"], ("bit_array_",)):
            return True
    return False


def typestate(facts):
    fns, bf = bloom_fns(facts)
    out = []
    upd = {p for p, f in bf.items() if f["name"] in publishers(fns)}
    for pat, fn in sorted(bf.items()):
        if fn["kind"] in ("ctor", "dtor") or fn.get("special"):
            continue
        has_w = [False]
        walk(fn["body"], lambda n: has_w.__setitem__(0, True) if writes_bits(n) else None)
        if not has_w[0]:
            continue
        base = "bloom_filter_alloc::%s" % fn["name"]
        # (b) read-only guard dominates the first write
        from astu import stmts_flat
        st = stmts_flat(fn["body"])
        guard_at, write_at = None, None
        for i, s in enumerate(st):
            if guard_at is None and s.get("k") == "If" and is_this_field(s["c"], ("is_read_only_",)) and always_throws(s.get("t")):
                guard_at = i
            w = [False]
            walk(s, lambda n: w.__setitem__(0, True) if writes_bits(n) else None)
            if w[0] and write_at is None:
                write_at = i
        if guard_at is not None and guard_at < write_at:
            out.append(ob("bloom.guard", base + ":read-only-guard", fn["pat"], "discharged", "`if (is_read_only_) throw` precedes every write of the bit array", fn["qname"]))
        else:
            out.append(ob("bloom.guard", base + ":read-only-guard", fn["pat"], "violated", "method writes the bit array without first refusing a read-only filter: a read-only wrap of caller memory would be modified", fn["qname"]))
        # (a) write-through: after a write, every normal exit is reached only after the count/dirty marker is published
        # state = (dirty_bits, dirty_flag_set, marker_stored)
        # state = (wrote bits, published count, dirty flag set, marker stored / no wrapped memory)
        def transfer(ev, s):
            wrote, pub, flag, stored = s
            if writes_bits(ev):
                wrote = True
            if ev.get("k") == "Call" and ev.get("cpat") in upd:
                pub = True
            if ev.get("k") == "Assign" and is_this_field(ev["l"], ("is_dirty_",)) and strip(ev["r"]).get("k") == "Bool" and strip(ev["r"])["b"] is True:
                flag = True
            if ev.get("k") == "Call" and ev.get("cname") == "copy_to_mem" and len(ev.get("args", [])) >= 2:
                dst = []
                walk(ev["args"][1], lambda n: dst.append(1) if is_this_field(n, ("memory_",)) else None)
                if dst and "DIRTY" in txt(ev["args"][0]).upper():
                    stored = True
            return (wrote, pub, flag, stored)

        def cond(c, s, branch):
            c = strip(c)
            if c.get("k") == "Bin" and c.get("op") in ("!=", "==") and any(is_this_field(c[x], ("memory_",)) for x in ("l", "r")) and any(strip(c[x]).get("k") == "Null" for x in ("l", "r")):
                no_memory = (branch is False) if c["op"] == "!=" else (branch is True)
                if no_memory:
                    return (s[0], s[1], s[2], True)   # no wrapped memory on this path: nothing to store
            return s
        ex = Flow(transfer, cond).run(fn["body"], (False, False, False, False))
        bad = [s for s in ex if s[0] and not (s[1] or (s[2] and s[3]))]
        if not bad:
            out.append(ob("bloom.write-through", base + ":publishes-count", fn["pat"], "discharged", "every path from a write of the bit array to a normal exit publishes the bit count (update_num_bits_set) or sets is_dirty_ and stores the dirty marker into wrapped memory", fn["qname"]))
        else:
            what = "is_dirty_ not set" if not all(s[2] for s in bad) else "dirty marker not stored into wrapped memory"
            out.append(ob("bloom.write-through", base + ":publishes-count", fn["pat"], "violated", "a path writes the bit array and returns without publishing the change (%s): another view of the same memory (re-wrap, serialization) sees a stale count and answers `absent`" % what, fn["qname"]))
    return out


def stale_count(facts):
    """reads of the cached count num_bits_set_ happen only where it cannot be stale"""
    fns, bf = bloom_fns(facts)
    out = []
    for pat, fn in sorted(bf.items()):
        if fn["kind"] in ("ctor", "dtor") or fn.get("special") or fn["name"] in publishers(fns):
            continue
        idx = [0]
        st = stmts_of(fn["body"])
        # refresher = call to get_bits_used() on this, or the recount idiom inside get_bits_used itself
        def visit(n, parents):
            if not (n.get("k") == "Member" and n.get("isfield") and n.get("f") == "num_bits_set_" and strip(n["b"]).get("k") == "This"):
                return
            par = parents[-1] if parents else {}
            if par.get("k") == "Assign" and par.get("l") is n:
                return   # pure write
            key = "bloom_filter_alloc::%s:count-read#%d" % (fn["name"], idx[0])
            idx[0] += 1
            ok = None
            # (ii) the dirty flag is known to be clear where the count is read (nested if, else branch, && / ?:, guard clause alike)
            for lit in reach(fn["body"], n):
                lit = strip(lit)
                if lit.get("k") == "Un" and lit.get("op") == "!" and is_this_field(lit["e"], ("is_dirty_",)):
                    ok = "read where `!is_dirty_` is known to hold"
            chain = list(parents) + [n]
            for i, p in enumerate(chain[:-1]):
                nxt = chain[i + 1]
                if p.get("k") == "Cond" and is_this_field(p["c"], ("is_dirty_",)) and p.get("e") is nxt:
                    ok = "read in the not-dirty arm of `is_dirty_ ? .. : ..`"
                if p.get("k") == "Bin" and p.get("op") == "&&" and p.get("r") is nxt:
                    l = strip(p["l"])
                    if l.get("k") == "Un" and l.get("op") == "!" and is_this_field(l["e"], ("is_dirty_",)):
                        ok = "read under `!is_dirty_ &&`"
                if p.get("k") == "If" and p.get("t") is nxt:
                    c = strip(p["c"])
                    if c.get("k") == "Un" and c.get("op") == "!" and is_this_field(c["e"], ("is_dirty_",)):
                        ok = "read under `if (!is_dirty_)`"
                if p.get("k") == "If" and p.get("e") is nxt and is_this_field(p["c"], ("is_dirty_",)):
                    ok = "read in the else branch of `if (is_dirty_)`"
            # (iv) dominated by a refresh in the same function: top-level statement order
            top = None
            for i, s in enumerate(st):
                found = [False]
                walk(s, lambda x: found.__setitem__(0, True) if x is n else None)
                if found[0]:
                    top = i
                    break
            if ok is None and top is not None:
                for s in st[:top]:
                    ref = [False]

                    def r(x):
                        if x.get("k") == "Call" and x.get("cname") == "get_bits_used" and (x.get("obj") is None or strip(x["obj"]).get("k") == "This"):
                            ref[0] = True
                    walk(s, r)
                    if ref[0] and s.get("k") in ("Expr", "Decl"):
                        ok = "dominated by get_bits_used() (recount if dirty)"
                    # an unconditional recount: `num_bits_set_ = ...;` as a statement of its own before the read
                    if s.get("k") == "Expr" and isinstance(strip(s.get("e")), dict) and strip(s["e"]).get("k") == "Assign" and strip(s["e"]).get("op") == "=" and is_this_field(strip(s["e"])["l"], ("num_bits_set_",)):
                        ok = "dominated by an unconditional recount"
                    # the refresher's own idiom: if (is_dirty_) { num_bits_set_ = count...; is_dirty_ = false; }
                    if s.get("k") == "If" and is_this_field(s["c"], ("is_dirty_",)) and not s.get("e"):
                        w = [False]
                        walk(s["t"], lambda x: w.__setitem__(0, True) if x.get("k") == "Assign" and is_this_field(x["l"], ("num_bits_set_",)) else None)
                        if w[0]:
                            ok = "dominated by `if (is_dirty_) recount`"
            # (iii) to_string idiom: local initialised from the count, then overwritten under if (is_dirty_)
            if ok is None and top is not None and st[top].get("k") == "Decl" and top + 1 < len(st):
                nx = st[top + 1]
                v = st[top]["vars"][0]
                if nx.get("k") == "If" and is_this_field(nx["c"], ("is_dirty_",)):
                    w = [False]
                    walk(nx["t"], lambda x: w.__setitem__(0, True) if x.get("k") == "Assign" and strip(x["l"]).get("k") == "Ref" and strip(x["l"]).get("d") == v["d"] else None)
                    if w[0]:
                        ok = "local copy is overwritten by a recount when dirty"
            if ok:
                out.append(ob("bloom.stale-count", key, n["loc"], "discharged", ok, fn["qname"]))
            else:
                out.append(ob("bloom.stale-count", key, n["loc"], "violated", "the cached count num_bits_set_ is read where it may be stale (is_dirty_ set by a plain update): %s" % ("publishing stale+delta clears the dirty flag; the filter can then report empty and answer `absent` for inserted items" if fn["name"] == "internal_query_and_update" else "the value used may not match the bit array"), fn["qname"]))
        walkp(fn["body"], visit)
    return out


def index_agreement(facts):
    fns, bf = bloom_fns(facts)
    out = []
    info = {}
    for pat, fn in bf.items():
        if fn["name"] not in ("internal_update", "internal_query", "internal_query_and_update"):
            continue
        loops = []
        walk(fn["body"], lambda n: loops.append(n) if n.get("k") == "For" else None)
        if not loops:
            continue
        import semantics
        from astu import single_assignment_locals
        getters = semantics.trivial_getters(fns)
        L = semantics.degetter(loops[0], getters)
        init = txt(L["init"]["vars"][0]["init"]) if L.get("init") and L["init"].get("k") == "Decl" else "?"
        cond = txt(L["c"])
        hidx = []
        walk(L["b"], lambda n: [hidx.append(txt(v["init"])) for v in n.get("vars", []) if v.get("init") is not None and "%" in txt(v["init"])] if n.get("k") == "Decl" else None)
        inl = {d: semantics.degetter(v, getters) for d, v in single_assignment_locals(fn).items() if d != (L["init"]["vars"][0].get("d") if L.get("init") and L["init"].get("k") == "Decl" else None)}
        hidx2 = []
        walk(L["b"], lambda n: [hidx2.append(txt(v["init"], inl)) for v in n.get("vars", []) if v.get("init") is not None and "%" in txt(v["init"])] if n.get("k") == "Decl" else None)
        info[fn["name"]] = (fn, init, cond, (hidx2 or ["?"])[0])
    ref = info.get("internal_update")
    for name, (fn, init, cond, h) in sorted(info.items()):
        key = "bloom_filter_alloc::%s:index-formula" % name
        if ref is None:
            out.append(ob("bloom.index", key, fn["pat"], "unrecognised", "internal_update not found", fn["qname"]))
            continue
        if (init, cond, h) == ref[1:]:
            out.append(ob("bloom.index", key, fn["pat"], "discharged", "loop i=%s; %s; index %s (same as internal_update)" % (init, cond, h), fn["qname"]))
        else:
            out.append(ob("bloom.index", key, fn["pat"], "violated", "probe sequence differs from internal_update: here i=%s; %s; index %s  vs  i=%s; %s; index %s: an inserted item is looked up at different bit positions" % (init, cond, h, ref[1], ref[2], ref[3]), fn["qname"]))
    return out


def compat(facts):
    fns, bf = bloom_fns(facts)
    out = []
    for pat, fn in sorted(bf.items()):
        if fn["name"] not in ("union_with", "intersect"):
            continue
        from astu import stmts_flat
        st = stmts_flat(fn["body"])
        chk, wr = None, None
        for i, s in enumerate(st):
            if chk is None and s.get("k") == "If" and always_throws(s.get("t")):
                c = strip(s["c"])
                if c.get("k") == "Un" and c.get("op") == "!" and strip(c["e"]).get("k") == "Call" and strip(c["e"]).get("cname") == "is_compatible":
                    chk = i
            w = [False]
            walk(s, lambda n: w.__setitem__(0, True) if writes_bits(n) else None)
            if w[0] and wr is None:
                wr = i
        key = "bloom_filter_alloc::%s:compatibility" % fn["name"]
        if chk is not None and wr is not None and chk < wr:
            out.append(ob("bloom.compat", key, fn["pat"], "discharged", "`if (!is_compatible(other)) throw` precedes the bit operation", fn["qname"]))
        else:
            out.append(ob("bloom.compat", key, fn["pat"], "violated", "bit operation is not preceded by the compatibility check that throws", fn["qname"]))
    # is_compatible compares seed, num_hashes and capacity
    for pat, fn in sorted(bf.items()):
        if fn["name"] == "is_compatible":
            import semantics
            from astu import single_assignment_locals
            getters = semantics.trivial_getters(fns)
            other_d = fn["params"][0]["d"] if fn.get("params") else None
            need = ["seed_", "num_hashes_", "capacity_bits_"]
            key = "bloom_filter_alloc::is_compatible:fields"

            def mk_atom(vals):
                def atom(n):
                    if n.get("k") == "Bin" and n.get("op") in ("==", "!="):
                        a, b2 = semantics.field_of(n["l"], getters, other_d), semantics.field_of(n["r"], getters, other_d)
                        if a and b2 and a[0] != b2[0] and a[1] == b2[1] and a[1] in vals:
                            return vals[a[1]] if n["op"] == "==" else (not vals[a[1]])
                    return None
                return atom
            ok = True
            for x in (True, False):
                for y in (True, False):
                    for z in (True, False):
                        v = semantics.bool_fn_value(fn, mk_atom(dict(zip(need, (x, y, z)))), single_assignment_locals(fn))
                        if v is None or v != (x and y and z):
                            ok = False
            if ok:
                out.append(ob("bloom.compat", key, fn["pat"], "discharged", "true exactly when seed, number of hashes and capacity agree (truth table over the three equalities)", fn["qname"]))
            else:
                rets = []
                walk(fn["body"], lambda n: rets.append(txt(n["e"])) if n.get("k") == "Return" and n.get("e") is not None else None)
                out.append(ob("bloom.compat", key, fn["pat"], "violated", "is_compatible is not `seed, number of hashes and capacity all agree` (%s): filters with different bit positions for one item would be combined bitwise" % "; ".join(rets)[:160], fn["qname"]))
    return out


def bitops(facts):
    """union/intersect/invert: OR / AND / NOT over every byte, and the returned count accumulates the RESULT byte on every iteration.
    Decided on the normalised AST (pointer cursors are index loops, S15): every loop runs i = 0 .. length_bytes without jumps; the
    store `tgt[i] op= src[i]` (or tgt[i] = tgt[i] op src[i], through single-assignment locals) happens once per byte; the counted
    value is tgt[i] read after the store, or the very expression that was stored; one loop, or a store loop followed by a count loop"""
    from astu import single_assignment_locals
    fns = functions_by(facts, ["filters"])
    out = []
    want = {"union_with": "|", "intersect": "&", "invert": "~"}
    # one-parameter helpers whose whole job is `std::bitset<N> b(param); return b.count();`
    popc = set()
    for p0, f0 in fns.items():
        if f0.get("body") is None or len(f0.get("params") or []) != 1:
            continue
        sa0 = single_assignment_locals(f0)
        st0 = stmts_of(f0["body"])
        if not st0 or st0[-1].get("k") != "Return" or any(x.get("k") not in ("Decl", "Return") for x in st0):
            continue
        r0 = strip_all(st0[-1].get("e") or {})
        if r0.get("k") == "Call" and r0.get("cname") == "count" and "bitset" in (r0.get("crec") or r0.get("callee") or ""):
            o0 = strip(r0.get("obj") or {})
            c0 = sa0.get(o0.get("d")) if o0.get("k") == "Ref" else o0
            if isinstance(c0, dict) and c0.get("k") == "Construct" and len(c0.get("args", [])) == 1 and strip_all(c0["args"][0]).get("d") == f0["params"][0].get("d"):
                popc.add(p0)
    for pat, fn in sorted(fns.items()):
        if not (fn["qname"].startswith("datasketches::bit_array_ops::") and fn["name"] in want):
            continue
        key = "bit_array_ops::%s" % fn["name"]
        loops = []
        walk(fn["body"], lambda n: loops.append(n) if n.get("k") in ("For", "RangeFor", "While", "Do") else None)
        sa = single_assignment_locals(fn)
        T = fn["params"][0]["n"]
        S = fn["params"][1]["n"] if fn["name"] != "invert" else None
        LEN = fn["params"][-1]["n"]
        problems = []
        events = []      # (loop number, kind, text)
        if not loops or len(loops) > 2:
            out.append(ob("bloom.bitops", key, fn["pat"], "unrecognised", "expected one loop over the bytes (or a store loop followed by a count loop), found %d" % len(loops), fn["qname"]))
            continue
        op = want[fn["name"]]
        for ln, L in enumerate(loops):
            jumps = []
            walk(L.get("b"), lambda n: jumps.append(n["k"]) if n.get("k") in ("Continue", "Break", "Return", "If", "Switch", "Cond", "For", "While", "Do", "RangeFor") else None)
            if jumps:
                problems.append("loop body contains %s: the per-byte work is skipped on some iterations" % "/".join(sorted(set(jumps))))
            iv = None
            if L.get("k") == "For" and isinstance(L.get("init"), dict) and L["init"].get("k") == "Decl" and len(L["init"].get("vars", [])) == 1:
                v0 = L["init"]["vars"][0]
                if txt(v0.get("init")) == "0" and "++" in txt(L.get("inc") or {}):
                    iv = v0.get("n")
            if iv is None:
                problems.append("loop does not run an index from 0 in steps of one")
                continue
            if txt(L.get("c"), sa).replace(" ", "") not in ("(%s<%s)" % (iv, LEN), "(%s>%s)" % (LEN, iv), "(%s!=%s)" % (iv, LEN), "(%s!=%s)" % (LEN, iv)):
                problems.append("loop bound is `%s`, not %s < %s" % (txt(L.get("c"), sa), iv, LEN))
            cell = "%s[%s]" % (T, iv)
            src = "%s[%s]" % (S, iv) if S else None
            for st in stmts_of(L["b"]):
                e = strip(st.get("e")) if st.get("k") == "Expr" else None
                if isinstance(e, dict) and e.get("k") == "Assign" and txt(e["l"], sa).replace(" ", "") == cell:
                    r = txt(e["r"], sa).replace(" ", "")
                    if op == "~":
                        good = e["op"] == "=" and r == "~" + cell
                    else:
                        good = (e["op"] == op + "=" and r == src) or (e["op"] == "=" and r in ("(%s%s%s)" % (cell, op, src), "(%s%s%s)" % (src, op, cell)))
                    events.append((ln, "store" if good else "badstore", txt(e), r if e["op"] == "=" else None))
                elif isinstance(e, dict) and e.get("k") == "Assign" and e["op"] == "+=" and strip_all(e["r"]).get("k") == "Call" and strip_all(e["r"]).get("cpat") in popc and len(strip_all(e["r"]).get("args", [])) == 1:
                    # a helper that returns the population count of its argument
                    events.append((ln, "count", txt(strip_all(e["r"])["args"][0], sa).replace(" ", ""), cell))
                elif isinstance(e, dict) and e.get("k") == "Assign" and e["op"] == "+=" and "count()" in txt(e["r"]):
                    # what the counted bitset was constructed from
                    o = strip(strip_all(e["r"]).get("obj")) if isinstance(strip_all(e["r"]), dict) else None
                    val = None
                    if isinstance(o, dict) and o.get("k") == "Ref" and o.get("d") in sa:
                        c0 = sa[o["d"]]
                        if isinstance(c0, dict) and c0.get("k") == "Construct" and len(c0.get("args", [])) == 1:
                            val = txt(c0["args"][0], sa).replace(" ", "")
                    elif isinstance(o, dict) and o.get("k") == "Construct" and len(o.get("args", [])) == 1:
                        val = txt(o["args"][0], sa).replace(" ", "")
                    events.append((ln, "count", val, cell))
                elif isinstance(e, dict) and e.get("k") == "Assign":
                    lt = txt(e["l"], sa)
                    if T in lt or (S and S in lt):
                        events.append((ln, "badstore", txt(e), None))
        stores = [x for x in events if x[1] == "store"]
        bad = [x for x in events if x[1] == "badstore"]
        counts = [x for x in events if x[1] == "count"]
        if bad:
            problems.append("unexpected write `%s`" % bad[0][2])
        if len(stores) != 1:
            problems.append("no single `%s[i] %s ...` over the source byte found" % (T, (op + "=") if op != "~" else "= ~"))
        if len(counts) != 1:
            problems.append("count is not accumulated exactly once at the top level of a loop body")
        if len(stores) == 1 and len(counts) == 1 and not bad:
            st, ct = stores[0], counts[0]
            if (ct[0], events.index(ct)) < (st[0], events.index(st)):
                problems.append("bits are counted before the operation is applied (count of the old value)")
            elif ct[2] is None or not (ct[2] == ct[3] or (st[3] is not None and ct[2] == st[3] and ct[0] == st[0])):
                problems.append("the counted byte is `%s`, not the result byte %s" % (ct[2], ct[3]))
            if len(loops) == 2 and (st[0] != 0 or ct[0] != 1):
                problems.append("two loops that are not a store loop followed by a count loop")
        elif len(loops) == 2 and not problems:
            problems.append("two loops that are not a store loop followed by a count loop")
        if problems:
            out.append(ob("bloom.bitops", key, fn["pat"], "violated", "; ".join(problems), fn["qname"]))
        else:
            out.append(ob("bloom.bitops", key, fn["pat"], "discharged", "every byte is combined with `%s` and the count accumulates the result byte on every iteration" % op, fn["qname"]))
    return out


def overload_siblings(facts):
    """update(T), query(T) and query_and_update(T) canonicalise and hash their argument identically"""
    fns, bf = bloom_fns(facts)
    bf = {p: f for p, f in fns.items() if f.get("rect") == REC}     # the thin public overloads as written (no helper seen through)
    out = []
    fam = {}
    for pat, fn in bf.items():
        if fn["name"] in ("update", "query", "query_and_update") and fn["params"]:
            fam.setdefault(tuple(p["t"] for p in fn["params"]), {})[fn["name"]] = fn

    def norm(fn):
        parts = []
        for s in stmts_of(fn["body"]):
            t = txt(s.get("e")) if s.get("k") in ("Expr", "Return") else None
            if s.get("k") == "Decl":
                t = ";".join("%s=%s" % (v.get("n"), txt(v.get("init"))) for v in s.get("vars", []))
            if s.get("k") == "If":
                t = "if(%s){%s}else{%s}" % (txt(s["c"]), ";".join(txt(x.get("e")) for x in stmts_of(s.get("t"))), ";".join(txt(x.get("e")) for x in stmts_of(s.get("e"))))
            t = t or s.get("k")
            for a in ("internal_query_and_update", "internal_update", "internal_query", "query_and_update", "update", "query"):
                t = t.replace(a + "(", "OP(")
            parts.append(t)
        # the early `return` on an empty string / null differs in value only: normalise `return false` / `return`
        return [p.replace("Return", "return") for p in parts]
    for sig, d in sorted(fam.items()):
        if "update" not in d:
            continue
        ref = norm(d["update"])
        for name in ("query", "query_and_update"):
            if name not in d:
                continue
            key = "bloom_filter_alloc::%s(%s):canonicalisation" % (name, ",".join(sig))
            got = norm(d[name])
            # drop statements that only differ by being the empty-input early return
            a = [x for x in ref if not x.startswith("if(") or "OP(" in x]
            b = [x for x in got if not x.startswith("if(") or "OP(" in x]
            ia = [x for x in ref if x.startswith("if(") and "OP(" not in x]
            ib = [x for x in got if x.startswith("if(") and "OP(" not in x]
            ia = [x.split("{")[0] for x in ia]
            ib = [x.split("{")[0] for x in ib]
            if a == b and ia == ib:
                out.append(ob("bloom.siblings", key, d[name]["pat"], "discharged", "same conversion / canonicalisation / hashing steps as update(%s)" % ",".join(sig), d[name]["qname"]))
            else:
                diff = [(x, y) for x, y in zip(a + ia, b + ib) if x != y][:1] or [("(%d steps)" % len(a + ia), "(%d steps)" % len(b + ib))]
                out.append(ob("bloom.siblings", key, d[name]["pat"], "violated", "%s(%s) prepares its argument differently from update(%s): `%s` vs `%s`: an inserted item is hashed to different bytes when queried" % (name, ",".join(sig), ",".join(sig), diff[0][1][:120], diff[0][0][:120]), d[name]["qname"]))
    return out


def extent_units(facts):
    """the bit array holds capacity_bits_ bits = capacity_bits_ >> 3 bytes: every length that travels with the array pointer (fill,
    copy, count, bitwise combine, write, allocate / deallocate) is exactly that byte count.  A count in another unit (>> 6 = longs)
    clears, copies or counts only part of the array."""
    from astu import single_assignment_locals
    fns, bf = bloom_fns(facts)
    out = []
    n_sites = 0
    WANT = "(capacity_bits_>>3)"
    for pat, fn in sorted(bf.items()):
        if fn.get("body") is None:
            continue
        sa = single_assignment_locals(fn)
        idx = [0]

        def v(n):
            nonlocal n_sites
            if n.get("k") != "Call" or n.get("cname") not in ("fill", "fill_n", "copy_n", "memcpy", "memset", "write", "copy_to_mem", "union_with", "intersect", "invert", "count_num_bits_set", "deallocate"):
                return
            args = n.get("args", [])
            ts = [txt(a, sa).replace(" ", "") for a in args]
            ptrs = [i for i, t in enumerate(ts) if t in ("bit_array_", "other.bit_array_")]
            if not ptrs:
                return
            # the length argument: the integer-typed argument(s)
            lens = [t for a, t in zip(args, ts) if (strip(a).get("t") or "").replace("const ", "") in ("unsigned long", "unsigned int", "long", "int", "unsigned long long") and t not in ("0",)]
            key = "bloom_filter_alloc::%s:%s#%d" % (fn["name"], n["cname"], idx[0])
            idx[0] += 1
            n_sites += 1
            if lens and all(t == WANT for t in lens):
                out.append(ob("bloom.extent", key, n.get("loc", fn["pat"]), "discharged", "%s over capacity_bits_ >> 3 bytes" % n["cname"], fn["qname"]))
            elif not lens:
                out.append(ob("bloom.extent", key, n.get("loc", fn["pat"]), "unrecognised", "no length argument recognised in `%s`" % txt(n)[:80], fn["qname"]))
            else:
                out.append(ob("bloom.extent", key, n.get("loc", fn["pat"]), "violated", "`%s` covers %s of the bit array, not its capacity_bits_ >> 3 bytes: the rest of the array is left as it was (stale bits reappear after reset / are not counted / not combined)" % (txt(n)[:90], lens), fn["qname"]))
        walk(fn["body"], v)
    if n_sites < 8:
        out.append(ob("bloom.extent", "anchor", "", "unrecognised", "only %d bit-array extents found" % n_sites, ""))
    return out


def recount_before_writes(facts):
    """a function that sets bits one by one and keeps the cached count by adding what it set must take the recount of a stale
    cache (get_bits_used()) BEFORE the first bit is written: a recount taken afterwards already contains the new bits, and adding
    them again reports more set bits than the array holds."""
    from triggers import _loc_key
    fns, bf = bloom_fns(facts)
    out = []
    WRITERS = ("get_and_set_bit", "set_bit", "assign_bit")
    PUBS = publishers(fns)
    for pat, fn in sorted(bf.items()):
        if fn.get("body") is None:
            continue
        writes, recounts, adjusts = [], [], []

        def v(n):
            if n.get("k") == "Call" and n.get("cname") in WRITERS:
                writes.append(n)
            if n.get("k") == "Call" and n.get("cname") == "get_bits_used" and (n.get("obj") is None or strip(n["obj"]).get("k") == "This"):
                recounts.append(n)
            if n.get("k") == "Call" and n.get("cname") in PUBS:
                adjusts.append(n)
            if n.get("k") in ("Assign", "Un") and is_this_field(n.get("l") or n.get("e") or {}, ("num_bits_set_",)) and (n.get("op") in ("+=", "++")):
                adjusts.append(n)
        walk(fn["body"], v)
        if not (writes and adjusts):
            continue
        key = "bloom_filter_alloc::%s:recount-precedes-bit-writes" % fn["name"]
        first_w = min(_loc_key(w) for w in writes)
        late = [r for r in recounts if _loc_key(r) > first_w]
        if late:
            out.append(ob("bloom.recount", key, late[0].get("loc", fn["pat"]), "violated", "get_bits_used() (the recount of a stale cached count) is evaluated after bits have been written in this function, and the count is then adjusted by the number of new bits: on a stale cache the recount already contains them, so they are counted twice (bits used > bits set)", fn["qname"]))
        elif recounts:
            out.append(ob("bloom.recount", key, fn["pat"], "discharged", "the recount precedes the first bit write; the count is then adjusted incrementally", fn["qname"]))
        else:
            out.append(ob("bloom.recount", key, fn["pat"], "info", "no recount in this function (covered by the stale-count rule)", fn["qname"]))
    return out
