"""C11 rule wrappers: A1 bounded cursor over byte-level readers; A2 stream discipline over stream readers."""
import a1_cursor
import a2_stream
from vlib.core import ob

READER_NAMES = ("deserialize", "deserialize_items", "deserialize_array", "deserialize_compat", "parse", "wrap", "writable_wrap",
                "newList", "newSet", "newHll", "internal_deserialize_or_wrap")
HELPERS = ("deserialize_items", "deserialize_array", "deserialize_compat")


def _fdicts(facts):
    return [facts.load(n) for n in facts.drivers if n != "bitpack"]


def short(q):
    return q.replace("datasketches::", "")


def a1_obligations(facts, exceptions):
    fd = _fdicts(facts)
    A = a1_cursor.Analyzer(fd)

    def run_all(entry):
        seen = set()
        A.obligations = []
        for f in fd:
            for fn in f["functions"]:
                if fn["name"] not in READER_NAMES or fn["ret"] == "void" or fn["pat"] in seen or fn.get("body") is None:
                    continue
                g0 = entry.get(fn["pat"], 0) if fn["name"] in HELPERS else 0
                if A.analyze_reader(fn, g0):
                    seen.add(fn["pat"])
        return seen
    run_all({})
    entry = dict(A.entry_req)
    armed = run_all(entry)
    # collapse per site: a site is violated if violated on any path
    rank = {"info": -1, "discharged": 0, "unrecognised": 1, "violated": 2}
    site = {}
    for o in A.obligations:
        kind = o["kind"]
        status = o["status"]
        if kind.startswith("unbounded-"):
            status = "info"   # taint clause not armed (DESIGN section 4 A2): information only
        k = (o["pat"], o["loc"], kind)
        cur = site.get(k)
        if cur is None or rank[status] > rank[cur[0]]:
            site[k] = (status, o)
    # stable keys: <function pattern qname>:<kind>:<ordinal in source order within the function>
    by_fn = {}
    for (pat, loc, kind), (status, o) in site.items():
        if status == "info" and kind in ("guard", "validator"):
            continue
        by_fn.setdefault((pat, kind), []).append((loc, status, o))

    def lockey(loc):
        p = loc.split(":")
        try:
            return (p[0], int(p[1]), int(p[2]) if len(p) > 2 else 0)
        except Exception:
            return (loc, 0, 0)
    out = []
    patq = {}
    for f in fd:
        for fn in f["functions"]:
            patq.setdefault(fn["pat"], short(fn["patq"]))
    for (pat, kind), lst in sorted(by_fn.items()):
        lst.sort(key=lambda x: lockey(x[0]))
        for i, (loc, status, o) in enumerate(lst):
            key = "%s:%s#%d" % (patq.get(pat, pat), kind, i)
            if status in ("violated", "unrecognised") and key in exceptions:
                out.append(ob("a1." + kind, key, loc, "info", "reviewed exception: " + exceptions[key], o["fn"]))
                continue
            out.append(ob("a1." + kind, key, loc, status, o["detail"][:400], o["fn"]))
    return out, sorted(patq.get(p, p) for p in armed)


def a2_obligations(facts):
    fd = _fdicts(facts)
    A = a2_stream.A2(fd)
    out = []
    seen = set()
    armed = []
    # helpers: stream readers that are called (with the stream) by another stream reader; a helper may return
    # without a final check if every caller checks afterwards - the caller's analysis uses the helper's summary.
    called = set()

    def visit(n, me):
        if isinstance(n, dict):
            if n.get("k") == "Call" and n.get("cpat") and n.get("cpat") != me and any("basic_istream" in (a.get("t") or "") for a in n.get("args", [])):
                called.add(n["cpat"])
            for v in n.values():
                visit(v, me)
        elif isinstance(n, list):
            for v in n:
                visit(v, me)
    for fn in A.fns:
        if A.is_stream_reader(fn) and fn.get("body") is not None:
            visit(fn["body"], fn["pat"])
    for fn in A.fns:
        if not A.is_stream_reader(fn) or fn["pat"] in seen or fn.get("body") is None:
            continue
        if fn["ret"] == "void" or fn["name"] in ("read", "read_big_endian"):
            continue
        if "ostream" in " ".join(p["t"] for p in fn["params"]):
            continue
        seen.add(fn["pat"])
        A.break_states = set()
        before = len(A.reports)
        outs = A.run(fn, fn["body"], frozenset([False]), report=True)
        reads = A._reads.get(fn["pat"], False)
        key = "%s:final-stream-check" % short(fn["patq"])
        armed.append(short(fn["patq"]))
        if not reads:
            out.append(ob("a2.final", key, fn["pat"], "discharged", "no stream read in this function (pure dispatcher)", fn["qname"]))
        elif True in outs and fn["pat"] in called and fn.get("access", 0) != 0 and False:
            pass
        elif True in outs and fn["pat"] in called:
            out.append(ob("a2.final", key, fn["pat"], "info", "helper returns after a read without its own stream test; its callers are analysed with that summary and must test the stream afterwards", fn["qname"]))
        elif True in outs:
            locs = sorted({r["loc"] for r in A.reports[before:]})
            out.append(ob("a2.final", key, (locs or [fn["pat"]])[0], "violated",
                          "a path returns the result after a stream read without testing the stream state (returns at %s): a stream that ends early yields a sketch built from garbage instead of an exception" % ", ".join(locs), fn["qname"]))
        else:
            out.append(ob("a2.final", key, fn["pat"], "discharged", "every normal return is preceded, after the last read, by a stream-state test that throws (or by a callee that guarantees it)", fn["qname"]))
    return out, armed
