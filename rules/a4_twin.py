"""A4.1 writer == writer: the stream writer and the byte writer of one type are twin programs modulo the write
primitive.  Shapes are extracted with a4_shape.Extractor, extended with:
  * single-assignment locals inlined regardless of constness;
  * other locals alpha-renamed by order of first use (L0, L1, ...), so the comparison is modulo local names;
  * assignments to locals whose value flows into written bytes or into conditions guarding writes are part of the shape
    (`Set` items), so "state that flows into the image is updated identically in both writers" is compared too.
A pair whose shapes differ on the current tree in a way the normaliser cannot relate is reported once as information
(`not comparable`), never guessed; pairs in the agreed list are armed: any difference is a violation."""
import a4_shape
from a4_shape import strip
from vlib.core import ob


class TNorm(a4_shape.Norm):
    def __init__(self, fn, inline, ren, used):
        super().__init__(fn, inline)
        self.ren = ren
        self.used = used
        self.X = None
        self.stack = []

    def key(self, e, depth=0):
        # helper values are inlined to a fixpoint (bounded by the nesting of helpers, not by how many named locals lie in between:
        # both twins must come out the same however many intermediate helpers / locals one of them uses)
        if isinstance(e, dict) and e.get("k") == "Call" and e.get("member") and len(self.stack) < 8 and self.X is not None:
            obj = strip(e.get("obj")) if e.get("obj") else None
            cal = self.X.by_pat.get(e.get("cpat"))
            if obj is not None and obj.get("k") == "This" and cal is not None and cal.get("body") and cal is not self.fn and cal.get("pat") not in self.stack:
                body = cal["body"].get("s", []) if cal["body"].get("k") == "Block" else []
                # a helper that only selects between return expressions by tests of constant arguments: pick the return
                if len(cal["params"]) == len(e.get("args", [])):
                    pidx = {p["d"]: i for i, p in enumerate(cal["params"])}

                    def cval(c):
                        c = strip(c)
                        if c.get("k") == "Un" and c.get("op") == "!":
                            v = cval(c["e"])
                            return None if v is None else (not v)
                        if c.get("k") == "Ref" and c.get("d") in pidx:
                            a = strip(e["args"][pidx[c["d"]]])
                            v = a.get("b") if a.get("k") == "Bool" else a.get("v")
                            return None if v is None else bool(v)
                        return None

                    def pick(stmts):
                        for st in stmts:
                            if st.get("k") == "Return":
                                return st
                            if st.get("k") == "Block":
                                r = pick(st.get("s", []))
                                if r is not None:
                                    return r
                                continue
                            if st.get("k") == "If":
                                v = cval(st["c"])
                                if v is None:
                                    return False
                                br = st.get("t") if v else st.get("e")
                                if br is not None:
                                    r = pick(br.get("s", []) if br.get("k") == "Block" else [br])
                                    if r is not None:
                                        return r
                                continue
                            return False
                        return None
                    r = pick(body)
                    if r:
                        body = [r]
                    elif r is False or r is None:
                        # general value form: declarations of single-assignment locals, `if (c) return a;` chains and a final
                        # return read as one conditional expression (constant tests of the arguments pick their arm)
                        linl = {}

                        def value(stmts):
                            for i, st in enumerate(stmts):
                                k = st.get("k")
                                if k == "Decl":
                                    for v in st.get("vars", []):
                                        if v.get("init") is None or "d" not in v:
                                            return None
                                        linl[v["d"]] = v["init"]
                                    continue
                                if k == "Block":
                                    return value(list(st.get("s", [])) + list(stmts[i + 1:]))
                                if k == "Return":
                                    return st.get("e")
                                if k == "If":
                                    tb = st.get("t")
                                    tv = value(tb.get("s", []) if isinstance(tb, dict) and tb.get("k") == "Block" else [tb])
                                    eb = st.get("e")
                                    rest = (list(eb.get("s", [])) if isinstance(eb, dict) and eb.get("k") == "Block" else ([eb] if eb is not None else [])) + list(stmts[i + 1:])
                                    ev = value(rest)
                                    if tv is None or ev is None:
                                        return None
                                    cv = cval(st["c"])
                                    if cv is True:
                                        return tv
                                    if cv is False:
                                        return ev
                                    return {"k": "Cond", "c": st["c"], "a": tv, "e": ev, "t": cal.get("ret")}
                                return None
                            return None
                        val = value(body)
                        if val is not None:
                            saved = self.inline
                            self.inline = dict(saved)
                            self.inline.update(linl)
                            for p, a in zip(cal["params"], e["args"]):
                                self.inline[p["d"]] = a
                            self.stack.append(cal.get("pat"))
                            try:
                                return self.key(val, 0)
                            finally:
                                self.inline = saved
                                self.stack.pop()
                if len(body) == 1 and body[0].get("k") == "Return" and body[0].get("e") is not None and len(cal["params"]) == len(e.get("args", [])):
                    saved = self.inline
                    self.inline = dict(saved)
                    for p, a in zip(cal["params"], e["args"]):
                        self.inline[p["d"]] = a
                    self.stack.append(cal.get("pat"))
                    try:
                        return self.key(body[0]["e"], 0)
                    finally:
                        self.inline = saved
                        self.stack.pop()
        if isinstance(e, dict) and e.get("k") == "Ref" and e.get("dk") == "param" and e["d"] in self.inline and depth < 6:
            return self.key(self.inline[e["d"]], depth + 1)
        if isinstance(e, dict) and e.get("k") == "Ref" and e.get("dk") == "local" and not (e["d"] in self.inline and depth < 6):
            self.used.add(e["d"])
            if e["d"] not in self.ren:
                self.ren[e["d"]] = "L%d" % len(self.ren)
            return self.ren[e["d"]]
        return super().key(e, depth)


class TExtractor(a4_shape.Extractor):
    def collect_inline(self, fn):
        decls, assigned, addr = {}, {}, set()

        def visit(s):
            if isinstance(s, dict):
                if s.get("k") == "Decl":
                    for v in s["vars"]:
                        if "n" in v and v.get("init") is not None:
                            decls[v["d"]] = v["init"]
                if s.get("k") == "Assign":
                    t = strip(s["l"])
                    if t.get("k") == "Ref":
                        assigned[t["d"]] = assigned.get(t["d"], 0) + 1
                if s.get("k") == "Un" and s.get("op") in ("++", "--", "&"):
                    t = strip(s["e"])
                    if t.get("k") == "Ref":
                        assigned[t["d"]] = assigned.get(t["d"], 0) + 1
                for v in s.values():
                    visit(v)
            elif isinstance(s, list):
                for v in s:
                    visit(v)
        visit(fn["body"])
        return {d: e for d, e in decls.items() if d not in assigned}

    def shape_fn(self, fn, mode, track=None):
        inline = self.collect_inline(fn)
        ren, used = {}, set()
        N = TNorm(fn, inline, ren, used)
        N.X = self
        self.track = track
        items = self.block(fn, fn["body"], mode, N)
        self.last_used = used
        return items

    def expr(self, fn, e, mode, N):
        if isinstance(e, dict) and e.get("k") == "Assign" and mode == "wb":
            l0 = strip(e["l"])
            if l0.get("k") == "Index":
                bt = (strip(l0["b"]).get("t") or "")
                if "unsigned char" not in bt:
                    return self.expr(fn, e["r"], mode, N)   # store into a scratch array, not into the image
        if isinstance(e, dict) and e.get("k") == "Call" and mode == "ws" and e.get("member") and e.get("cname", "").startswith("serialize") and e.get("cname") != "serialize":
            if e.get("args") and self.is_stream(e["args"][0]) and (e.get("callee") or "").startswith("datasketches::"):
                return [("Nested", (e.get("crec") or e.get("callee")).split("<")[0])]
        if isinstance(e, dict) and e.get("k") == "Call" and mode == "wb":
            if e.get("cname", "").startswith("serialize") and (e.get("t") or "").startswith("std::vector<unsigned char") and (e.get("callee") or "").startswith("datasketches::"):
                return [("Nested", (e.get("crec") or e.get("callee")).split("<")[0])]
            if e.get("callee") == "datasketches::copy_to_mem" and len(e.get("args", [])) == 3:
                src = strip(e["args"][0])
                if src.get("k") == "Call" and src.get("cname") == "data" and src.get("obj"):
                    o = strip(src["obj"])
                    ini = N.inline.get(o.get("d")) if o.get("k") == "Ref" else None
                    ini = strip(ini) if isinstance(ini, dict) else None
                    while isinstance(ini, dict) and ini.get("k") == "Construct" and len(ini.get("args", [])) == 1:
                        ini = strip(ini["args"][0])
                    if isinstance(ini, dict) and ini.get("k") == "Call" and ini.get("cname", "").startswith("serialize") and (ini.get("callee") or "").startswith("datasketches::"):
                        return [("Skip",)]   # copy of a nested image: the Nested item was produced where the local was initialised
        if isinstance(e, dict) and e.get("k") == "Assign" and self.track is not None:
            l = strip(e["l"])
            if l.get("k") == "Ref" and l.get("dk") == "local" and l["d"] in self.track and not (l.get("t") or "").endswith("*"):
                inner = super().expr(fn, e["r"], mode, N)
                return inner + [("Set", N.key(l), e["op"], N.key(e["r"]))]
        return super().expr(fn, e, mode, N)

    def block(self, fn, s, mode, N):
        # declarations of tracked (multiply-assigned) locals with an initialiser are Set items too
        if s is not None and s.get("k") == "Decl" and self.track is not None:
            r = []
            for v in s["vars"]:
                if v.get("init") is not None:
                    r.extend(self.expr(fn, v["init"], mode, N))
                    if v.get("d") in self.track and not v["t"].endswith("*") and v["d"] not in N.inline:
                        r.append(("Set", N.key({"k": "Ref", "dk": "local", "d": v["d"], "n": v["n"]}), "=", N.key(v["init"])))
            return r
        return super().block(fn, s, mode, N)


WRITER_NAMES = ("serialize", "serialize_compact", "serialize_updatable", "serialize_version_4", "serialize_compressed")


def writer_pairs(X):
    groups = {}
    for fn in X.fns:
        if fn["name"] not in WRITER_NAMES or fn.get("rect") is None or fn.get("body") is None:
            continue
        pts = [p["t"] for p in fn["params"]]
        mode = None
        if pts and "basic_ostream" in pts[0]:
            mode = "ws"
        elif fn["ret"].startswith("std::vector<unsigned char") or (pts and pts[0].endswith("*") and fn["ret"] in ("unsigned long", "void")):
            mode = "wb"
        if mode is None:
            continue
        groups.setdefault((fn["rect"], fn["name"]), {}).setdefault(mode, fn)
    return groups


def drop_skip(items):
    out = []
    for it in items:
        if it[0] == "Skip":
            continue
        if it[0] == "If":
            out.append(("If", it[1], drop_skip(it[2]), drop_skip(it[3])))
        elif it[0] in ("Loop", "Switch"):
            out.append((it[0], it[1], drop_skip(it[2])))
        else:
            out.append(it)
    return out


def shapes(X, g):
    res = {}
    import astu
    g = {m: astu.inline_value_decls(f, X.by_pat) for m, f in g.items()}      # flag-assembling helpers read as the statements they hold
    for mode in ("ws", "wb"):
        X.shape_fn(g[mode], mode, track=None)
        used = set(X.last_used)
        res[mode] = a4_shape.canon(drop_skip(X.shape_fn(g[mode], mode, track=used)))
    return res


def obligations(facts, armed):
    fd = [facts.load(n) for n in facts.drivers if n != "bitpack"]
    X = TExtractor(fd)
    out = []
    for (rec, name), g in sorted(writer_pairs(X).items()):
        if "ws" not in g or "wb" not in g:
            continue
        k = "%s::%s" % (rec.replace("datasketches::", ""), name)
        sh = shapes(X, g)
        d = a4_shape.diff(sh["ws"], sh["wb"])
        if not d:
            out.append(ob("writer-twin", k, g["wb"]["pat"], "discharged", "stream writer and byte writer emit the same fields, widths, order, conditions and state updates (%d shape items)" % len(sh["ws"]), g["wb"]["qname"]))
        elif k in armed:
            out.append(ob("writer-twin", k, g["wb"]["pat"], "violated", "stream writer (%s) and byte writer (%s) disagree: %s" % (g["ws"]["pat"], g["wb"]["pat"], "; ".join(x[:200] for x in d[:3])), g["wb"]["qname"]))
        else:
            out.append(ob("writer-twin", k, g["wb"]["pat"], "info", "pair not comparable by the normaliser (not armed): %s" % d[0][:160], g["wb"]["qname"]))
    return out
