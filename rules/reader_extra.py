"""C11 extras: (1) items constructed by a serde call into a raw buffer owned by a unique_ptr are registered with its deleter
before anything else that can throw runs (otherwise a rejected image leaks the items already built);
(2) serde<std::string>::deserialize(bytes): each read through the cursor is preceded, in the same iteration, by the
`bytes_read + <size of that read> > capacity` test that leaves the loop."""
from astu import C, ctxt, gt_pair, eq_const, reach, reach_txt, ctext, strip, strip_all, walk, walkp, txt, short, stmts_of, functions_by, local_decls, always_throws
from vlib.core import ob


def all_blocks(n, out):
    if isinstance(n, dict):
        if n.get("k") == "Block":
            out.append(n)
        for v in n.values():
            all_blocks(v, out)
    elif isinstance(n, list):
        for v in n:
            all_blocks(v, out)
    return out


def refs_in(n):
    out = []
    walk(n, lambda x: out.append(x) if x.get("k") == "Ref" else None)
    return out


def may_throw(s):
    hit = [False]

    def v(n):
        if n.get("k") == "Throw":
            hit[0] = True
        if n.get("k") == "Call":
            c = n.get("callee") or ""
            nm = n.get("cname") or ""
            # only input-dependent rejections count (allocation failure is not a property of the image)
            if nm in ("deserialize", "read", "read_big_endian", "ensure_minimum_memory", "check_memory_size") or nm.startswith("check"):
                hit[0] = True
    walk(s, v)
    return hit[0]


def registration_order(facts):
    fns = functions_by(facts)
    out = []
    for pat, fn in sorted(fns.items()):
        if not fn["name"].startswith("deserialize"):
            continue
        idx = [0]
        for b in all_blocks(fn["body"], []):
            st = stmts_of(b)
            for i, s in enumerate(st):
                if s.get("k") not in ("Expr", "Decl"):
                    continue  # nested statements are visited with their own block
                calls = []
                walk(s, lambda n: calls.append(n) if n.get("k") == "Call" and n.get("cname") == "deserialize" and len(n.get("args", [])) >= 3 else None)
                for c in calls:
                    # destination argument derived from `<owner>.get()`
                    dest = c["args"][-2]
                    owner = []
                    walk(dest, lambda n: owner.append(txt(n["obj"])) if n.get("k") == "Call" and n.get("cname") == "get" and n.get("obj") is not None and "unique_ptr" in (strip(n["obj"]).get("t") or "") else None)
                    if not owner:
                        continue
                    kind = "bytes" if fn["params"] and fn["params"][0]["t"].startswith("const void") else "stream"
                    key = "%s(%s):register-after-serde#%d" % (short(fn["patq"]), kind, idx[0])
                    idx[0] += 1
                    ok, blocker = False, None
                    for nxt in st[i + 1:]:
                        t = txt(nxt.get("e")) if nxt.get("k") == "Expr" else ""
                        whole = []
                        walk(nxt, lambda n: whole.append(txt(n)) if n.get("k") == "Call" else None)
                        if t.startswith("%s.get_deleter()." % owner[0]):
                            ok = True  # deleter told to destroy the items
                            break
                        if any(w.startswith("%s.release()" % owner[0]) for w in whole):
                            ok = True  # repackaged into an owner whose deleter destroys the items
                            break
                        dtor = []
                        walk(nxt, lambda n: dtor.append(n) if (n.get("k") == "PseudoDtor" or (n.get("k") == "Call" and (n.get("cname") or "").startswith("~"))) else None)
                        if dtor and nxt.get("k") == "Expr" and owner[0] in [x.get("n") for x in refs_in(nxt)]:
                            ok = True  # destroyed in place
                            break
                        if may_throw(nxt) or nxt.get("k") in ("Return", "If", "For", "While", "RangeFor"):
                            blocker = nxt
                            break
                    if ok:
                        out.append(ob("reader.registration", key, c["loc"], "discharged", "items built into `%s` are registered with its deleter before any other throwing call" % owner[0], fn["qname"]))
                    else:
                        out.append(ob("reader.registration", key, (blocker or c).get("loc", c["loc"]), "violated", "after items were constructed into `%s`, `%s` can throw before they are registered with the deleter: a truncated / corrupted image is rejected but the items already built are never destroyed (leak)" % (owner[0], (txt(blocker.get("e")) if blocker is not None and blocker.get("k") == "Expr" else (blocker or {}).get("k", "end of block"))[:80]), fn["qname"]))
    return out


def serde_string_guard(facts):
    fns = functions_by(facts)
    out = []
    for pat, fn in sorted(fns.items()):
        if not (fn["qname"].startswith("datasketches::serde<std::basic_string") and fn["name"] == "deserialize" and fn["params"] and fn["params"][0]["t"].startswith("const void")):
            continue
        loops = []
        walk(fn["body"], lambda n: loops.append(n) if n.get("k") == "For" else None)
        key0 = "serde<string>::deserialize(bytes)"
        if not loops:
            out.append(ob("reader.serde-string", key0 + ":loop", fn["pat"], "unrecognised", "item loop not found", fn["qname"]))
            continue
        st = stmts_of(loops[0]["b"])
        reads = []
        for i, s in enumerate(st):
            def v(n):
                if n.get("k") == "Call" and n.get("cname") == "memcpy" and len(n.get("args", [])) == 3 and txt(n["args"][1]) == "ptr":
                    reads.append((i, txt(n["args"][2]), "memcpy of the length", n))
                if n.get("k") == "New" and n.get("placement") is not None and "basic_string" in (n.get("of") or ""):
                    ini = strip_all(n.get("init") or {})
                    args = ini.get("args", []) if ini.get("k") == "Construct" else []
                    if len(args) >= 2:
                        reads.append((i, txt(args[1]), "construction of the string from the buffer", n))
            walk(s, v)
        for j, (i, size, what, node) in enumerate(reads):
            key = "%s:guarded-read#%d" % (key0, j)
            ok = False
            for s in st[:i]:
                if s.get("k") != "If":
                    continue
                c = txt(s["c"]).replace(" ", "")
                leaves = [False]
                walk(s["t"], lambda n: leaves.__setitem__(0, True) if n.get("k") in ("Break", "Return", "Throw") else None)
                names = {x.get("n") for x in refs_in(s["c"])}
                if leaves[0] and {"bytes_read", "capacity"} <= names and size.replace(" ", "") in c:
                    ok = True
            # bytes_read must be advanced by the same size after the read (parallel counter)
            if ok:
                out.append(ob("reader.serde-string", key, node.get("loc", fn["pat"]), "discharged", "%s (%s bytes) is preceded by `bytes_read + %s > capacity -> leave`" % (what, size, size), fn["qname"]))
            else:
                out.append(ob("reader.serde-string", key, node.get("loc", fn["pat"]), "violated", "%s reads %s bytes through the cursor without a preceding `bytes_read + %s > capacity` test in the same iteration: a buffer that ends inside this item is read past its end before the image is rejected" % (what, size, size), fn["qname"]))
        if not reads:
            out.append(ob("reader.serde-string", key0 + ":reads", fn["pat"], "unrecognised", "no reads through the cursor recognised", fn["qname"]))
    return out


def narrow_image_arith(facts):
    """readers: a 32-bit field taken from the image (read<uint32_t>(is), copy_from_mem(ptr, x)) that is shifted left or multiplied
    in 32 bits and only then widened to 64 bits loses its high bits for large - valid - images (bloom filters above 2^32 bits);
    the widening has to happen before the arithmetic.  Values of 8/16 bits promote to int and cannot wrap for the constants
    used; they are not in scope."""
    fns = functions_by(facts)
    out = []
    n_locals = 0
    for pat, fn in sorted(fns.items()):
        if not (fn["name"].startswith(("deserialize", "wrap", "writable_wrap", "internal_deserialize")) or fn["name"] in ("newList", "newSet", "newHll")):
            continue
        img = {}

        def dv(n):
            if n.get("k") == "Decl":
                for v in n.get("vars", []):
                    if (v.get("t") or "").replace("const ", "") in ("unsigned int", "int") and v.get("init") is not None:
                        c = []
                        walk(v["init"], lambda x: c.append(x) if x.get("k") == "Call" and x.get("cname") in ("read", "read_big_endian") else None)
                        if c and strip_all(v["init"]).get("k") == "Call":
                            img[v["d"]] = v["n"]
            if n.get("k") == "Call" and n.get("cname") in ("copy_from_mem", "memcpy"):
                for a in n.get("args", []):
                    a = strip_all(a)
                    r = strip_all(a["e"]) if a.get("k") == "Un" and a.get("op") == "&" else a
                    if r.get("k") == "Ref" and r.get("dk") == "local" and (r.get("t") or "").replace("const ", "") in ("unsigned int", "int"):
                        img[r["d"]] = r["n"]
        walk(fn["body"], dv)
        n_locals += len(img)
        idx = [0]

        def v(x):
            if x.get("k") == "Cast" and x.get("impl") and x.get("ck") == "IntegralCast" and x.get("sz") == 8:
                e = x.get("e") or {}
                while e.get("k") == "Paren":
                    e = e.get("e") or {}
                if e.get("k") == "Bin" and e.get("op") in ("<<", "*") and e.get("sz") == 4:
                    used = []
                    walk(e, lambda y: used.append(y) if y.get("k") == "Ref" and y.get("d") in img else None)
                    if used:
                        key = "%s:%s-widened-after-arith#%d" % (short(fn["patq"]), used[0]["n"], idx[0])
                        idx[0] += 1
                        out.append(ob("reader.narrow-arith", key, x["loc"], "violated", "`%s` is computed in 32 bits from the image field `%s` and only then converted to %s: for images whose field exceeds 2^%d the high bits are lost before the widening (restored capacity / size wraps)" % (txt(e), used[0]["n"], x.get("t"), 32 - (int(strip_all(e["r"]).get("v", 0)) if e["op"] == "<<" and "v" in strip_all(e["r"]) else 1)), fn["qname"]))
        walk(fn["body"], v)
    out.append(ob("reader.narrow-arith", "all:image-fields-scanned", "", "discharged" if n_locals >= 20 else "unrecognised", "%d 32-bit image fields in readers scanned for 32-bit shift/multiply widened afterwards" % n_locals, ""))
    return out


def decoder_bounds(facts):
    """CPC decompression: (1) the bit reader takes the next compressed word only after comparing the word index with the number of
    words it was given (checking after the loop is too late: the read already happened); (2) a row index obtained from decoded
    pairs is compared with k before it indexes the window.  With these two, an image whose preamble disagrees with its payload
    (lg_k, coupon counts changed) is rejected without touching memory outside the buffers."""
    fns = functions_by(facts, ["cpc"])
    out = []
    found = 0
    for pat, fn in sorted(fns.items()):
        if fn.get("body") is None or "cpc_compressor" not in fn["pat"]:
            continue
        params = {p["d"]: p for p in fn["params"]}
        # (1) reads of a const uint32_t* parameter at an index parameter
        reads = []

        def v(n, ps):
            if n.get("k") == "Index":
                b, i = strip_all(n["b"]), strip_all(n["i"])
                if b.get("k") == "Ref" and b.get("d") in params and params[b["d"]]["t"].startswith("const unsigned int *"):
                    ir = []
                    walk(i, lambda x: ir.append(x) if x.get("k") == "Ref" and x.get("d") in params else None)
                    if ir:
                        reads.append((n, ir[0], ps))
        walkp(fn["body"], v)
        for j, (n, ir, ps) in enumerate(reads):
            found += 1
            key = "%s:word-read#%d:index-checked-first" % (short(fn["patq"]) or fn["name"], j)
            # a throwing guard mentioning the index and another integer parameter, earlier in an enclosing block
            ok = False
            for p in ps:
                if p.get("k") == "Block":
                    for s in stmts_of(p):
                        if s.get("loc") and n.get("loc") and s is not None:
                            pass
                        if s.get("k") == "If" and always_throws(s.get("t")):
                            refs = set()
                            walk(s["c"], lambda x: refs.add(x.get("d")) if x.get("k") == "Ref" else None)
                            others = [d for d in refs if d in params and d != ir["d"] and "int" in params[d]["t"]]
                            if ir["d"] in refs and others:
                                ok = True
            out.append(ob("reader.decoder-bounds", key, n["loc"], "discharged" if ok else "violated", "the word index is compared with the number of compressed words (throwing) before the word is read" if ok else "`%s` is read without first comparing the index with the number of words available: an image whose preamble promises more symbols than its payload holds is read past the end of the compressed buffer (the length test after the loop comes too late)" % txt(n), fn["qname"]))
        # (2) window indexed by a decoded row
        if fn["name"].startswith("uncompress_"):
            idx = []

            def w(n, ps):
                if n.get("k") in ("Index", "OpCall") and "window" in txt(n) and n.get("k") == "OpCall" and n.get("op") == "[]":
                    i = strip_all(n["args"][1])
                    if i.get("k") == "Ref" and i.get("dk") == "local":
                        idx.append((n, i, ps))
            walkp(fn["body"], w)
            decls = local_decls(fn)
            for j, (n, i, ps) in enumerate(idx):
                ini = decls.get(i["d"], {}).get("init")
                if ini is None or ">>" not in txt(ini):
                    continue  # not a row extracted from a decoded pair
                found += 1
                ok = False
                for p in ps:
                    if p.get("k") == "Block":
                        for s in stmts_of(p):
                            if s.get("k") == "If" and always_throws(s.get("t")):
                                # some ordering comparison rejects when the row is the greater side (row >= k, k <= row, ...)
                                def rej(x):
                                    g = gt_pair(x) if x.get("k") == "Bin" else None
                                    if g:
                                        refs = set()
                                        walk(g[0], lambda y: refs.add(y.get("d")) if y.get("k") == "Ref" else None)
                                        if i["d"] in refs:
                                            hit.append(x)
                                hit = []
                                walk(s["c"], rej)
                                if hit:
                                    ok = True
                out.append(ob("reader.decoder-bounds", "%s:window-row#%d:bounded" % (short(fn["patq"]), j), n["loc"], "discharged" if ok else "violated", "the decoded row is compared with k before it indexes the window" if ok else "`%s` is indexed by a row taken from decoded pairs without a bound check: with an lg_k byte smaller than the one the image was written with, rows reach beyond the k-byte window (heap write)" % txt(n)[:40], fn["qname"]))
    if found < 2:
        out.append(ob("reader.decoder-bounds", "anchor", "", "unrecognised", "only %d decoder read sites recognised" % found, ""))
    return out
