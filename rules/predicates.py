"""State predicates (is_empty / isEmpty): the set of fields a class's emptiness predicate depends on (through its own methods,
transitively) was read off the reviewed tree and frozen in spec/predicates.json.  A predicate that stops consulting one of those
fields decides emptiness on less state than the class maintains (HLL: numAtCurMin == k without curMin == 0 also holds when every
register reached the same non-zero value; frequent items: no active item does not mean no weight was seen).  Reading additional
fields is fine."""
import collections
import json
import os
from astu import C, ctxt, gt_pair, eq_const, reach, reach_txt, ctext, strip, strip_all, walk, short, functions_by
from vlib.core import ob, VERIF

NAMES = ("is_empty", "isEmpty")


def support(facts):
    fns = functions_by(facts)
    byrec = collections.defaultdict(list)
    for p, fn in fns.items():
        if fn.get("rect"):
            byrec[fn["rect"]].append(fn)
    res = {}
    for rec, fl in byrec.items():
        preds = [f for f in fl if f["name"] in NAMES and f["kind"] == "method" and f.get("body") is not None and not f["params"]]
        for pf in preds:
            seen = set()

            def reads(fn, depth=0):
                R = set()

                def v(n):
                    if n.get("k") == "Member" and n.get("isfield") and strip_all(n.get("b") or {}).get("k") == "This":
                        R.add(n["f"])
                    if n.get("k") == "Call" and n.get("member") and depth < 3:
                        o = strip_all(n.get("obj") or {})
                        if o.get("k") == "This":
                            for g in fl:
                                if g["name"] == n.get("cname") and g["pat"] not in seen and g.get("body") is not None:
                                    seen.add(g["pat"])
                                    R.update(reads(g, depth + 1))
                        elif o.get("k") == "Member" and o.get("isfield") and strip_all(o.get("b") or {}).get("k") == "This":
                            R.add("%s.%s()" % (o["f"], n.get("cname")))
                walk(fn["body"], v)
                return R
            res["%s::%s" % (short(rec), pf["name"])] = {"fields": sorted(reads(pf)), "pat": pf["pat"], "qname": pf["qname"]}
    return res


def obligations(facts, records=None):
    sp = json.load(open(os.path.join(VERIF, "spec", "predicates.json")))["predicates"]
    cur = support(facts)
    out = []
    for key, want in sorted(sp.items()):
        if records is not None and key.split("::")[0] not in records:
            continue
        if key not in cur:
            out.append(ob("predicate.support", key + ":anchor", "", "unrecognised", "predicate %s no longer found" % key, ""))
            continue
        got = set(cur[key]["fields"])
        for f in want:
            k = "%s:depends-on-%s" % (key, f)
            if f in got:
                out.append(ob("predicate.support", k, cur[key]["pat"], "discharged", "consults %s" % f, cur[key]["qname"]))
            else:
                out.append(ob("predicate.support", k, cur[key]["pat"], "violated", "%s no longer consults `%s` (now: %s): emptiness is decided on less state than the class maintains, so a non-empty object can report empty (or the reverse)" % (key, f, ", ".join(sorted(got)) or "nothing"), cur[key]["qname"]))
    return out
