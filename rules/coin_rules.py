"""C08 coin dataflow (DESIGN.md section 4 A9): the parity that selects the survivors of a compaction flows from the fair
bit and nothing else; the number of coin draws does not depend on coin outcomes; survivors are taken with stride 2 from an
even-length run; merge combines error parameters with the right peers."""
import json
import re
from astu import C, ctxt, gt_pair, eq_const, reach, reach_txt, ctext, strip, strip_all, walk, walkp, txt, short, is_this_field, field_name, stmts_of, always_throws, functions_by, local_decls
from vlib.core import ob


_COIN_HELPERS = set()


def set_coin_helpers(fns):
    """parameterless helpers whose whole body is one unconditional draw of the fair bit that is returned (directly or through one
    named local): calling such a helper is a coin draw"""
    from astu import single_assignment_locals
    _COIN_HELPERS.clear()
    for p, f in fns.items():
        if f.get("params") or f.get("body") is None:
            continue
        st = stmts_of(f["body"])
        if not st or st[-1].get("k") != "Return" or st[-1].get("e") is None or any(x.get("k") not in ("Decl", "Return") for x in st):
            continue
        n = [0]
        walk(f["body"], lambda x: n.__setitem__(0, n[0] + 1) if is_coin_call(x) and x.get("k") == "OpCall" else None)
        if n[0] != 1:
            continue
        r = strip_all(st[-1]["e"])
        sa = single_assignment_locals(f)
        if r.get("k") == "Ref" and r.get("d") in sa:
            r = strip_all(sa[r["d"]])
        if is_coin_call(r):
            _COIN_HELPERS.add(p)


def is_coin_call(e):
    e = strip_all(e)
    if not isinstance(e, dict):
        return False
    if e.get("k") == "Call" and not e.get("args") and e.get("cpat") in _COIN_HELPERS:
        return True
    if e.get("k") == "OpCall" and e.get("op") == "()" and e.get("args"):
        a0 = strip_all(e["args"][0])
        return a0.get("k") == "Ref" and (a0.get("q") or "").endswith("random_utils::random_bit")
    return False


def coin_sources(facts):
    fns = functions_by(facts, ["kll", "req", "quantiles"])
    set_coin_helpers(fns)
    out = []
    # (i) local offsets in the KLL / classic halving primitives
    for pat, fn in sorted(fns.items()):
        if fn["name"] in ("randomly_halve_down", "randomly_halve_up", "zip_buffer"):
            base = short(fn["patq"])
            decls = local_decls(fn)
            offs = [v for v in decls.values() if v.get("init") is not None and is_coin_call(v["init"])]
            # the variable that starts the survivor index
            loops = []
            walk(fn["body"], lambda n: loops.append(n) if n.get("k") == "For" else None)
            key = base + ":survivor-parity"
            if not loops:
                out.append(ob("coin.source", key, fn["pat"], "unrecognised", "no survivor loop found", fn["qname"]))
                continue
            # find survivor cursor: variable incremented by 2 (+= 2 / -= 2)
            step2 = []
            walk(fn["body"], lambda n: step2.append(strip(n["l"])) if n.get("k") == "Assign" and n.get("op") in ("+=", "-=") and strip(n["r"]).get("v") == 2 and strip(n["l"]).get("k") == "Ref" else None)
            if not step2:
                out.append(ob("coin.stride", base + ":stride", fn["pat"], "violated", "no survivor cursor advancing by 2 found: survivors are not every other item", fn["qname"]))
                continue
            cur = step2[0]
            out.append(ob("coin.stride", base + ":stride", fn["pat"], "discharged", "survivor cursor `%s` advances by 2" % cur["n"], fn["qname"]))
            cinit = decls.get(cur["d"], {}).get("init")
            refs = []
            walk(cinit, lambda n: refs.append(n) if n.get("k") == "Ref" and n.get("dk") == "local" else None)
            coin_vars = {v["d"] for v in offs}
            uses_coin = any(r["d"] in coin_vars for r in refs) or is_coin_call(cinit)
            consts_only = not refs and not is_coin_call(cinit)
            if uses_coin:
                out.append(ob("coin.source", key, decls[cur["d"]]["loc"], "discharged", "survivor start `%s = %s` takes its parity from random_bit()" % (cur["n"], txt(cinit)), fn["qname"]))
            else:
                out.append(ob("coin.source", key, decls[cur["d"]]["loc"], "violated", "survivor start `%s = %s` does not depend on random_utils::random_bit() (%s): the surviving half is chosen deterministically, the rank estimator is biased" % (cur["n"], txt(cinit), "constant" if consts_only else "derived from data/counters"), fn["qname"]))
            # exactly one draw, unconditional
            draws = []
            walkp(fn["body"], lambda n, ps: draws.append((n, ps)) if is_coin_call(n) and n.get("k") in ("OpCall", "Call") else None)
            key2 = base + ":one-draw"
            cond = [p for n, ps in draws for p in ps if p.get("k") in ("If", "For", "While", "Do", "Cond", "RangeFor")]
            if len(draws) == 1 and not cond:
                out.append(ob("coin.count", key2, draws[0][0]["loc"], "discharged", "exactly one unconditional coin draw per halving", fn["qname"]))
            else:
                out.append(ob("coin.count", key2, fn["pat"], "violated", "%d coin draws, %d under control flow: the number of flips must be one per halving and independent of outcomes" % (len(draws), len(cond)), fn["qname"]))
            # even length check (KLL) dominates
            if fn["name"].startswith("randomly_halve"):
                st = stmts_of(fn["body"])
                ok = st and st[0].get("k") == "If" and "is_even" in txt(st[0]["c"]) and always_throws(st[0].get("t"))
                out.append(ob("coin.stride", base + ":even-length", fn["pat"], "discharged" if ok else "violated", "odd lengths are rejected before halving" if ok else "no `if (!is_even(length)) throw` first: an odd run loses or duplicates an item", fn["qname"]))
    # REQ: the coin field
    req = {p: f for p, f in fns.items() if f.get("rect") == "datasketches::req_compactor"}
    defs = []
    state_writers = []
    for pat, fn in sorted(req.items()):
        for i in fn.get("inits", []):
            if i.get("field") == "coin_" and i.get("written"):
                defs.append((fn, i["e"], "init", i["e"].get("loc", fn["pat"])))

        def v(n):
            if n.get("k") == "Assign" and is_this_field(n["l"], ("coin_",)):
                r = strip_all(n["r"])
                if r.get("k") == "Cond" and "coin_" not in txt(r["c"]):
                    # coin_ = c ? a : b defines the coin by a or by b (the facts normaliser writes an if / else assignment so)
                    defs.append((fn, r["a"], n["op"], n["loc"]))
                    defs.append((fn, r["e"], n["op"], n["loc"]))
                else:
                    defs.append((fn, n["r"], n["op"], n["loc"]))
            if n.get("k") in ("Assign", "Un") and is_this_field(n.get("l") or n.get("e") or {}, ("state_",)):
                state_writers.append((fn, n))
        walk(fn["body"], v)
    for j, (fn, e, how, loc) in enumerate(sorted(defs, key=lambda d: (d[0]["pat"], d[3]))):
        key = "req_compactor::%s:coin-def#%d" % (fn["name"] + ("(copy)" if fn.get("special") == "copy-ctor" else "(move)" if fn.get("special") == "move-ctor" else ""), j)
        x = strip_all(e)
        if is_coin_call(x):
            out.append(ob("coin.source", key, loc, "discharged", "coin_ := random_bit()", fn["qname"]))
        elif x.get("k") == "Un" and x.get("op") == "!" and is_this_field(x["e"], ("coin_",)):
            out.append(ob("coin.source", key, loc, "discharged", "coin_ := !coin_ (reviewed idiom: the complement of the previous fair coin on odd states)", fn["qname"]))
        elif x.get("k") == "Member" and x.get("f") == "coin_":
            out.append(ob("coin.source", key, loc, "discharged", "coin_ copied from another compactor", fn["qname"]))
        elif x.get("k") == "Bool" or "v" in x:
            # a constant initial coin is only sound if the first compaction always draws: state_ starts even and nothing but
            # compact()'s own ++state_ changes state_; a merge that ORs in another state can make the state odd first
            foreign = [(f2, n) for f2, n in state_writers if not (n.get("k") == "Un" and n.get("op") == "++" and f2["name"] == "compact")]
            if foreign:
                f2, n = foreign[0]
                out.append(ob("coin.source", key, loc, "violated", "coin_ starts as the constant `%s`; `%s` in %s can make state_ odd before this compactor ever drew a coin, so its next compaction uses `!coin_` of a constant: the surviving parity is deterministic (biased) on that merge path" % (txt(x), txt(n), f2["name"]), fn["qname"]))
            else:
                out.append(ob("coin.source", key, loc, "discharged", "constant initial coin, never consumed: state_ starts even and only compact() changes it", fn["qname"]))
        else:
            out.append(ob("coin.source", key, loc, "violated", "coin_ := %s is neither random_bit(), its own complement, nor a copy" % txt(x), fn["qname"]))
    # REQ compact: the survivors are selected by coin_, one definition of coin_ on every path, draw not controlled by the coin
    for pat, fn in sorted(req.items()):
        if fn["name"] != "compact":
            continue
        promos = []
        walk(fn["body"], lambda n: promos.append(n) if n.get("k") == "Call" and n.get("cname") == "promote_evens_or_odds" else None)
        key = "req_compactor::compact:parity-argument"
        if promos and is_this_field(promos[0]["args"][2], ("coin_",)):
            out.append(ob("coin.source", key, promos[0]["loc"], "discharged", "promote_evens_or_odds(..., coin_, ...)", fn["qname"]))
        else:
            out.append(ob("coin.source", key, fn["pat"], "violated", "the parity passed to promote_evens_or_odds is `%s`, not the coin" % (txt(promos[0]["args"][2]) if promos else "?"), fn["qname"]))
        # every path assigns coin_ exactly once before the promotion; the branch does not test the coin
        st = stmts_of(fn["body"])
        ifs = [s for s in st if s.get("k") == "If" and any(is_this_field(n.get("l") or {}, ("coin_",)) for n in _assigns(s))]
        key = "req_compactor::compact:one-draw"
        ok = False
        why = "no `if (odd state) coin_ = !coin_ else coin_ = random_bit()` found"
        # canonical form (normaliser S10): coin_ = odd ? !coin_ : random_bit();
        conds = [strip(x["e"]) for x in st if x.get("k") == "Expr" and isinstance(strip(x.get("e")), dict) and strip(x["e"]).get("k") == "Assign" and strip(x["e"]).get("op") == "=" and is_this_field(strip(x["e"])["l"], ("coin_",)) and strip_all(strip(x["e"])["r"]).get("k") == "Cond"]
        if len(conds) == 1 and not ifs:
            cnd = strip_all(conds[0]["r"])
            c = txt(cnd["c"])
            all_draws = []
            walk(fn["body"], lambda n: all_draws.append(n) if n.get("k") == "OpCall" and is_coin_call(n) else None)
            all_defs = [n for n in _assigns(fn["body"]) if is_this_field(n.get("l") or {}, ("coin_",))]
            if "coin_" in c:
                why = "the condition that decides whether to draw tests the coin itself (`%s`): the number of flips depends on outcomes" % c
            elif len(all_draws) == 1 and len(all_defs) == 1:
                ok = True
                why = "coin_ is defined once as `%s ? .. : ..`, at most one draw, condition independent of the coin" % c
            else:
                why = "coin_ assigned %d times, %d draws in compact()" % (len(all_defs), len(all_draws))
        if len(ifs) == 1 and ifs[0].get("e") is not None:
            c = txt(ifs[0]["c"])
            ta, ea = _assigns(ifs[0]["t"]), _assigns(ifs[0]["e"])
            draws_t = sum(1 for n in ta if is_coin_call(n["r"])) + sum(1 for n in ea if is_coin_call(n["r"]))
            all_draws = []
            walk(fn["body"], lambda n: all_draws.append(n) if n.get("k") == "OpCall" and is_coin_call(n) else None)
            if "coin_" in c:
                why = "the branch that decides whether to draw tests the coin itself (`%s`): the number of flips depends on outcomes" % c
            elif len(ta) == 1 and len(ea) == 1 and draws_t == 1 and len(all_draws) == 1:
                ok = True
                why = "one assignment of coin_ on each arm of `%s`, at most one draw, condition independent of the coin" % c
            else:
                why = "coin_ assigned %d/%d times on the two arms, %d draws in compact()" % (len(ta), len(ea), len(all_draws))
        out.append(ob("coin.count", key, fn["pat"], "discharged" if ok else "violated", why, fn["qname"]))
    return out


def _assigns(s):
    out = []
    walk(s, lambda n: out.append(n) if n.get("k") == "Assign" else None)
    return out


def merge_peers(facts):
    """in merge(), a combination min/max(this.f, other.g) pairs a field with the SAME field of the other sketch"""
    fns = functions_by(facts, ["kll", "req", "quantiles"])
    out = []
    for pat, fn in sorted(fns.items()):
        if fn["name"] != "merge" or fn.get("rect") not in ("datasketches::kll_sketch", "datasketches::req_sketch", "datasketches::quantiles_sketch", "datasketches::req_compactor"):
            continue
        idx = [0]

        def v(n):
            if n.get("k") == "Call" and (n.get("callee") or "").startswith(("std::min", "std::max")) and len(n.get("args", [])) == 2:
                a, b = strip_all(n["args"][0]), strip_all(n["args"][1])
                mine = a if is_this_field(a) else (b if is_this_field(b) else None)
                theirs = b if mine is a else a
                if mine is None or not (theirs.get("k") == "Member" and theirs.get("isfield") and strip_all(theirs["b"]).get("k") == "Ref"):
                    return
                key = "%s::merge:peer#%d" % (short(fn["rect"]), idx[0])
                idx[0] += 1
                if theirs["f"] == mine["f"]:
                    out.append(ob("merge.peer", key, n["loc"], "discharged", "%s combined with other.%s" % (mine["f"], theirs["f"]), fn["qname"]))
                else:
                    out.append(ob("merge.peer", key, n["loc"], "violated", "merge combines `%s` with `other.%s` instead of `other.%s`: a constraint inherited by the other sketch from an earlier merge (e.g. its smaller min_k) is lost, and the published rank error becomes too optimistic" % (mine["f"], theirs["f"], mine["f"]), fn["qname"]))
        walk(fn["body"], v)
    return out


def _for_parts(loop):
    """(init var decls, step assignments) of a For"""
    inits = {}
    for s in stmts_of(loop.get("i")) if loop.get("i") else []:
        if s.get("k") == "Decl":
            for v in s["vars"]:
                inits[v["d"]] = v
    steps = []
    walk(loop.get("inc") or loop.get("u") or {}, lambda n: steps.append(n) if n.get("k") == "Assign" and n.get("op") in ("+=", "-=") else None)
    return inits, steps


def stride_offsets(facts):
    """a sub-sampling loop `for (i = off; ...; i += step)` with a non-literal step keeps one item per group of `step`: unbiased only if
    `off` is uniform over [0, step) - i.e. drawn from uniform_int_distribution(0, step - 1) over the library engine."""
    fns = functions_by(facts, ["kll", "req", "quantiles"])
    out = []
    for pat, fn in sorted(fns.items()):
        if fn["name"] != "zip_buffer_with_stride":
            continue
        base = short(fn["patq"])
        decls = local_decls(fn)
        loops = []
        walk(fn["body"], lambda n: loops.append(n) if n.get("k") == "For" else None)
        found = False
        for lp in loops:
            steps = []
            for k in ("inc", "u", "step", "n"):
                if isinstance(lp.get(k), dict):
                    walk(lp[k], lambda n: steps.append(n) if n.get("k") == "Assign" and n.get("op") == "+=" else None)
            for stp in steps:
                r = strip_all(stp["r"])
                cur = strip_all(stp["l"])
                if r.get("k") != "Ref" or cur.get("k") != "Ref":
                    continue
                found = True
                key = base + ":offset-range"
                cinit = decls.get(cur["d"], {}).get("init")
                off = strip_all(cinit) if cinit else {}
                if off.get("k") == "Ref" and off.get("d") in decls:
                    off = strip_all(decls[off["d"]].get("init") or {})
                ok, why = False, "start offset `%s` is not a draw from a uniform distribution over [0, %s)" % (txt(off), r["n"])
                if off.get("k") == "OpCall" and off.get("op") == "()" and off.get("crec") == "std::uniform_int_distribution" and len(off.get("args", [])) == 2:
                    d, eng = strip_all(off["args"][0]), strip_all(off["args"][1])
                    dd = strip_all(decls.get(d.get("d"), {}).get("init") or {})
                    a = [txt(strip_all(x)).replace(" ", "") for x in dd.get("args", [])]
                    if (eng.get("q") or "") != "datasketches::random_utils::rand":
                        why = "offset drawn from `%s`, not the library engine random_utils::rand" % txt(eng)
                    elif len(a) == 2 and a[0] == "0" and a[1] in ("(%s-1)" % r["n"], "%s-1" % r["n"]):
                        ok, why = True, "offset ~ uniform_int_distribution(0, %s - 1)(random_utils::rand); cursor advances by %s" % (r["n"], r["n"])
                    else:
                        why = "offset distribution is uniform over [%s], the loop step is `%s`: not every residue class is kept with probability 1/%s" % (", ".join(a), r["n"], r["n"])
                elif is_coin_call(off) or any(is_coin_call(x) for x in _subexprs(off)):
                    why = "start offset `%s` has at most two outcomes (random_bit) while the loop keeps one item out of every `%s`: for strides above 2 the survivors always come from the first residues, the merged ranks are biased" % (txt(off), r["n"])
                out.append(ob("coin.stride", key, lp["loc"], "discharged" if ok else "violated", why, fn["qname"]))
        if not found:
            out.append(ob("coin.stride", base + ":offset-range", fn["pat"], "unrecognised", "no `cursor += stride` loop found", fn["qname"]))
    return out


def _subexprs(e):
    out = []
    walk(e, lambda n: out.append(n))
    return out


def req_region(facts):
    """REQ keeps its live items contiguous at one end of the buffer (begin()/end() depend on hra_) and compact() only shrinks
    num_items_: the compacted range must touch the end that moves - low == 0 in HRA, high == num_items_ in LRA. Evaluated
    symbolically with hra_ fixed to each value; a variable changed under an undecided condition becomes unknown."""
    fns = functions_by(facts, ["req"])
    out = []
    for pat, fn in sorted(fns.items()):
        if fn["name"] != "compute_compaction_range" or fn.get("rect") != "datasketches::req_compactor":
            continue
        for hra in (True, False):
            env = {}

            def ev(e):
                e = strip_all(e)
                k = e.get("k")
                if k == "Cond":
                    c = strip_all(e["c"])
                    if c.get("k") == "Member" and c.get("f") == "hra_":
                        return ev(e["a"] if hra else e["e"])
                    return "?"
                if k == "Ref" and e.get("dk") == "local":
                    return env.get(e["d"], "?")
                if k == "Ref" and e.get("dk") == "param":
                    return "param%d" % [pm.get("d") for pm in fn["params"]].index(e["d"]) if e.get("d") in [pm.get("d") for pm in fn["params"]] else "?"
                if k == "Member" and e.get("isfield"):
                    return e["f"]
                if "v" in e and k in ("Int", "Cast", "Un", "Paren") and isinstance(e["v"], int):
                    return str(e["v"])
                if k == "Un" and e.get("op") == "~" and ev(e.get("e")).isdigit():
                    return str((~int(ev(e["e"]))) & 0xFFFFFFFF)
                if k == "Bin":
                    a, b = ev(e["l"]), ev(e["r"])
                    return "?" if "?" in (a, b) else "(%s%s%s)" % (a, e["op"], b)
                if k == "Call" and not e.get("args"):
                    return (e.get("cname") or "?") + "()"
                return "?" if k not in ("Int",) else str(e.get("v"))

            def kill(s):
                def v(n):
                    if n.get("k") == "Assign" or (n.get("k") == "Un" and n.get("op") in ("++", "--")):
                        t = strip_all(n.get("l") or n.get("e"))
                        if t.get("k") == "Ref":
                            env[t["d"]] = "?"
                walk(s, v)
            ret = None
            even = set()     # symbolic differences known to be even

            def parity_fix(s):
                """`if (((A - v) & 1) is set) ++v;` (any spelling of the bit test): afterwards A - v is even.  Returns True if s is
                that statement (v gets a fresh symbolic value)"""
                if s.get("k") != "If" or s.get("e") is not None:
                    return False
                body = stmts_of(s.get("t"))
                if len(body) != 1 or body[0].get("k") != "Expr":
                    return False
                inc = strip_all(body[0].get("e") or {})
                if not (inc.get("k") == "Un" and inc.get("op") == "++" and strip_all(inc.get("e") or {}).get("k") == "Ref"):
                    return False
                vd = strip_all(inc["e"])["d"]
                cnd = s["c"]
                c0 = strip_all(cnd)
                if isinstance(c0, dict) and c0.get("k") == "Ref" and c0.get("d") in bool_inits:
                    cnd = bool_inits[c0["d"]]        # `const bool odd = ((n - x) & 1) != 0; if (odd) ++x;`
                tests = []
                walk(cnd, lambda n: tests.append(n) if n.get("k") == "Bin" and n.get("op") == "&" and any(strip_all(n[a]).get("v") == 1 for a in ("l", "r")) else None)
                if len(tests) != 1:
                    return False
                ct = txt(cnd).replace(" ", "")
                if ct.startswith("!") or "(0==" in ct or "==0)" in ct:
                    return False     # the increment must happen when the bit is SET
                t = tests[0]
                d = strip_all(t["l"] if strip_all(t["r"]).get("v") == 1 else t["r"])
                if not (d.get("k") == "Bin" and d.get("op") == "-" and strip_all(d["r"]).get("k") == "Ref" and strip_all(d["r"]).get("d") == vd):
                    return False
                a = ev(d["l"])
                if a == "?":
                    return False
                fresh = "%s'" % (env.get(vd) if env.get(vd, "?") != "?" else "v")
                env[vd] = fresh
                even.add("(%s-%s)" % (a, fresh))
                return True
            bool_inits = {}
            walk(fn["body"], lambda n: [bool_inits.__setitem__(v["d"], v["init"]) for v in n.get("vars", []) if "d" in v and v.get("init") is not None and (v.get("t") or "").replace("const ", "") == "bool"] if n.get("k") == "Decl" else None)
            todo = list(stmts_of(fn["body"]))
            while todo:
                s = todo.pop(0)
                if ret is not None:
                    break
                if parity_fix(s):
                    continue
                if s.get("k") == "Block":
                    todo = list(stmts_of(s)) + todo
                    continue
                if s.get("k") == "If":
                    c0 = strip_all(s["c"])
                    neg = False
                    if c0.get("k") == "Un" and c0.get("op") == "!":
                        c0, neg = strip_all(c0["e"]), True
                    if c0.get("k") == "Member" and c0.get("f") == "hra_":
                        # the buffer layout is fixed for this evaluation: follow the arm that is taken
                        taken = s.get("t") if (hra != neg) else s.get("e")
                        if taken is not None:
                            todo = (list(stmts_of(taken)) if taken.get("k") == "Block" else [taken]) + todo
                        continue
                if s.get("k") == "Decl":
                    for v in s["vars"]:
                        env[v["d"]] = ev(v["init"]) if v.get("init") else "?"
                elif s.get("k") == "Return":
                    r = strip_all(s.get("e") or {})
                    args = r.get("args", [])
                    while len(args) == 1 and strip_all(args[0]).get("k") == "Construct":
                        args = strip_all(args[0]).get("args", [])
                    if len(args) == 2:
                        ret = (ev(args[0]), ev(args[1]))
                elif s.get("k") == "Expr" and strip_all(s.get("e") or {}).get("k") == "Assign" and strip_all(s["e"]).get("op") == "=" and strip_all(strip_all(s["e"])["l"]).get("k") == "Ref":
                    a = strip_all(s["e"])
                    env[strip_all(a["l"])["d"]] = ev(a["r"])     # a plain assignment at top level defines the variable
                else:
                    kill(s)
            key = "req_compactor::compute_compaction_range:%s" % ("hra:low==0" if hra else "lra:high==num_items_")
            if ret is None:
                out.append(ob("req.region", key, fn["pat"], "unrecognised", "return pair(low, high) not found", fn["qname"]))
                continue
            # the compacted range has an even number of items (pairs are merged into one survivor each)
            length = ret[1] if ret[0] == "0" else "(%s-%s)" % (ret[1], ret[0])
            m = re.fullmatch(r"\((.*)&(\d+)\)", length)
            is_even = length in even or (m is not None and int(m.group(2)) % 2 == 0)
            k2 = "req_compactor::compute_compaction_range:%s:even-length" % ("hra" if hra else "lra")
            if "?" in length:
                out.append(ob("req.region", k2, fn["pat"], "unrecognised", "with hra_=%s the length of the compacted range cannot be expressed (%s)" % (str(hra).lower(), length), fn["qname"]))
            elif is_even:
                out.append(ob("req.region", k2, fn["pat"], "discharged", "with hra_=%s the compacted range has the even length %s" % (str(hra).lower(), length), fn["qname"]))
            else:
                out.append(ob("req.region", k2, fn["pat"], "violated", "with hra_=%s the compacted range has length %s, which is not made even: compact() keeps one item of every pair, so an odd range loses the weight of one item and leaves the cached counts off by one" % (str(hra).lower(), length), fn["qname"]))
            got = ret[0] if hra else ret[1]
            want = "0" if hra else "num_items_"
            if got == want:
                out.append(ob("req.region", key, fn["pat"], "discharged", "with hra_=%s the range is (%s, %s): it touches the end of the live region that compact() moves" % (str(hra).lower(), ret[0], ret[1]), fn["qname"]))
            else:
                out.append(ob("req.region", key, fn["pat"], "violated", "with hra_=%s the compacted range is (%s, %s), %s is not provably %s: compact() shrinks num_items_ from that end, so the live region loses an item that was not compacted and keeps a destroyed/duplicated one (weight no longer conserved, ranks biased)" % (str(hra).lower(), ret[0], ret[1], "low" if hra else "high", want), fn["qname"]))
    return out


def req_merge_ranges(facts):
    """req_compactor::merge: the two sorted runs handed to std::inplace_merge(first, middle, last) are exactly the old items and the
    appended items, in both buffer layouts.  Pointer expressions are evaluated exactly (integer polynomials over items_, capacity_,
    num_items_ and other's item count) with hra_ fixed to each value and begin()/end() inlined from their bodies:
    {middle - first, last - middle} must be {num_items_, other.get_num_items()} and [first, last) must be the live region after the
    merge."""
    from poly import Poly
    fns = functions_by(facts, ["req"])
    req = {f["name"] + ("#const" if f.get("const") else ""): f for p, f in fns.items() if f.get("rect") == "datasketches::req_compactor"}
    out = []
    mg = [f for p, f in sorted(fns.items()) if f.get("rect") == "datasketches::req_compactor" and f["name"] == "merge"]
    if not mg:
        return [ob("req.merge-range", "req_compactor::merge:anchor", "", "unrecognised", "merge not found", "")]
    fn = mg[0]
    decls = local_decls(fn)
    other = fn["params"][0]["d"]

    def body_ret(name):
        f = req.get(name) or req.get(name + "#const")
        if not f:
            return None
        rs = [s for s in stmts_of(f["body"]) if s.get("k") == "Return"]
        return rs[0]["e"] if len(rs) == 1 else None
    for hra in (True, False):
        def ev(e, depth=0):
            e = strip_all(e)
            k = e.get("k")
            if depth > 12:
                return None
            if k == "Cond":
                c = strip_all(e["c"])
                if c.get("k") == "Member" and c.get("f") == "hra_":
                    return ev(e["a"] if hra else e["e"], depth + 1)
                return None
            if k in ("Int",) or (k == "Cast" and "v" in e):
                return Poly.const(e["v"])
            if "v" in e and k not in ("Call", "Member", "Ref"):
                return Poly.const(e["v"])
            if k == "Member" and e.get("isfield") and strip_all(e["b"]).get("k") == "This":
                return Poly.sym(e["f"])
            if k == "Ref" and e.get("dk") == "local" and e.get("d") in decls and decls[e["d"]].get("init") is not None:
                return ev(decls[e["d"]]["init"], depth + 1)
            if k == "Bin" and e.get("op") in ("+", "-"):
                a, b = ev(e["l"], depth + 1), ev(e["r"], depth + 1)
                if a is None or b is None:
                    return None
                return a + b if e["op"] == "+" else a - b
            if k == "Call" and not e.get("args") and strip_all(e.get("obj") or {"k": "This"}).get("k") == "This":
                # begin() / end() and any other parameterless helper of the compactor whose body is one return statement
                r = body_ret(e["cname"])
                return ev(r, depth + 1) if r is not None else None
            if k == "Call" and e.get("cname") == "get_num_items" and strip_all(e.get("obj") or {}).get("d") == other:
                return Poly.sym("other_n")
            return None
        calls = []
        walk(fn["body"], lambda n: calls.append(n) if n.get("k") == "Call" and n.get("cname") == "inplace_merge" else None)
        key = "req_compactor::merge:inplace_merge-runs(%s)" % ("hra" if hra else "lra")
        if len(calls) != 1 or len(calls[0].get("args", [])) < 3:
            out.append(ob("req.merge-range", key, fn["pat"], "unrecognised", "expected exactly one std::inplace_merge(first, middle, last, ..)", fn["qname"]))
            continue
        a = [ev(x) for x in calls[0]["args"][:3]]
        if any(x is None for x in a):
            out.append(ob("req.merge-range", key, calls[0]["loc"], "unrecognised", "range expression not evaluable: %s" % [txt(x) for x in calls[0]["args"][:3]], fn["qname"]))
            continue
        first, middle, last = a
        n, m = Poly.sym("num_items_"), Poly.sym("other_n")
        items, cap = Poly.sym("items_"), Poly.sym("capacity_")
        want_first = items + cap - n - m if hra else items
        want_last = items + cap if hra else items + n + m
        runs = {repr(middle - first), repr(last - middle)}
        ok = (first == want_first) and (last == want_last) and runs == {repr(n), repr(m)}
        if ok:
            out.append(ob("req.merge-range", key, calls[0]["loc"], "discharged", "first=%r middle=%r last=%r: runs of num_items_ and other's count, covering the merged live region" % (first, middle, last), fn["qname"]))
        else:
            out.append(ob("req.merge-range", key, calls[0]["loc"], "violated", "with hra_=%s std::inplace_merge gets first=%r middle=%r last=%r: runs of %r and %r items instead of num_items_ and other.get_num_items() (num_items_ is only advanced afterwards) - the appended run is not merged in, the level is left 'old sorted, then new sorted' while flagged sorted" % (str(hra).lower(), first, middle, last, middle - first, last - middle), fn["qname"]))
    return out


def unsigned_field_minus_param(facts, fams=("req", "kll", "quantiles")):
    """`field - param` in unsigned arithmetic wraps to a huge value when the parameter exceeds the field, so every caller has to pass
    an argument that is provably <= the field: `std::min(x, field)` (directly or through a const local).  REQ: the number of
    sections to compact is clamped to num_sections_; without the clamp the non-compacted part `(num_sections_ - secs) * size`
    wraps for small k once the sections stop doubling and the compaction eats into the protected half of the buffer."""
    fns = functions_by(facts, list(fams))
    out = []
    sites = []
    for pat, fn in sorted(fns.items()):
        params = {x["d"]: (i, x["n"]) for i, x in enumerate(fn["params"])}

        def v(x):
            if x.get("k") == "Bin" and x.get("op") == "-" and (x.get("t") or "").startswith("unsigned"):
                l, r = strip_all(x["l"]), strip_all(x["r"])
                if r.get("k") == "Ref" and r.get("d") in params and l.get("k") == "Member" and l.get("isfield") and strip_all(l.get("b") or {}).get("k") == "This":
                    sites.append((fn, params[r["d"]], l["f"], x))
        walk(fn["body"], v)
    for fn, (pi, pname), fld, x in sites:
        callers = 0
        for pat2, g in sorted(fns.items()):
            if g.get("rect") != fn.get("rect"):
                continue
            decls = local_decls(g)
            calls = []
            walk(g["body"], lambda n: calls.append(n) if n.get("k") == "Call" and n.get("cpat") == fn["pat"] and len(n.get("args", [])) > pi else None)
            for c in calls:
                callers += 1
                a = strip_all(c["args"][pi])
                if a.get("k") == "Ref" and a.get("d") in decls and decls[a["d"]].get("init") is not None and decls[a["d"]].get("const"):
                    a = strip_all(decls[a["d"]]["init"])
                key = "%s:%s<=%s@%s" % (short(fn["patq"]), pname, fld, g["name"])
                ok = a.get("k") == "Call" and a.get("cname") == "min" and any(is_this_field(y, (fld,)) for y in a.get("args", []))
                if ok:
                    out.append(ob("unsigned.sub-clamped", key, c["loc"], "discharged", "%s passes min(..., %s): `%s - %s` cannot wrap" % (g["name"], fld, fld, pname), g["qname"]))
                else:
                    out.append(ob("unsigned.sub-clamped", key, c["loc"], "violated", "%s passes `%s` for `%s`, which %s subtracts from the unsigned field `%s` (%s): nothing bounds the argument by %s, so the difference wraps when it is larger (REQ: for small k the schedule keeps counting after the sections stop doubling; the compaction then covers the protected, exact half of the buffer)" % (g["name"], txt(a)[:60], pname, fn["name"], fld, txt(x), fld), g["qname"]))
        if not callers:
            out.append(ob("unsigned.sub-clamped", "%s:%s<=%s:callers" % (short(fn["patq"]), pname, fld), fn["pat"], "unrecognised", "no caller found", fn["qname"]))
    if not sites:
        out.append(ob("unsigned.sub-clamped", "anchor", "", "unrecognised", "no unsigned field - parameter subtraction found", ""))
    return out


def req_exact_band(facts):
    """REQ rank bounds collapse to the estimate (`exact`) only for ranks inside the part of level 0 that is never compacted: the
    first INIT_NUM_SECTIONS sections of k items, i.e. k * 3 items.  The threshold that is compared with n in is_exact_rank - read
    through named locals and single-return helpers, named constants by value - must be that product: a larger one (the nominal
    capacity 2 * 3 * k) declares ranks exact whose items have already been through a compaction."""
    from astu import single_assignment_locals
    import astu
    fns = functions_by(facts, ["req"])
    out = []
    helpers = {}
    for f in fns.values():
        if f.get("rect") == "datasketches::req_sketch" and f.get("body") is not None:
            st = stmts_of(f["body"])
            if len(st) == 1 and st[0].get("k") == "Return" and st[0].get("e") is not None:
                helpers[f["pat"]] = f
    for pat, fn in sorted(fns.items()):
        if fn.get("rect") != "datasketches::req_sketch" or fn["name"] != "is_exact_rank" or fn.get("body") is None or len(fn.get("params") or []) != 5:
            continue
        sa = single_assignment_locals(fn)
        kd, nd = fn["params"][0]["d"], fn["params"][3]["d"]

        def resolve(e, depth=0):
            e0 = strip_all(e)
            if depth > 6 or not isinstance(e0, dict):
                return e0
            if e0.get("k") == "Ref" and e0.get("d") in sa:
                return resolve(sa[e0["d"]], depth + 1)
            if e0.get("k") == "Call" and e0.get("cpat") in helpers and len(e0.get("args", [])) == len(helpers[e0["cpat"]].get("params") or []):
                h = helpers[e0["cpat"]]
                m = {p["d"]: a for p, a in zip(h["params"], e0["args"])}
                body = stmts_of(h["body"])[0]["e"]

                def sub(n):
                    if isinstance(n, list):
                        return [sub(x) for x in n]
                    if not isinstance(n, dict):
                        return n
                    if n.get("k") == "Ref" and n.get("d") in m:
                        return m[n["d"]]
                    return {k: sub(v) for k, v in n.items()}
                return resolve(sub(body), depth + 1)
            if e0.get("k") == "Bin":
                return dict(e0, l=resolve(e0["l"], depth + 1), r=resolve(e0["r"], depth + 1))
            return e0
        cmps = []
        walk(fn["body"], lambda n: cmps.append(n) if n.get("k") == "Bin" and n.get("op") in ("<=", ">=", "<", ">") and any(strip_all(n[s_]).get("k") == "Ref" and strip_all(n[s_]).get("d") == nd for s_ in ("l", "r")) else None)
        key = "req_sketch::is_exact_rank:exact-band"
        if not cmps:
            out.append(ob("req.exact-band", key, fn["pat"], "unrecognised", "no comparison of n with the exact-rank capacity found", fn["qname"]))
            continue
        c = cmps[0]
        other = c["r"] if strip_all(c["l"]).get("d") == nd else c["l"]
        old = astu._VALUES[0]
        astu._VALUES[0] = True
        try:
            penv = {kd: {"k": "Ref", "n": "k", "d": None, "dk": "synthetic"}}
            t = C(txt(resolve(other), penv).replace(" ", ""))
        finally:
            astu._VALUES[0] = old
        ok = t in (C("(k*3)"), C("(3*k)"))
        out.append(ob("req.exact-band", key, c.get("loc", fn["pat"]), "discharged" if ok else "violated",
                      "ranks are declared exact for n <= k * INIT_NUM_SECTIONS (= 3k, the never-compacted part of level 0)" if ok else
                      "ranks are declared exact up to `%s` items instead of k * INIT_NUM_SECTIONS = 3k (the part of level 0 that is never compacted): lower and upper bound collapse onto an estimate whose items have already been through a compaction, so the published bounds miss the true rank" % t, fn["qname"]))
    return out


def sorted_run_is_halved_run(facts):
    """KLL compaction sorts level 0 only when it is about to halve it: the range handed to std::sort must be the very run handed
    to randomly_halve_up / randomly_halve_down in the same function (`items + B .. items + B + L` and `(items, B, L)`): halving a run
    whose last (or first) slot was left out of the sort promotes an out-of-order item into a level that every query assumes sorted."""
    fns = functions_by(facts, ["kll"])
    out = []
    idx = 0
    for pat, fn in sorted(fns.items()):
        if fn.get("body") is None:
            continue
        sorts, halves = [], []
        walk(fn["body"], lambda n: sorts.append(n) if n.get("k") == "Call" and n.get("cname") == "sort" and len(n.get("args", [])) >= 2 else None)
        walk(fn["body"], lambda n: halves.append(n) if n.get("k") == "Call" and n.get("cname") in ("randomly_halve_up", "randomly_halve_down") and len(n.get("args", [])) == 3 else None)
        if not sorts or not halves:
            continue
        for sc in sorts:
            a, b = strip_all(sc["args"][0]), strip_all(sc["args"][1])
            key = "%s:sorted-run#%d" % (short(fn.get("patq") or fn["name"]), idx)
            idx += 1
            if not (a.get("k") == "Bin" and a.get("op") == "+"):
                out.append(ob("kll.sorted-run", key, sc.get("loc", fn["pat"]), "unrecognised", "sort range start `%s` is not `base + begin`" % txt(a), fn["qname"]))
                continue
            base, beg = txt(a["l"]), C(txt(a["r"]).replace(" ", ""))
            end = C(txt(b).replace(" ", ""))
            bad = []
            for h in halves:
                hb, hbeg, hlen = txt(h["args"][0]), C(txt(h["args"][1]).replace(" ", "")), txt(h["args"][2]).replace(" ", "")
                want_end = [C("((%s+%s)+%s)" % (base, hbeg, hlen)), C("(%s+(%s+%s))" % (base, hbeg, hlen))]
                if hb != base or hbeg != beg or end not in want_end:
                    bad.append("sorted [%s, %s) but halved %s(%s, %s, %s)" % (txt(a), txt(b), h.get("cname"), hb, txt(h["args"][1]), hlen))
            if bad:
                out.append(ob("kll.sorted-run", key, sc.get("loc", fn["pat"]), "violated", "%s: the run that is halved is not the run that was sorted - an item outside the sorted range is promoted into the level above, which every rank query assumes sorted" % bad[0], fn["qname"]))
            else:
                out.append(ob("kll.sorted-run", key, sc.get("loc", fn["pat"]), "discharged", "the sorted range is exactly the run handed to the %d halving call(s)" % len(halves), fn["qname"]))
    return out
