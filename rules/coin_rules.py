"""C08 coin dataflow (DESIGN.md section 4 A9): the parity that selects the survivors of a compaction flows from the fair
bit and nothing else; the number of coin draws does not depend on coin outcomes; survivors are taken with stride 2 from an
even-length run; merge combines error parameters with the right peers."""
import json
from astu import strip, strip_all, walk, walkp, txt, short, is_this_field, field_name, stmts_of, always_throws, functions_by, local_decls
from vlib.core import ob


def is_coin_call(e):
    e = strip_all(e)
    if not isinstance(e, dict):
        return False
    if e.get("k") == "OpCall" and e.get("op") == "()" and e.get("args"):
        a0 = strip_all(e["args"][0])
        return a0.get("k") == "Ref" and (a0.get("q") or "").endswith("random_utils::random_bit")
    return False


def coin_sources(facts):
    fns = functions_by(facts, ["kll", "req", "quantiles"])
    out = []
    # (i) local offsets in the KLL / classic halving primitives
    for pat, fn in sorted(fns.items()):
        if fn["name"] in ("randomly_halve_down", "randomly_halve_up", "zip_buffer"):
            base = short(fn["patq"])
            decls = local_decls(fn)
            offs = [v for v in decls.values() if v.get("init") is not None and is_coin_call(v["init"])]
            # the variable that starts the survivor index
            loops = []
            walk(fn["body"], lambda n: loops.append(n) if n.get("k") == "For" else None)
            key = base + ":survivor-parity"
            if not loops:
                out.append(ob("coin.source", key, fn["pat"], "unrecognised", "no survivor loop found", fn["qname"]))
                continue
            # find survivor cursor: variable incremented by 2 (+= 2 / -= 2)
            step2 = []
            walk(fn["body"], lambda n: step2.append(strip(n["l"])) if n.get("k") == "Assign" and n.get("op") in ("+=", "-=") and strip(n["r"]).get("v") == 2 and strip(n["l"]).get("k") == "Ref" else None)
            if not step2:
                out.append(ob("coin.stride", base + ":stride", fn["pat"], "violated", "no survivor cursor advancing by 2 found: survivors are not every other item", fn["qname"]))
                continue
            cur = step2[0]
            out.append(ob("coin.stride", base + ":stride", fn["pat"], "discharged", "survivor cursor `%s` advances by 2" % cur["n"], fn["qname"]))
            cinit = decls.get(cur["d"], {}).get("init")
            refs = []
            walk(cinit, lambda n: refs.append(n) if n.get("k") == "Ref" and n.get("dk") == "local" else None)
            coin_vars = {v["d"] for v in offs}
            uses_coin = any(r["d"] in coin_vars for r in refs) or is_coin_call(cinit)
            consts_only = not refs and not is_coin_call(cinit)
            if uses_coin:
                out.append(ob("coin.source", key, decls[cur["d"]]["loc"], "discharged", "survivor start `%s = %s` takes its parity from random_bit()" % (cur["n"], txt(cinit)), fn["qname"]))
            else:
                out.append(ob("coin.source", key, decls[cur["d"]]["loc"], "violated", "survivor start `%s = %s` does not depend on random_utils::random_bit() (%s): the surviving half is chosen deterministically, the rank estimator is biased" % (cur["n"], txt(cinit), "constant" if consts_only else "derived from data/counters"), fn["qname"]))
            # exactly one draw, unconditional
            draws = []
            walkp(fn["body"], lambda n, ps: draws.append((n, ps)) if is_coin_call(n) and n.get("k") == "OpCall" else None)
            key2 = base + ":one-draw"
            cond = [p for n, ps in draws for p in ps if p.get("k") in ("If", "For", "While", "Do", "Cond", "RangeFor")]
            if len(draws) == 1 and not cond:
                out.append(ob("coin.count", key2, draws[0][0]["loc"], "discharged", "exactly one unconditional coin draw per halving", fn["qname"]))
            else:
                out.append(ob("coin.count", key2, fn["pat"], "violated", "%d coin draws, %d under control flow: the number of flips must be one per halving and independent of outcomes" % (len(draws), len(cond)), fn["qname"]))
            # even length check (KLL) dominates
            if fn["name"].startswith("randomly_halve"):
                st = stmts_of(fn["body"])
                ok = st and st[0].get("k") == "If" and "is_even" in txt(st[0]["c"]) and always_throws(st[0].get("t"))
                out.append(ob("coin.stride", base + ":even-length", fn["pat"], "discharged" if ok else "violated", "odd lengths are rejected before halving" if ok else "no `if (!is_even(length)) throw` first: an odd run loses or duplicates an item", fn["qname"]))
    # REQ: the coin field
    req = {p: f for p, f in fns.items() if f.get("rect") == "datasketches::req_compactor"}
    defs = []
    state_writers = []
    for pat, fn in sorted(req.items()):
        for i in fn.get("inits", []):
            if i.get("field") == "coin_" and i.get("written"):
                defs.append((fn, i["e"], "init", i["e"].get("loc", fn["pat"])))

        def v(n):
            if n.get("k") == "Assign" and is_this_field(n["l"], ("coin_",)):
                defs.append((fn, n["r"], n["op"], n["loc"]))
            if n.get("k") in ("Assign", "Un") and is_this_field(n.get("l") or n.get("e") or {}, ("state_",)):
                state_writers.append((fn, n))
        walk(fn["body"], v)
    for j, (fn, e, how, loc) in enumerate(sorted(defs, key=lambda d: (d[0]["pat"], d[3]))):
        key = "req_compactor::%s:coin-def#%d" % (fn["name"] + ("(copy)" if fn.get("special") == "copy-ctor" else "(move)" if fn.get("special") == "move-ctor" else ""), j)
        x = strip_all(e)
        if is_coin_call(x):
            out.append(ob("coin.source", key, loc, "discharged", "coin_ := random_bit()", fn["qname"]))
        elif x.get("k") == "Un" and x.get("op") == "!" and is_this_field(x["e"], ("coin_",)):
            out.append(ob("coin.source", key, loc, "discharged", "coin_ := !coin_ (reviewed idiom: the complement of the previous fair coin on odd states)", fn["qname"]))
        elif x.get("k") == "Member" and x.get("f") == "coin_":
            out.append(ob("coin.source", key, loc, "discharged", "coin_ copied from another compactor", fn["qname"]))
        elif x.get("k") == "Bool" or "v" in x:
            # a constant initial coin is only sound if the first compaction always draws: state_ starts even and nothing but
            # compact()'s own ++state_ changes state_; a merge that ORs in another state can make the state odd first
            foreign = [(f2, n) for f2, n in state_writers if not (n.get("k") == "Un" and n.get("op") == "++" and f2["name"] == "compact")]
            if foreign:
                f2, n = foreign[0]
                out.append(ob("coin.source", key, loc, "violated", "coin_ starts as the constant `%s`; `%s` in %s can make state_ odd before this compactor ever drew a coin, so its next compaction uses `!coin_` of a constant: the surviving parity is deterministic (biased) on that merge path" % (txt(x), txt(n), f2["name"]), fn["qname"]))
            else:
                out.append(ob("coin.source", key, loc, "discharged", "constant initial coin, never consumed: state_ starts even and only compact() changes it", fn["qname"]))
        else:
            out.append(ob("coin.source", key, loc, "violated", "coin_ := %s is neither random_bit(), its own complement, nor a copy" % txt(x), fn["qname"]))
    # REQ compact: the survivors are selected by coin_, one definition of coin_ on every path, draw not controlled by the coin
    for pat, fn in sorted(req.items()):
        if fn["name"] != "compact":
            continue
        promos = []
        walk(fn["body"], lambda n: promos.append(n) if n.get("k") == "Call" and n.get("cname") == "promote_evens_or_odds" else None)
        key = "req_compactor::compact:parity-argument"
        if promos and is_this_field(promos[0]["args"][2], ("coin_",)):
            out.append(ob("coin.source", key, promos[0]["loc"], "discharged", "promote_evens_or_odds(..., coin_, ...)", fn["qname"]))
        else:
            out.append(ob("coin.source", key, fn["pat"], "violated", "the parity passed to promote_evens_or_odds is `%s`, not the coin" % (txt(promos[0]["args"][2]) if promos else "?"), fn["qname"]))
        # every path assigns coin_ exactly once before the promotion; the branch does not test the coin
        st = stmts_of(fn["body"])
        ifs = [s for s in st if s.get("k") == "If" and any(is_this_field(n.get("l") or {}, ("coin_",)) for n in _assigns(s))]
        key = "req_compactor::compact:one-draw"
        ok = False
        why = "no `if (odd state) coin_ = !coin_ else coin_ = random_bit()` found"
        if len(ifs) == 1 and ifs[0].get("e") is not None:
            c = txt(ifs[0]["c"])
            ta, ea = _assigns(ifs[0]["t"]), _assigns(ifs[0]["e"])
            draws_t = sum(1 for n in ta if is_coin_call(n["r"])) + sum(1 for n in ea if is_coin_call(n["r"]))
            all_draws = []
            walk(fn["body"], lambda n: all_draws.append(n) if n.get("k") == "OpCall" and is_coin_call(n) else None)
            if "coin_" in c:
                why = "the branch that decides whether to draw tests the coin itself (`%s`): the number of flips depends on outcomes" % c
            elif len(ta) == 1 and len(ea) == 1 and draws_t == 1 and len(all_draws) == 1:
                ok = True
                why = "one assignment of coin_ on each arm of `%s`, at most one draw, condition independent of the coin" % c
            else:
                why = "coin_ assigned %d/%d times on the two arms, %d draws in compact()" % (len(ta), len(ea), len(all_draws))
        out.append(ob("coin.count", key, fn["pat"], "discharged" if ok else "violated", why, fn["qname"]))
    return out


def _assigns(s):
    out = []
    walk(s, lambda n: out.append(n) if n.get("k") == "Assign" else None)
    return out


def merge_peers(facts):
    """in merge(), a combination min/max(this.f, other.g) pairs a field with the SAME field of the other sketch"""
    fns = functions_by(facts, ["kll", "req", "quantiles"])
    out = []
    for pat, fn in sorted(fns.items()):
        if fn["name"] != "merge" or fn.get("rect") not in ("datasketches::kll_sketch", "datasketches::req_sketch", "datasketches::quantiles_sketch", "datasketches::req_compactor"):
            continue
        idx = [0]

        def v(n):
            if n.get("k") == "Call" and (n.get("callee") or "").startswith(("std::min", "std::max")) and len(n.get("args", [])) == 2:
                a, b = strip_all(n["args"][0]), strip_all(n["args"][1])
                mine = a if is_this_field(a) else (b if is_this_field(b) else None)
                theirs = b if mine is a else a
                if mine is None or not (theirs.get("k") == "Member" and theirs.get("isfield") and strip_all(theirs["b"]).get("k") == "Ref"):
                    return
                key = "%s::merge:peer#%d" % (short(fn["rect"]), idx[0])
                idx[0] += 1
                if theirs["f"] == mine["f"]:
                    out.append(ob("merge.peer", key, n["loc"], "discharged", "%s combined with other.%s" % (mine["f"], theirs["f"]), fn["qname"]))
                else:
                    out.append(ob("merge.peer", key, n["loc"], "violated", "merge combines `%s` with `other.%s` instead of `other.%s`: a constraint inherited by the other sketch from an earlier merge (e.g. its smaller min_k) is lost, and the published rank error becomes too optimistic" % (mine["f"], theirs["f"], mine["f"]), fn["qname"]))
        walk(fn["body"], v)
    return out
