"""C11 'changing any preamble byte leads to an exception or a usable sketch': every value a reader takes from the image is either
VALIDATED before the object is built - it occurs in a guard that throws, in the arguments of a check_* / ensure_* / validate_* call,
it is handed to a library function or constructor whose corresponding parameter occurs in a throwing guard there, or a value
derived from it is validated - or it is listed in spec/fields_free.json as a field for which every value is meaningful (with the
reason).  An image value that reaches the restored object without either is reported: a single corrupted byte then configures a
sketch that the library's own invariants do not describe (shift exponents, table sizes, counts that drive loops)."""
import json
import os
import re
from astu import C, ctxt, gt_pair, eq_const, reach, reach_txt, ctext, strip, strip_all, walk, walkp, txt, short, functions_by, local_decls, always_throws, stmts_of
from vlib.core import ob, VERIF
import triggers

READERS = ("deserialize", "deserialize_items", "deserialize_array", "deserialize_compat", "newList", "newSet", "newHll", "internal_deserialize_or_wrap",
           "deserialize_v1", "deserialize_v2", "deserialize_v3", "deserialize_v4", "wrap", "writable_wrap", "parse")


def _kind(fn):
    allp = " ".join(p["t"] for p in fn["params"])
    if "basic_istream" in allp:
        return "stream"
    if fn["params"] and fn["params"][0]["t"].startswith(("const void", "void", "const unsigned char", "const char", "const uint8_t")):
        return "bytes"
    return None


def _guarded_params(fn):
    """indices of parameters of fn that occur in a throwing guard or check call inside fn (one level)"""
    res = set()
    pidx = {p["d"]: i for i, p in enumerate(fn["params"])}
    # locals computed from parameters stand for those parameters (one level of derivation, both initialisers and assignments)
    def srcs(e):
        out = set()
        walk(e, lambda x: out.add(x["d"]) if x.get("k") == "Ref" and x.get("d") in pidx else None)
        return out

    def dv(n):
        if n.get("k") == "Decl":
            for v in n.get("vars", []):
                if v.get("init") is not None:
                    for d in srcs(v["init"]):
                        pidx.setdefault(v["d"], pidx[d])
        if n.get("k") == "Assign" and strip_all(n["l"]).get("k") == "Ref":
            for d in srcs(n["r"]):
                pidx.setdefault(strip_all(n["l"])["d"], pidx[d])
    walk(fn.get("body") or {}, dv)

    def v(n):
        if n.get("k") == "If" and always_throws(n.get("t")):
            walk(n["c"], lambda x: res.add(pidx[x["d"]]) if x.get("k") == "Ref" and x.get("d") in pidx else None)
        if n.get("k") == "Call" and (n.get("cname") or "").lower().startswith(("check", "ensure", "validate")):
            for a in n.get("args", []):
                walk(a, lambda x: res.add(pidx[x["d"]]) if x.get("k") == "Ref" and x.get("d") in pidx else None)
    walk(fn.get("body") or {}, v)
    return res


def inventory(facts):
    fns = functions_by(facts)
    by_pat = {f["pat"]: f for f in fns.values()}
    gp_memo = {}

    def guarded(pat):
        if pat not in gp_memo:
            f = by_pat.get(pat)
            gp_memo[pat] = _guarded_params(f) if f is not None else set()
        return gp_memo[pat]
    rows = {}
    for pat, fn in sorted(fns.items()):
        if fn["name"] not in READERS or fn.get("body") is None or not fn["params"]:
            continue
        kind = _kind(fn)
        if kind is None:
            continue
        env = triggers.canon_env(fn)
        decls = local_decls(fn)
        # image values: locals initialised by read<>(is) / data[CONST] or filled by copy_from_mem / memcpy
        vals = {}
        order = []

        def src(n):
            if n.get("k") == "Decl":
                for v in n.get("vars", []):
                    ini = strip_all(v.get("init") or {})
                    if ini.get("k") == "Call" and ini.get("cname") in ("read", "read_big_endian"):
                        vals[v["d"]] = v
                        order.append(v["d"])
                    elif ini.get("k") == "Index" and strip_all(ini.get("i") or {}).get("v") is not None and (v.get("t") or "").replace("const ", "") in ("unsigned char", "unsigned short", "unsigned int", "unsigned long"):
                        vals[v["d"]] = v
                        order.append(v["d"])
            if n.get("k") == "Call" and n.get("cname") in ("copy_from_mem", "memcpy"):
                for a in n.get("args", [])[:2]:
                    a = strip_all(a)
                    r = strip_all(a["e"]) if a.get("k") == "Un" and a.get("op") == "&" else a
                    if r.get("k") == "Ref" and r.get("dk") == "local" and r.get("d") in decls and r["d"] not in vals and not (r.get("t") or "").endswith("*"):
                        vals[r["d"]] = decls[r["d"]]
                        order.append(r["d"])
        walk(fn["body"], src)
        if not vals:
            continue
        # derivations: local <- expression over image values
        derived_from = {}
        for d, v in decls.items():
            if d in vals or v.get("init") is None:
                continue
            refs = set()
            walk(v["init"], lambda x: refs.add(x["d"]) if x.get("k") == "Ref" and (x.get("d") in vals or x.get("d") in derived_from) else None)
            if refs:
                derived_from[d] = refs
        validated = set()

        def mark(d):
            if d in vals:
                validated.add(d)
            for s in derived_from.get(d, ()):  # validating a derived value validates its sources
                if s not in validated or s in derived_from:
                    if s in vals:
                        validated.add(s)
                    else:
                        mark(s)

        def g(n):
            if n.get("k") == "If" and always_throws(n.get("t")):
                c = n["c"]
                if "good()" in txt(c) or "fail()" in txt(c):
                    return
                walk(c, lambda x: mark(x["d"]) if x.get("k") == "Ref" and (x.get("d") in vals or x.get("d") in derived_from) else None)
            if n.get("k") == "Call":
                nm = (n.get("cname") or "")
                if nm.lower().startswith(("check", "ensure", "validate")):
                    for a in n.get("args", []):
                        walk(a, lambda x: mark(x["d"]) if x.get("k") == "Ref" and (x.get("d") in vals or x.get("d") in derived_from) else None)
                elif n.get("cpat") and (n.get("callee") or "").startswith("datasketches::"):
                    gp = guarded(n["cpat"])
                    for i, a in enumerate(n.get("args", [])):
                        if i in gp:
                            walk(a, lambda x: mark(x["d"]) if x.get("k") == "Ref" and (x.get("d") in vals or x.get("d") in derived_from) else None)
            if n.get("k") == "Construct" and n.get("cpat") and (n.get("crec") or "").startswith("datasketches::"):
                gp = guarded(n["cpat"])
                for i, a in enumerate(n.get("args", [])):
                    if i in gp:
                        walk(a, lambda x: mark(x["d"]) if x.get("k") == "Ref" and (x.get("d") in vals or x.get("d") in derived_from) else None)
            # a switch / equality dispatch on the value with a throwing default also validates it
            if n.get("k") == "Switch":
                walk(n.get("c") or {}, lambda x: mark(x["d"]) if x.get("k") == "Ref" and x.get("d") in vals else None)
        walk(fn["body"], g)
        # any rejection whose path conditions mention the value validates it: `if (bad(v)) throw`, a switch / if-chain on v
        # falling through to a throw, a guard clause followed by a throw - all put a literal about v into the reach of the throw

        def thr(n):
            if n.get("k") == "Expr" and isinstance(strip(n.get("e")), dict) and strip(n["e"]).get("k") == "Throw":
                for lit in reach(fn["body"], n):
                    t = txt(lit)
                    if "good()" in t or "fail()" in t:
                        continue
                    walk(lit, lambda x: mark(x["d"]) if x.get("k") == "Ref" and (x.get("d") in vals or x.get("d") in derived_from) else None)
        walk(fn["body"], thr)
        # values that are only skipped (never referenced) are padding
        used = {}
        walk(fn["body"], lambda x: used.__setitem__(x["d"], used.get(x["d"], 0) + 1) if x.get("k") == "Ref" and x.get("d") in vals else None)
        # a byte whose every use is a bit test against a constant mask is a set of independent flags: every combination is a
        # flags byte some writer produces (hoisting `data[FLAGS]` into a local must not create an obligation the inline form
        # never had)
        from astu import walkp
        flag_only = {}

        def fu(n, ps):
            if n.get("k") == "Ref" and n.get("d") in vals:
                par = [p for p in ps if isinstance(p, dict) and p.get("k") not in ("Cast", "Paren")]
                p = par[-1] if par else {}
                ok = p.get("k") == "Bin" and p.get("op") == "&" and any(isinstance(strip_all(p[a]), dict) and strip_all(p[a]).get("v") is not None and strip_all(p[a]).get("k") not in ("Call", "OpCall") for a in ("l", "r"))
                flag_only[n["d"]] = flag_only.get(n["d"], True) and ok
        walkp(fn["body"], fu)
        key0 = "%s(%s)" % (short(fn["patq"]), kind)
        for j, d in enumerate(order):
            v = vals[d]
            ident = env.get(d, v["n"])
            rows["%s:%s" % (key0, ident)] = {"name": v["n"], "type": (v.get("t") or "").replace("const ", ""), "validated": d in validated, "uses": used.get(d, 0), "loc": v.get("loc"), "fn": fn["qname"], "flag_only": bool(flag_only.get(d)) and used.get(d, 0) > 0}
    return rows


def obligations(facts):
    free = json.load(open(os.path.join(VERIF, "spec", "fields_free.json")))["free"]
    rows = inventory(facts)
    out = []
    for key, r in sorted(rows.items()):
        k = "field:" + key
        if r["validated"]:
            out.append(ob("reader.field-validated", k, r["loc"], "discharged", "`%s` is validated before the object is built" % r["name"], r["fn"]))
        elif r.get("flag_only") and key not in free:
            out.append(ob("reader.field-validated", k, r["loc"], "info", "`%s`: used only in bit tests against constant masks - a byte of independent flags" % r["name"], r["fn"]))
        elif key in free:
            out.append(ob("reader.field-validated", k, r["loc"], "info", "`%s`: every value is meaningful - %s" % (r["name"], free[key]), r["fn"]))
        else:
            out.append(ob("reader.field-validated", k, r["loc"], "violated", "the image value `%s` (%s) reaches the restored object without any validation - no throwing guard, no check_* call, no validating callee: one corrupted byte configures a sketch that the library's invariants do not describe" % (r["name"], r["type"]), r["fn"]))
    for key in free:
        if key not in rows:
            out.append(ob("reader.field-validated", "field:" + key, "", "unrecognised", "reviewed free field `%s` is no longer read in this form: re-review spec/fields_free.json" % key, ""))
    return out
