"""HLL rules (C03, C04): register max-store discipline, merge loops, nibble decode agreement, successor-local rule,
coupon constants, mode byte inverse; union: refresh discipline (A6), lg_k rule, replace-only-if-empty, take-over guard."""
import json
from astu import single_assignment_locals, C, ctxt, gt_pair, eq_const, reach, reach_txt, ctext, strip, strip_all, walk, walkp, txt, short, is_this_field, field_name, stmts_of, always_throws, functions_by, local_decls
from vlib.core import ob

DERIVED = ("curMin_", "numAtCurMin_", "kxq0_", "kxq1_")


def hll_fns(facts):
    return functions_by(facts, ["hll"])


# ---------------------------------------------------------------------------------------------- C03
def register_stores(facts):
    """every store to an HLL register is a max: either std::max(current, new) or guarded by new > current"""
    fns = hll_fns(facts)
    out = []
    for pat, fn in sorted(fns.items()):
        rect = fn.get("rect") or ""
        if not any(x in rect for x in ("Hll4Array", "Hll6Array", "Hll8Array")) or fn["name"] not in ("internalCouponUpdate", "internalHll4Update", "mergeHll", "processValue"):
            continue
        base = "%s::%s" % (short(rect), fn["name"])
        idx = [0]
        from astu import inlined_body
        from triggers import plainly_assigned_locals
        by_pat = {f["pat"]: f for f in fns.values()}
        fn = dict(fn, body=inlined_body(fn, by_pat, keep=("processValue", "internalCouponUpdate", "internalHll4Update", "putSlot")))
        inl = single_assignment_locals(fn)
        # cursors into the register array: locals initialised from hllByteArr_.data() (stores through `*cursor`)
        cursors = {d for d, v in local_decls(fn).items() if v.get("init") is not None and "hllByteArr_" in txt(v["init"]) and (v.get("t") or "").endswith("*")}

        def is_store(n):
            if n.get("k") == "Assign" and n.get("op") == "=":
                l = strip(n["l"])
                if l.get("k") in ("Index", "OpCall") and "hllByteArr_" in txt(l):
                    return txt(l, inl), n["r"]
                if l.get("k") in ("Un", "OpCall") and l.get("op") == "*":
                    t = strip(l.get("e") or (l.get("args") or [{}])[0])
                    if isinstance(t, dict) and t.get("k") == "Ref" and t.get("d") in cursors:
                        return txt(l), n["r"]
            if n.get("k") == "Call" and n.get("cname") == "putSlot" and len(n.get("args", [])) == 2:
                return "slot(%s)" % txt(n["args"][0], inl), n["args"][1]
            return None

        def visit(n, parents):
            st = is_store(n)
            if not st:
                return
            target, val = st
            key = "%s:store#%d" % (base, idx[0])
            idx[0] += 1
            v = strip_all(val)
            if v.get("k") == "Call" and (v.get("callee") or "").startswith("std::max") and any(txt(a, inl) == target for a in v.get("args", [])):
                out.append(ob("hll.max-store", key, n["loc"], "discharged", "register := max(register, new)", fn["qname"]))
                return
            # `new > cur` is known to hold at the store (nested if, guard clause `if (new <= cur) return;`, && chain alike)
            ok = False
            for g in reach(fn["body"], n):
                gp = gt_pair(g)
                if gp and gp[2]:
                    big, small = txt(gp[0]), txt(gp[1], inl)
                    # the greater side is the new value (a parameter or a value extracted from the coupon); the smaller reads the current slot
                    if ("getSlot(" in small or "hllByteArr_[" in small or "curMin_" in small or "mustFindValueFor" in small) and ("hllByteArr_" not in txt(gp[0], inl) and "getSlot" not in txt(gp[0], inl)):
                        ok = True
            if ok:
                out.append(ob("hll.max-store", key, n["loc"], "discharged", "store is control-dependent on new > current", fn["qname"]))
            else:
                out.append(ob("hll.max-store", key, n["loc"], "violated", "register store `%s = %s` is neither max(current, new) nor guarded by new > current: a smaller value can overwrite a larger one" % (target, txt(val)), fn["qname"]))
        if fn["name"] != "mergeHll" or True:
            walkp(fn["body"], visit)
    return out


def merge_loops(facts):
    """mergeHll: every loop over the source registers folds EVERY slot (no conditional skip inside the loop bodies)"""
    fns = hll_fns(facts)
    out = []
    for pat, fn in sorted(fns.items()):
        if fn["name"] != "mergeHll":
            continue
        base = "%s::mergeHll" % short(fn.get("rect"))
        loops = []
        from astu import inlined_body
        by_pat = {f["pat"]: f for f in fns.values()}
        body = inlined_body(fn, by_pat, keep=("processValue",))   # a private `keep the max` helper is seen through

        def visit(n, parents):
            if n.get("k") in ("RangeFor", "While", "For") and not any(p.get("k") in ("RangeFor", "While", "For") for p in parents):
                loops.append(n)
        walkp(body, visit)
        for i, L in enumerate(loops):
            key = "%s:loop#%d" % (base, i)
            skips = []
            walk(L["b"], lambda n: skips.append(n["k"]) if n.get("k") in ("If", "Continue", "Break", "Cond", "Switch") else None)
            folds = []
            walk(L["b"], lambda n: folds.append(1) if (n.get("k") == "Call" and (n.get("cname") in ("processValue",) or (n.get("callee") or "").startswith("std::max"))) else None)
            # extent: the loop runs over the SOURCE's registers - a range-for over the source array, or a counted loop whose bound
            # comes from the source's lg_k (from this array's own lg_k only where the two are known to be equal)
            ext_bad = None
            if L.get("k") == "For" and L.get("c") is not None:
                from astu import single_assignment_locals
                sal = single_assignment_locals(fn)
                own, foreign, seen_l = [], [], set()

                def bv(x):
                    if x.get("k") == "Call" and x.get("cname") == "getLgConfigK":
                        (own if strip(x.get("obj") or {"k": "This"}).get("k") == "This" else foreign).append(x)
                    if x.get("k") == "Member" and x.get("f") == "lgConfigK_":
                        (own if strip(x.get("b") or {}).get("k") == "This" else foreign).append(x)
                    if x.get("k") == "Ref" and x.get("d") in sal and x.get("d") not in seen_l:
                        seen_l.add(x["d"])
                        walk(sal[x["d"]], bv)
                walk(L["c"], bv)
                if own and not foreign:
                    eq = False
                    for lit in reach(body, L):
                        t = txt(lit).replace(" ", "")
                        if strip(lit).get("k") == "Bin" and strip(lit).get("op") == "==" and t.count("getLgConfigK()") == 2:
                            eq = True
                    if not eq:
                        ext_bad = txt(L["c"], sal)
            if ext_bad:
                out.append(ob("hll.merge-loop", key, L["loc"], "violated", "the merge loop is bounded by `%s`, this array's own size, where the source may be larger: only the first 2^lg_k source registers are folded in, the rest of a larger source is dropped (estimate low by the ratio of the sizes)" % ext_bad, fn["qname"]))
            elif skips:
                out.append(ob("hll.merge-loop", key, L["loc"], "violated", "merge loop body contains %s: some source slots are skipped conditionally (a raw value that looks empty is not empty once curMin > 0)" % "/".join(sorted(set(skips))), fn["qname"]))
            elif not folds:
                out.append(ob("hll.merge-loop", key, L["loc"], "unrecognised", "no max / processValue fold found in the loop body", fn["qname"]))
            else:
                out.append(ob("hll.merge-loop", key, L["loc"], "discharged", "every iteration folds its slot(s) with max (%d folds per iteration), no conditional skip" % len(folds), fn["qname"]))
    return out


def nibble_decode(facts):
    """HLL_4 decoding has exactly two outcomes everywhere: AUX_TOKEN -> exception lookup; otherwise raw + curMin"""
    fns = hll_fns(facts)
    out = []

    def outcomes(stm):
        res = set()

        def v(n):
            if n.get("k") == "Return" and n.get("e") is not None:
                e = strip_all(n["e"])
                t = txt(e)
                if e.get("k") == "Call" and e.get("cname") == "mustFindValueFor":
                    res.add("aux-lookup")
                elif e.get("k") == "Bin" and e.get("op") == "+" and ("curMin_" in t or "offset" in t):
                    res.add("raw+curMin")
                else:
                    res.add("other:" + t)
        walk(stm, v)
        return res
    for pat, fn in sorted(fns.items()):
        rect = fn.get("rect") or ""
        if fn["name"] == "adjustRawValue" and "Hll4Array" in rect:
            key = "Hll4Array::adjustRawValue:outcomes"
            o = outcomes(fn["body"])
        elif fn["name"] == "get_value" and "const_iterator" in rect and "HllArray" in rect:
            key = "HllArray::const_iterator::get_value:HLL_4-outcomes"
            # the return statements reached under `hll_type == HLL_4` (if-chain or switch)
            rets = []
            walk(fn["body"], lambda n: rets.append(n) if n.get("k") == "Return" and n.get("e") is not None else None)
            h4 = [r for r in rets if any("HLL_4" in json.dumps(l) and strip(l).get("op") == "==" for l in reach(fn["body"], r))]
            if not h4:
                out.append(ob("hll.decode", key, fn["pat"], "unrecognised", "HLL_4 branch not found", fn["qname"]))
                continue
            o = set()
            for r in h4:
                o |= outcomes(r)
        else:
            continue
        if o == {"aux-lookup", "raw+curMin"}:
            out.append(ob("hll.decode", key, fn["pat"], "discharged", "outcomes: AUX_TOKEN -> exception lookup; otherwise raw + curMin", fn["qname"]))
        else:
            out.append(ob("hll.decode", key, fn["pat"], "violated", "HLL_4 nibble decoding has outcomes %s; the only valid ones are the exception lookup and raw + curMin (a raw 0 means `equal to curMin`, not empty)" % sorted(o), fn["qname"]))
    return out


def successor_locals(facts, drivers=("hll",)):
    """once `newF = this->F +/- c` has been computed and until `this->F = newF`, the old member must not be read again"""
    fns = functions_by(facts, list(drivers))
    out = []
    for pat, fn in sorted(fns.items()):
        st = stmts_of(fn["body"])
        for i, s in enumerate(st):
            if s.get("k") != "Decl":
                continue
            for v in s.get("vars", []):
                ini = strip_all(v.get("init")) if v.get("init") is not None else None
                if not (isinstance(ini, dict) and ini.get("k") == "Bin" and ini.get("op") in ("+", "-") and is_this_field(ini["l"]) and "v" in strip(ini["r"])):
                    continue
                f = field_name(ini["l"])
                # find the statement that stores the local back into the field
                store_at = None
                for j in range(i + 1, len(st)):
                    hit = [False]

                    def vs(n):
                        if n.get("k") == "Assign" and n.get("op") == "=" and is_this_field(n["l"], (f,)) and strip_all(n["r"]).get("k") == "Ref" and strip_all(n["r"]).get("d") == v["d"]:
                            hit[0] = True
                    walk(st[j], vs)
                    if hit[0]:
                        store_at = j
                        break
                if store_at is None:
                    continue
                reads = []
                for j in range(i + 1, store_at):
                    walkp(st[j], lambda n, ps: reads.append(n) if is_this_field(n, (f,)) and not (ps and ps[-1].get("k") == "Assign" and ps[-1].get("l") is n) else None)
                key = "%s:%s-after-%s" % (short(fn["patq"]), f, v["n"])
                if reads:
                    out.append(ob("hll.successor", key, reads[0]["loc"], "violated", "member `%s` is read after its successor `%s` was computed and before it is stored back: the stale value is used where the new one is meant" % (f, v["n"]), fn["qname"]))
                else:
                    out.append(ob("hll.successor", key, v["loc"], "discharged", "`%s` is not read between computing `%s` and storing it back" % (f, v["n"]), fn["qname"]))
    return out


def coupon_constants(facts):
    """pair / getLow26 / getValue / coupon use one key width: mask == (1 << bits) - 1, same shift both ways"""
    fns = hll_fns(facts)
    out = []
    vals = {}
    for pat, fn in fns.items():
        if not (fn.get("rect") or "").endswith("HllUtil"):
            continue
        if fn["name"] in ("pair", "getLow26", "getValue"):
            consts = []
            walk(fn["body"], lambda n: consts.append((n.get("op"), strip(n["r"]).get("v"))) if n.get("k") == "Bin" and n.get("op") in ("<<", ">>", "&") and "v" in strip(n["r"]) else None)
            vals[fn["name"]] = (fn, consts)
    need = ("pair", "getLow26", "getValue")
    if not all(n in vals for n in need):
        return [ob("hll.coupon", "HllUtil:coupon-codec", "hll/include/HllUtil.hpp", "unrecognised", "pair/getLow26/getValue not all found", "")]
    shl = [c for o, c in vals["pair"][1] if o == "<<"]
    pmask = [c for o, c in vals["pair"][1] if o == "&"]
    lmask = [c for o, c in vals["getLow26"][1] if o == "&"]
    shr = [c for o, c in vals["getValue"][1] if o == ">>"]
    fn = vals["pair"][0]
    problems = []
    if not (shl and shr and shl[0] == shr[0]):
        problems.append("pair shifts the value left by %s but getValue shifts right by %s" % (shl, shr))
    if not (pmask and lmask and pmask[0] == lmask[0]):
        problems.append("pair masks the slot with %s but getLow26 masks with %s" % (pmask, lmask))
    if shl and lmask and lmask[0] != (1 << shl[0]) - 1:
        problems.append("slot mask %s is not (1 << %s) - 1" % (lmask[0], shl[0]))
    if problems:
        out.append(ob("hll.coupon", "HllUtil:coupon-codec", fn["pat"], "violated", "; ".join(problems), fn["qname"]))
    else:
        out.append(ob("hll.coupon", "HllUtil:coupon-codec", fn["pat"], "discharged", "value << %d | slot & %#x; getLow26 & %#x; getValue >> %d" % (shl[0], pmask[0], lmask[0], shr[0]), fn["qname"]))
    return out


def mode_byte(facts):
    """makeModeByte and extractCurMode / extractTgtHllType are mutual inverses (evaluated switch tables)"""
    fns = hll_fns(facts)
    out = []
    tabs = {}
    for pat, fn in fns.items():
        if not (fn.get("rect") or "").endswith("HllSketchImpl") or fn["name"] not in ("makeModeByte", "extractCurMode", "extractTgtHllType"):
            continue
        sw = []
        walk(fn["body"], lambda n: sw.append(n) if n.get("k") == "Switch" else None)
        tables = []
        for s in sw:
            t = {}
            cur = [None]

            def v(n):
                if n.get("k") == "Case":
                    cur[0] = strip(n["v"]).get("v")
                    walk(n["s"], v2)
                    return
            def v2(n):
                if n.get("k") == "Return" and n.get("e") is not None and "v" in strip(n["e"]):
                    t[cur[0]] = strip(n["e"])["v"]
                if n.get("k") == "Assign" and "v" in strip(n["r"]):
                    t[cur[0]] = (n.get("op"), strip(n["r"])["v"])
            body = s["b"]
            for c in stmts_of(body):
                if c.get("k") == "Case":
                    cur[0] = strip(c["v"]).get("v")
                    walk(c["s"], v2)
                elif cur[0] is not None:
                    walk(c, v2)
            tables.append((txt(s["c"]), t))
        tabs[fn["name"]] = (fn, tables)
    if len(tabs) < 3:
        return [ob("hll.mode-byte", "HllSketchImpl:mode-byte", "hll/include/HllSketchImpl-internal.hpp", "unrecognised", "mode byte functions not all found", "")]
    mk = tabs["makeModeByte"][1]
    fn = tabs["makeModeByte"][0]
    problems = []
    try:
        mode_enc = {k: (v[1] if isinstance(v, tuple) else v) for k, v in mk[0][1].items()}     # mode enum -> low bits
        type_enc = {k: (v[1] if isinstance(v, tuple) else v) for k, v in mk[1][1].items()}     # type enum -> bits (already shifted or |=)
        mode_dec = tabs["extractCurMode"][1][0][1]      # low bits -> mode enum
        type_dec = tabs["extractTgtHllType"][1][0][1]   # (byte>>2)&3 -> type enum
        for m, bits in mode_enc.items():
            if mode_dec.get(bits & 3) != m:
                problems.append("mode %s encodes to %s which decodes to %s" % (m, bits, mode_dec.get(bits & 3)))
        for t, bits in type_enc.items():
            if type_dec.get((bits >> 2) & 3) != t:
                problems.append("type %s encodes to %s which decodes to %s" % (t, bits, type_dec.get((bits >> 2) & 3)))
        if len(mode_enc) != 3 or len(type_enc) != 3:
            problems.append("expected 3 modes and 3 types, found %d and %d" % (len(mode_enc), len(type_enc)))
    except Exception as ex:  # shape not understood
        return [ob("hll.mode-byte", "HllSketchImpl:mode-byte", fn["pat"], "unrecognised", "switch tables not in the expected shape (%s)" % ex, fn["qname"])]
    if problems:
        out.append(ob("hll.mode-byte", "HllSketchImpl:mode-byte", fn["pat"], "violated", "; ".join(problems), fn["qname"]))
    else:
        out.append(ob("hll.mode-byte", "HllSketchImpl:mode-byte", fn["pat"], "discharged", "makeModeByte and extractCurMode/extractTgtHllType are inverse on all 3 modes x 3 types", fn["qname"]))
    return out


# ---------------------------------------------------------------------------------------------- C04
class Effects:
    """transitive field-read sets over the resolved call graph, with virtual dispatch over same-named overriders"""

    def __init__(self, fns):
        self.by_pat = fns
        self.by_name = {}
        for fn in fns.values():
            if fn.get("rect"):
                self.by_name.setdefault((fn["name"], len(fn["params"])), []).append(fn)
        self.direct = {}
        for pat, fn in fns.items():
            reads, calls = set(), []

            def visit(n):
                if n.get("k") == "Member" and n.get("isfield"):
                    reads.add(n["f"])
                if n.get("k") in ("Call", "OpCall") and n.get("cpat"):
                    calls.append(n)
            walk(fn["body"], visit)
            walk(fn.get("inits", []), visit)
            self.direct[pat] = (reads, calls)
        self.memo = {}

    def targets(self, call):
        res = []
        cp = call.get("cpat")
        if cp in self.by_pat:
            res.append(cp)
        if call.get("cvirtual"):
            for fn in self.by_name.get((call.get("cname"), len(call.get("args", []))), []):
                if fn["pat"] not in res and fn.get("virtual"):
                    res.append(fn["pat"])
        return res

    def reads(self, pat, stack=()):
        if pat in self.memo:
            return self.memo[pat]
        if pat in stack or pat not in self.direct:
            return set()
        r, calls = self.direct[pat]
        R = set(r)
        for c in calls:
            for t in self.targets(c):
                R |= self.reads(t, stack + (pat,))
        if not stack:
            self.memo[pat] = R
        return R


def is_refresh_stmt(s, by_pat=None, depth=0):
    """`X->check_rebuild_kxq_cur_min()` possibly under `if (X->getCurMode() == HLL)`; or a call of a member of the same class
    whose own top-level statements contain such a statement (a wrapper that refreshes on all its paths)"""
    if by_pat is not None and depth < 2 and s.get("k") == "Expr" and isinstance(strip(s.get("e")), dict) and strip(s["e"]).get("k") == "Call":
        c = strip(s["e"])
        cal = by_pat.get(c.get("cpat"))
        if cal is not None and cal.get("body") is not None and c.get("cname") != "check_rebuild_kxq_cur_min" and (c.get("obj") is None or strip(c["obj"]).get("k") == "This"):
            if any(is_refresh_stmt(x, by_pat, depth + 1) for x in stmts_of(cal["body"])):
                return True
    hit = [False]
    walk(s, lambda n: hit.__setitem__(0, True) if n.get("k") == "Call" and n.get("cname") == "check_rebuild_kxq_cur_min" else None)
    if not hit[0]:
        return False
    if s.get("k") == "Expr":
        return True
    if s.get("k") == "If" and not s.get("e"):
        c = txt(s["c"])
        return "getCurMode()" in c and "HLL" in json.dumps(s["c"]) and "==" in c
    return False


def union_refresh(facts):
    fns = hll_fns(facts)
    E = Effects(fns)
    out = []
    refreshers = {p for p, f in fns.items() if f["name"] == "check_rebuild_kxq_cur_min"}
    by_pat = {f["pat"]: f for f in fns.values()}
    replay = {p for p, f in fns.items() if f["name"] in ("copyAs",)}
    for pat, fn in sorted(fns.items()):
        if fn.get("rect") != "datasketches::hll_union_alloc" or fn["kind"] in ("ctor", "dtor"):
            continue
        st = stmts_of(fn["body"])
        refreshed_at = None
        idx = [0]
        for i, s in enumerate(st):
            if refreshed_at is None and is_refresh_stmt(s, by_pat):
                refreshed_at = i
            obs_calls = []

            def visit(n):
                if n.get("k") != "Call" or not n.get("cpat"):
                    return
                recv = txt(n["obj"]) if n.get("obj") is not None else ""
                if not (recv.startswith("gadget_") or recv.startswith("dst_impl") or (recv == "" and (n.get("crec") or "").endswith("hll_union_alloc"))):
                    return
                tg = [t for t in E.targets(n) if t not in refreshers and t not in replay]
                if recv == "" and n.get("cname") != "is_empty":
                    return
                reads = set()
                for t in tg:
                    # observers only: const member functions
                    if fns[t].get("const"):
                        reads |= E.reads(t)
                if reads & set(DERIVED):
                    obs_calls.append((n, sorted(reads & set(DERIVED))))
            walk(s, visit)
            for n, rd in obs_calls:
                key = "hll_union_alloc::%s:observer#%d" % (fn["name"], idx[0])
                idx[0] += 1
                self_refreshing = (n.get("obj") is None or txt(n["obj"]) == "") and n.get("cname") == "is_empty"
                if self_refreshing or (refreshed_at is not None and refreshed_at < i):
                    out.append(ob("hll.refresh", key, n["loc"], "discharged", "%s reads %s of the gadget after check_rebuild_kxq_cur_min()" % (n.get("cname"), "/".join(rd)), fn["qname"]))
                else:
                    out.append(ob("hll.refresh", key, n["loc"], "violated", "%s reads derived state (%s) of the gadget with no preceding check_rebuild_kxq_cur_min(): after a merge the values are stale (e.g. is_empty() true for a non-empty union)" % (n.get("cname"), "/".join(rd)), fn["qname"]))
    # copy_or_downsample: mergeHll into a fresh array must be followed by the refresher before the array is returned
    for pat, fn in sorted(fns.items()):
        if fn.get("rect") == "datasketches::hll_union_alloc" and fn["name"] in downsamplers(fns):
            st = stmts_of(fn["body"])
            m, r = None, None
            for i, s in enumerate(st):
                t = txt(s.get("e")) if s.get("k") == "Expr" else ""
                if "mergeHll(" in t and m is None:
                    m = i
                if "check_rebuild_kxq_cur_min()" in t and m is not None and r is None:
                    r = i
            key = "hll_union_alloc::copy_or_downsample:refresh-after-merge"
            if m is not None and r is not None and r > m:
                out.append(ob("hll.refresh", key, fn["pat"], "discharged", "the down-sampled array is refreshed after mergeHll before it becomes the gadget", fn["qname"]))
            elif m is not None:
                out.append(ob("hll.refresh", key, fn["pat"], "violated", "the down-sampled array is returned dirty after mergeHll (numAtCurMin/curMin stale): emptiness tests on the new gadget read stale state", fn["qname"]))
    return out


def downsamplers(fns):
    """names of the hll_union_alloc helpers that produce the HLL_8 copy / down-sampled copy of an implementation object, recognised
    by what they do (every return is `x->copyAs(HLL_8)` or a local declared as Hll8Array*; the body merges with mergeHll), not by
    what they are called"""
    names = set()
    for fn in fns.values():
        if fn.get("rect") != "datasketches::hll_union_alloc" or fn.get("body") is None or "HllSketchImpl" not in (fn.get("ret") or ""):
            continue
        calls, rets = [], []
        walk(fn["body"], lambda n: calls.append(n.get("cname")) if n.get("k") == "Call" else None)
        walk(fn["body"], lambda n: rets.append(n) if n.get("k") == "Return" and n.get("e") is not None else None)
        if "mergeHll" not in calls or "copyAs" not in calls or not rets or fn["name"] == "union_impl":
            continue
        good = True
        for r in rets:
            e = strip_all(r["e"])
            t = txt(e)
            if e.get("k") == "Call" and e.get("cname") == "copyAs" and ("HLL_8" in t or t.endswith("(2)")):
                continue
            if e.get("k") == "Ref" and "Hll8Array" in (e.get("t") or ""):
                continue
            good = False
        if good:
            names.add(fn["name"])
    return names or {"copy_or_downsample"}


def union_lgk(facts):
    """HLL x HLL merge: a destination with larger lg_k is down-sampled to the source's lg_k before mergeHll"""
    fns = hll_fns(facts)
    out = []
    for pat, fn in sorted(fns.items()):
        if fn.get("rect") != "datasketches::hll_union_alloc" or fn["name"] != "union_impl":
            continue
        idx = [0]
        dsn = downsamplers(fns)

        def visit(n, parents):
            if n.get("k") == "Call" and n.get("cname") == "mergeHll":
                key = "hll_union_alloc::union_impl:mergeHll#%d" % idx[0]
                idx[0] += 1
                blk = None
                for p in reversed(parents):
                    if p.get("k") == "Block":
                        blk = p
                        break
                ok = False
                why = ""
                if blk:
                    for s in blk["s"]:
                        found = [False]
                        walk(s, lambda x: found.__setitem__(0, True) if x is n else None)
                        if found[0]:
                            break
                        if s.get("k") == "If":
                            c = strip(s["c"])
                            if c.get("k") == "Bin" and c.get("op") in ("<", ">") and "getLgConfigK()" in txt(c["l"]) and "getLgConfigK()" in txt(c["r"]):
                                small, big = (c["l"], c["r"]) if c["op"] == "<" else (c["r"], c["l"])
                                if txt(small).startswith("src") and txt(big).startswith("dst"):
                                    ds = []
                                    walk(s["t"], lambda x: ds.append(x) if x.get("k") == "Call" and x.get("cname") in dsn else None)
                                    if ds and txt(ds[0]["args"][0]).startswith("dst") and ("lg_config_k" in txt(ds[0]["args"][1]).lower() or "lgconfigk" in txt(ds[0]["args"][1]).lower()):
                                        ok = True
                                        why = "if (%s) dst = copy_or_downsample(%s, %s)" % (txt(c), txt(ds[0]["args"][0]), txt(ds[0]["args"][1]))
                if ok:
                    out.append(ob("hll.union-lgk", key, n["loc"], "discharged", why + " precedes mergeHll", fn["qname"]))
                else:
                    out.append(ob("hll.union-lgk", key, n["loc"], "violated", "mergeHll into the gadget is not preceded by down-sampling the gadget when the source has the smaller lg_k: registers of a higher-precision gadget would be merged with lower-precision slots", fn["qname"]))
        walkp(fn["body"], visit)
    return out


def union_replace(facts):
    """the gadget is replaced by (a copy of) the input only when it is empty, or the old content is merged into the new gadget"""
    fns = hll_fns(facts)
    out = []
    for pat, fn in sorted(fns.items()):
        if fn.get("rect") != "datasketches::hll_union_alloc":
            continue
        if fn["name"] == "union_impl":
            idx = [0]

            def visit(n, parents):
                if n.get("k") == "Assign" and n.get("op") == "=" and txt(n["l"]) == "dst_impl":
                    r = txt(n["r"])
                    if "src_impl" not in r or "dst_impl" in r:
                        return
                    key = "hll_union_alloc::union_impl:replace#%d" % idx[0]
                    idx[0] += 1
                    # the literals known to hold at the assignment (nesting, guard clauses, else branches, named conditions alike)
                    conds = [txt(l).replace(" ", "") for l in reach(fn["body"], n)]
                    empty = any(c in ("dst_impl.isEmpty()", "gadget_.sketch_impl.isEmpty()") for c in conds)
                    conds = conds or ["(unconditional)"]
                    merged = False
                    blk = None
                    for p in reversed(parents):
                        if p.get("k") == "Block":
                            blk = p
                            break
                    if blk:
                        after = False
                        for s in blk["s"]:
                            f = [False]
                            walk(s, lambda x: f.__setitem__(0, True) if x is n else None)
                            if f[0]:
                                after = True
                                continue
                            if after and ("mergeList(" in txt(s.get("e") or {}) or "mergeHll(" in txt(s.get("e") or {})):
                                merged = True
                    if empty:
                        out.append(ob("hll.union-replace", key, n["loc"], "discharged", "gadget replaced by a copy of the input only under dst_impl->isEmpty() (%s)" % conds[-1][:80], fn["qname"]))
                    elif merged:
                        out.append(ob("hll.union-replace", key, n["loc"], "discharged", "new gadget built from the input and the old gadget content merged into it", fn["qname"]))
                    else:
                        out.append(ob("hll.union-replace", key, n["loc"], "violated", "the gadget is replaced by `%s` on a path where it may be non-empty and its content is not merged: everything offered before is lost" % r, fn["qname"]))
            walkp(fn["body"], visit)
        if fn["name"] == "update" and fn["params"] and fn["params"][0]["t"].endswith("&&"):
            # take-over of an rvalue sketch
            def visit2(n, parents):
                if n.get("k") in ("OpCall", "Assign") and n.get("op") == "=":
                    a = n.get("args") or [n.get("l"), n.get("r")]
                    if txt(a[0]) == "gadget_":
                        conds = []
                        cnodes = []
                        chain = list(parents) + [n]
                        for i, p in enumerate(chain[:-1]):
                            if p.get("k") == "If" and p.get("t") is chain[i + 1]:
                                conds += [x.strip() for x in split_and(p["c"])]
                                cnodes += split_and_nodes(p["c"])
                        key = "hll_union_alloc::update(&&):take-over"
                        need = {
                            "union empty (refreshed)": lambda c: c in ("is_empty()",),
                            "input is HLL_8": lambda c: "get_target_type()" in c and "==" in c and "HLL_8" in c.upper() or c.endswith("==2)") and "get_target_type" in c,
                            "input lg_k <= lg_max_k": lambda c: any(g and not g[2] and "lg_max_k_" in txt(g[0]) and "get_lg_config_k()" in txt(g[1]) for g in [gt_pair(x) for x in cnodes if txt(x).strip() == c]),
                            "input in HLL mode or lg_k == lg_max_k": lambda c: "||" in c and "get_current_mode()" in c and "get_lg_config_k()" in c and "==" in c,
                        }
                        missing = [k for k, f in need.items() if not any(f(c) for c in conds)]
                        if not missing:
                            out.append(ob("hll.union-replace", key, n["loc"], "discharged", "rvalue take-over guarded by: " + "; ".join(need), fn["qname"]))
                        else:
                            out.append(ob("hll.union-replace", key, n["loc"], "violated", "the rvalue input replaces the gadget without the guard(s): %s (guards present: %s): e.g. a LIST-mode sketch with smaller lg_k would silently lower the union's lg_k" % ("; ".join(missing), conds), fn["qname"]))
            walkp(fn["body"], visit2)
    return out


def split_and_nodes(c):
    c = strip(c)
    if isinstance(c, dict) and c.get("k") == "Bin" and c.get("op") == "&&":
        return split_and_nodes(c["l"]) + split_and_nodes(c["r"])
    return [c]


def split_and(c):
    c = strip(c)
    if isinstance(c, dict) and c.get("k") == "Bin" and c.get("op") == "&&":
        return split_and(c["l"]) + split_and(c["r"])
    return [txt(c)]


def union_reset(facts):
    """reset() puts the union back into the state its constructor establishes (same gadget parameters)"""
    fns = hll_fns(facts)
    out = []
    ctor, reset = None, None
    for pat, fn in fns.items():
        if fn.get("rect") == "datasketches::hll_union_alloc":
            if fn["kind"] == "ctor" and not fn.get("special") and ctor is None:
                ctor = fn
            if fn["name"] == "reset":
                reset = fn
    key = "hll_union_alloc::reset:restores-constructed-gadget"
    if ctor is None or reset is None:
        return [ob("hll.union-reset", key, "hll/include/HllUnion-internal.hpp", "unrecognised", "constructor or reset() of hll_union_alloc not found", "")]
    # parameter -> field it is stored in (possibly through a validating call such as checkLgK(p))
    stored = {}
    ginit = None
    for i in ctor.get("inits", []):
        if "field" not in i:
            continue
        x = strip_all(i["e"])
        if isinstance(x, dict) and x.get("k") == "Call" and len(x.get("args", [])) == 1:
            x = strip_all(x["args"][0])
        if isinstance(x, dict) and x.get("k") == "Ref" and x.get("dk") == "param":
            stored[x["d"]] = i["field"]
        if i["field"] == "gadget_":
            ginit = i["e"]

    def argkeys(c, inl):
        c = strip_all(c)
        while isinstance(c, dict) and c.get("k") == "Construct" and len(c.get("args", [])) == 1 and c.get("ckind") in ("copy", "move"):
            c = strip_all(c["args"][0])
        if not (isinstance(c, dict) and c.get("k") == "Construct"):
            return None
        ks = []
        for a in c.get("args", [])[:3]:
            a0 = strip_all(a)
            if a0.get("k") == "Ref" and a0.get("d") in inl:
                ks.append(inl[a0["d"]])
            else:
                ks.append(txt(a0))
        return ks
    want = argkeys(ginit, stored) if ginit is not None else None
    got = None
    site = reset["pat"]

    def v(n):
        nonlocal got, site
        if n.get("k") in ("OpCall", "Assign") and n.get("op") == "=":
            a = n.get("args") or [n.get("l"), n.get("r")]
            if txt(a[0]) == "gadget_":
                got = argkeys(a[1], {})
                site = n.get("loc", site)
    walk(reset["body"], v)
    if want is None:
        return [ob("hll.union-reset", key, ctor["pat"], "unrecognised", "constructor does not initialise gadget_ by construction", ctor["qname"])]
    if got == want:
        out.append(ob("hll.union-reset", key, site, "discharged", "reset() rebuilds the gadget with (%s), as the constructor does" % ", ".join(want), reset["qname"]))
    else:
        out.append(ob("hll.union-reset", key, site, "violated", "reset() does not rebuild the gadget with the constructor's parameters (%s)%s: a gadget that was down-sampled keeps its reduced lg_k, so later raw updates yield a result below lg_max_k" % (", ".join(want), "" if got is None else "; it uses (%s)" % ", ".join(got)), reset["qname"]))
    return out


def estimator_operands(facts):
    """hipAndKxQIncrementalUpdate(old, new) is called with the very value the enclosing `new > old` decision was made on"""
    fns = hll_fns(facts)
    out = []
    for pat, fn in sorted(fns.items()):
        idx = [0]

        def visit(n, parents):
            if n.get("k") == "Call" and n.get("cname") == "hipAndKxQIncrementalUpdate" and len(n.get("args", [])) == 2:
                key = "%s:estimator-update#%d" % (short(fn["patq"]), idx[0])
                idx[0] += 1
                old, new = txt(n["args"][0]), txt(n["args"][1])
                guard = None
                # the innermost `new > x` known to hold at the call (nested if or guard clause `if (new <= x) return;`)
                for lit in reversed(reach(fn["body"], n)):
                    gp = gt_pair(lit)
                    if gp and gp[2] and txt(gp[0]) == new:
                        guard = {"r": gp[1]}
                        break
                if guard is None:
                    out.append(ob("hll.estimator-operand", key, n["loc"], "violated", "the incremental estimator update is not guarded by `%s > <old value>`" % new, fn["qname"]))
                elif txt(guard["r"]) == old:
                    out.append(ob("hll.estimator-operand", key, n["loc"], "discharged", "estimator updated with (%s, %s), the operands of the guarding comparison" % (old, new), fn["qname"]))
                else:
                    out.append(ob("hll.estimator-operand", key, n["loc"], "violated", "the register is updated because `%s > %s`, but the estimator is updated as if the old value were `%s`: KxQ / HIP registers drift away from the register array (for HLL_4 the two differ exactly for aux exceptions)" % (new, txt(guard["r"]), old), fn["qname"]))
        walkp(fn["body"], visit)
    return out


def probe_extent(facts, drivers=("hll", "theta", "tuple")):
    """a (pointer, lg_size) pair handed to a probing helper is consistent: the array was sized `1 << lg_size`
    (evaluated symbolically along the straight-line prefix of the caller, honouring ++/-- side effects)"""
    from poly import Poly
    fns = functions_by(facts, list(drivers))
    # helpers: static functions with (T* arr, uintN lg, ...) that compute a mask (1 << lg) - 1
    helpers = {}
    for pat, fn in fns.items():
        ps = fn["params"]
        if len(ps) >= 2 and ps[0]["t"].endswith("*") and ps[1]["t"] in ("unsigned char", "unsigned int", "int"):
            has_mask = [False]

            def v(n):
                if n.get("k") == "Bin" and n.get("op") == "<<" and strip(n["r"]).get("k") == "Ref" and strip(n["r"]).get("d") == ps[1]["d"] and strip(n["l"]).get("v") == 1:
                    has_mask[0] = True
            walk(fn["body"], v)
            if has_mask[0]:
                helpers[pat] = fn
    out = []
    for pat, fn in sorted(fns.items()):
        env = {}      # decl id / ("field", name) -> Poly (as a log2 size) or ("pow2", Poly)
        sizes = {}    # decl id of a local array -> Poly lg of its length
        idx = [0]

        def sym(e):
            e = strip(e)
            if e.get("k") == "Member" and e.get("isfield") and strip(e["b"]).get("k") == "This":
                return ("field", e["f"])
            if e.get("k") == "Ref":
                return e["d"]
            return None

        def ev(e):
            """returns Poly value (plain integer expression) or ("pow2", Poly) or None; applies ++/-- side effects"""
            e = strip_all(e)
            if not isinstance(e, dict):
                return None
            if "v" in e and e.get("k") not in ("Call", "Assign", "Un"):
                return Poly.const(e["v"])
            k = e.get("k")
            if k in ("Ref", "Member"):
                s = sym(e)
                if s is None:
                    return None
                if s not in env:
                    env[s] = Poly.sym(str(s))
                return env[s]
            if k == "Un" and e.get("op") in ("++", "--"):
                s = sym(e["e"])
                cur = ev(e["e"])
                if s is None or not isinstance(cur, Poly):
                    return None
                new = cur + (1 if e["op"] == "++" else -1)
                env[s] = new
                return cur if e.get("post") else new
            if k == "Bin":
                if e["op"] == "<<":
                    l, r = ev(e["l"]), ev(e["r"])
                    if isinstance(l, Poly) and l == Poly.const(1) and isinstance(r, Poly):
                        return ("pow2", r)
                    return None
                l, r = ev(e["l"]), ev(e["r"])
                if isinstance(l, Poly) and isinstance(r, Poly):
                    if e["op"] == "+":
                        return l + r
                    if e["op"] == "-":
                        return l - r
                return None
            return None

        def scan(stmts):
            for s in stmts:
                k = s.get("k")
                if k == "Decl":
                    for v in s.get("vars", []):
                        ini = v.get("init")
                        if ini is None:
                            continue
                        i0 = strip_all(ini)
                        # array locals: vector(n, ...) / allocate(n)
                        n_arg = None
                        if i0.get("k") == "Construct" and "vector" in (i0.get("crec") or "") and i0.get("args"):
                            n_arg = i0["args"][0]
                        elif i0.get("k") == "Call" and i0.get("cname") == "allocate" and i0.get("args"):
                            n_arg = i0["args"][0]
                        if n_arg is not None:
                            val = ev(n_arg)
                            if isinstance(val, tuple):
                                sizes[v["d"]] = val[1]
                            continue
                        val = ev(ini)
                        if val is not None:
                            env[v["d"]] = val
                elif k == "Expr":
                    e = strip(s["e"])
                    if e.get("k") == "Assign" and e.get("op") == "=":
                        val = ev(e["r"])
                        t = sym(e["l"])
                        if t is not None and val is not None:
                            env[t] = val
                        check_calls(e)
                    else:
                        ev(e)
                        check_calls(e)
                elif k in ("For", "RangeFor", "While"):
                    check_calls(s)      # calls inside loops see the environment established before the loop
                elif k == "If":
                    check_calls(s)
                elif k == "Block":
                    scan(s.get("s", []))

        def check_calls(node):
            def v(n):
                if n.get("k") == "Call" and n.get("cpat") in helpers and len(n.get("args", [])) >= 2:
                    a0 = strip_all(n["args"][0])
                    arr = None
                    if a0.get("k") == "Call" and a0.get("cname") == "data" and a0.get("obj") is not None:
                        arr = strip(a0["obj"])
                    elif a0.get("k") == "Ref":
                        arr = a0
                    if arr is None or arr.get("k") != "Ref" or arr.get("d") not in sizes:
                        return
                    lg = ev(n["args"][1])
                    if isinstance(lg, tuple) or lg is None:
                        return
                    key = "%s:probe-extent#%d" % (short(fn["patq"]), idx[0])
                    idx[0] += 1
                    want = sizes[arr["d"]]
                    if lg == want:
                        out.append(ob("probe.extent", key, n["loc"], "discharged", "%s(%s, lg) is called with lg == log2 of the array's length" % (n.get("cname"), arr["n"]), fn["qname"]))
                    else:
                        out.append(ob("probe.extent", key, n["loc"], "violated", "`%s` was sized 1 << (%r) but %s() probes it with lg size %r: entries are placed with a mask of the wrong width and cannot be found again with the array's real size" % (arr["n"], want, n.get("cname"), lg), fn["qname"]))
            walk(node, v)
        if fn.get("body"):
            scan(stmts_of(fn["body"]))
    return out


def own_size_masks(facts):
    """a slot mask used to address this array's registers is derived from THIS array's lg_k"""
    fns = hll_fns(facts)
    out = []
    for pat, fn in sorted(fns.items()):
        rect = fn.get("rect") or ""
        if not any(x in rect for x in ("Hll4Array", "Hll6Array", "Hll8Array")):
            continue
        decls = local_decls(fn)
        idx = [0]

        def visit(n):
            if n.get("k") == "Call" and n.get("cname") == "processValue" and len(n.get("args", [])) == 3:
                m = strip_all(n["args"][1])
                key = "%s:register-mask#%d" % (short(fn["patq"]), idx[0])
                idx[0] += 1
                ini = decls.get(m.get("d"), {}).get("init") if m.get("k") == "Ref" else m
                t = txt(ini) if ini is not None else "?"
                own = False
                foreign = []
                from astu import single_assignment_locals
                sal = single_assignment_locals(fn)
                seen_l = set()

                def v(x):
                    nonlocal own
                    if x.get("k") == "Call" and x.get("cname") == "getLgConfigK":
                        o = strip(x.get("obj") or {})
                        if o.get("k") == "This":
                            own = True
                        else:
                            foreign.append(txt(o))
                    if x.get("k") == "Member" and x.get("f") == "lgConfigK_" and strip(x["b"]).get("k") == "This":
                        own = True
                    if x.get("k") == "Ref" and x.get("d") in sal and x.get("d") not in seen_l:
                        seen_l.add(x["d"])        # `k = 1 << getLgConfigK(); mask = k - 1`: read through hoisted locals
                        walk(sal[x["d"]], v)
                if ini is not None:
                    walk(ini, v)
                if own and not foreign:
                    out.append(ob("hll.own-mask", key, n["loc"], "discharged", "register mask `%s` is derived from this array's lg_k" % t, fn["qname"]))
                else:
                    out.append(ob("hll.own-mask", key, n["loc"], "violated", "registers of this array are addressed with the mask `%s`, derived from %s instead of this array's own lg_k: slots beyond 2^lg_k are written past the end of the register array / folded to the wrong slot" % (t, "`%s`'s lg_k" % foreign[0] if foreign else "something else"), fn["qname"]))
        walk(fn["body"], visit)
    return out


def union_gadget_type(facts):
    """every implementation object that becomes the union's gadget was produced as HLL_8 (the merges downcast it to Hll8Array)"""
    fns = hll_fns(facts)
    out = []
    ok_sources = ("copyAs(HLL_8)", "copyAs(2)", "copy_or_downsample(", "leak_free_coupon_update(", "gadget_.sketch_impl", "coupon_update(", "couponUpdate(")
    ok_sources = tuple(x for x in ok_sources if x != "copy_or_downsample(") + tuple(n + "(" for n in downsamplers(fns))
    for pat, fn in sorted(fns.items()):
        if fn.get("rect") != "datasketches::hll_union_alloc" or fn["name"] != "union_impl":
            continue
        idx = [0]
        from triggers import plainly_assigned_locals
        pa_vals = plainly_assigned_locals(fn)
        casts = [0]
        walk(fn["body"], lambda n: casts.__setitem__(0, casts[0] + 1) if n.get("k") == "Cast" and "Hll8Array" in (n.get("t") or "") and not n.get("impl") else None)

        def v(n):
            if n.get("k") == "Assign" and n.get("op") == "=" and txt(n["l"]) == "dst_impl":
                r = txt(n["r"])
                # a local that only ever holds the result of one producer reads as that producer (helper inlined at the call site)
                rr = strip_all(n["r"])
                if rr.get("k") == "Ref" and rr.get("d") in pa_vals:
                    r = " | ".join(txt(v) for v in pa_vals[rr["d"]])
                key = "hll_union_alloc::union_impl:gadget-type#%d" % idx[0]
                idx[0] += 1
                if any(s in r for s in ok_sources):
                    out.append(ob("hll.gadget-type", key, n["loc"], "discharged", "dst_impl = %s (HLL_8 by construction)" % r[:80], fn["qname"]))
                else:
                    out.append(ob("hll.gadget-type", key, n["loc"], "violated", "the new gadget is produced by `%s`, which keeps the source's target type; %d places in union_impl downcast the gadget to Hll8Array (mergeHll/mergeList/putHipAccum): an HLL_4/HLL_6 gadget is then treated as HLL_8 (register corruption, heap overflow)" % (r[:80], casts[0]), fn["qname"]))
        walk(fn["body"], v)
    return out


def coupon_identity(facts):
    """LIST and SET are two containers for one set of coupons; 'already present' must mean the same in both: the element loaded from
    the array equals the WHOLE new coupon (address and value).  A test on a part of the coupon (its 26-bit address) drops a coupon
    whose slot is already present with a smaller value, so the retained content depends on arrival order and on the container."""
    fs = hll_fns(facts)
    out = []
    for pat, fn in sorted(fs.items()):
        is_list = fn.get("rect") == "datasketches::CouponList" and fn["name"] == "couponUpdate"
        is_set = fn["name"] == "find" and "CouponHashSet" in fn["pat"] and len(fn["params"]) == 3
        if not (is_list or is_set):
            continue
        cp = [p for p in fn["params"] if p["n"] == "coupon"]
        key = "%s:duplicate-test" % ("CouponList::couponUpdate" if is_list else "CouponHashSet::find")
        if not cp:
            out.append(ob("hll.coupon-identity", key, fn["pat"], "unrecognised", "no `coupon` parameter", fn["qname"]))
            continue
        decls = local_decls(fn)
        eqs = []
        rvars = set()   # elements of range-for loops (index loops over a container are exported in that form too)
        walk(fn["body"], lambda n: rvars.add((n.get("var") or {}).get("d")) if n.get("k") == "RangeFor" else None)

        def v(n):
            if n.get("k") == "Bin" and n.get("op") == "==":
                refs = []
                walk(n, lambda x: refs.append(x) if x.get("k") == "Ref" and x.get("d") == cp[0]["d"] else None)
                if refs:
                    eqs.append(n)
        walk(fn["body"], v)
        if len(eqs) != 1:
            out.append(ob("hll.coupon-identity", key, fn["pat"], "unrecognised", "%d equality tests involving `coupon`" % len(eqs), fn["qname"]))
            continue
        l, r = strip_all(eqs[0]["l"]), strip_all(eqs[0]["r"])
        sides = [x for x in (l, r)]
        plain_coupon = any(x.get("k") == "Ref" and x.get("d") == cp[0]["d"] for x in sides)
        other = [x for x in sides if not (x.get("k") == "Ref" and x.get("d") == cp[0]["d"])]
        loaded = False
        if other and other[0].get("k") == "Ref" and other[0].get("d") in decls:
            ini = strip_all(decls[other[0]["d"]].get("init") or {})
            loaded = ini.get("k") in ("Index", "OpCall") or (ini.get("k") == "Ref" and ini.get("d") in rvars)
        elif other and (other[0].get("k") in ("Index", "OpCall") or (other[0].get("k") == "Ref" and other[0].get("d") in rvars)):
            loaded = True
        if plain_coupon and loaded:
            out.append(ob("hll.coupon-identity", key, eqs[0]["loc"], "discharged", "duplicate iff stored element == coupon (whole value)", fn["qname"]))
        else:
            out.append(ob("hll.coupon-identity", key, eqs[0]["loc"], "violated", "the duplicate test is `%s`: it compares a part / a function of the coupon instead of the whole stored element with the whole new coupon (LIST and SET must agree: same address with a different value is a different coupon)" % txt(eqs[0]), fn["qname"]))
    if len(out) < 2:
        out.append(ob("hll.coupon-identity", "anchor", "", "unrecognised", "CouponList::couponUpdate / CouponHashSet find not both found", ""))
    return out


def ooo_resets_hip(facts):
    """An HLL array whose out-of-order flag is set carries no HIP estimate: the readers do not restore hipAccum_ for such an image
    (`if (!oooFlag) putHipAccum(hip)`), while the writers always emit the field.  So every site that sets the flag to true must
    zero the accumulator of the same object, otherwise the image of a union result contains a value its own round trip drops
    (re-serialized bytes and printed state differ).  Sites that copy flag and accumulator together from another array are fine."""
    fs = hll_fns(facts)
    out = []
    n = 0
    for pat, fn in sorted(fs.items()):
        calls = []
        walk(fn["body"], lambda x: calls.append(x) if x.get("k") == "Call" and x.get("cname") in ("putOutOfOrderFlag", "putHipAccum") and x.get("obj") is not None else None)
        sets = [c for c in calls if c["cname"] == "putOutOfOrderFlag" and c.get("args") and strip_all(c["args"][0]).get("k") == "Bool" and strip_all(c["args"][0]).get("b", strip_all(c["args"][0]).get("v"))]
        for j, c in enumerate(sets):
            n += 1

            def root(e):
                r = []
                walk(e, lambda y: r.append(y) if y.get("k") == "Ref" else None)
                return r[0]["d"] if r else None
            o = root(c["obj"])
            zero = [h for h in calls if h["cname"] == "putHipAccum" and root(h["obj"]) == o and h.get("args") and strip_all(h["args"][0]).get("v") == 0]
            key = "%s:ooo-true#%d:hip-zeroed" % (short(fn["patq"]), j)
            if zero:
                out.append(ob("hll.ooo-hip", key, c["loc"], "discharged", "putOutOfOrderFlag(true) comes with putHipAccum(0) on the same array", fn["qname"]))
            else:
                out.append(ob("hll.ooo-hip", key, c["loc"], "violated", "putOutOfOrderFlag(true) on `%s` without putHipAccum(0): serialize() still writes the stale accumulator while both readers skip it when the flag is set - the restored sketch re-serializes to different bytes" % txt(c["obj"])[:40], fn["qname"]))
    # readers: restore hip only when the flag is clear
    for pat, fn in sorted(fs.items()):
        if fn["name"] != "newHll" or not fn["params"] or not (fn["params"][0]["t"].startswith("const void") or "basic_istream" in fn["params"][0]["t"]):
            continue
        ok = []
        walkp(fn["body"], lambda x, ps: ok.append([txt(p["c"]).replace(" ", "") for p in ps if p.get("k") == "If"]) if x.get("k") == "Call" and x.get("cname") == "putHipAccum" else None)
        kind = "stream" if any("basic_istream" in p["t"] for p in fn["params"]) else "bytes"
        good = bool(ok) and all("!oooFlag" in g for g in ok)
        n += 1
        out.append(ob("hll.ooo-hip", "HllArray::newHll(%s):hip-only-if-in-order" % kind, fn["pat"], "discharged" if good else "violated", "hip restored only when the out-of-order flag is clear" if good else "reader restores hipAccum under %s" % ok, fn["qname"]))
    if n < 3:
        out.append(ob("hll.ooo-hip", "anchor", "", "unrecognised", "only %d sites found" % n, ""))
    return out


def find_result_tests(facts):
    """the open-addressing find() of the coupon set and of the aux map returns the cell index (>= 0, cell 0 included) when the key
    is present and the complement of the insertion index (< 0) when it is not: every test of its result distinguishes exactly
    `< 0` from `>= 0`.  `> 0` / `<= 0` treat a hit in cell 0 as a miss (duplicate coupons counted again, an exception that can be
    stored but never read back)."""
    from astu import single_assignment_locals
    fns = hll_fns(facts)
    out = []
    n = 0
    for pat, fn in sorted(fns.items()):
        if fn.get("body") is None:
            continue
        finds = {d: v for d, v in single_assignment_locals(fn).items() if strip_all(v).get("k") == "Call" and strip_all(v).get("cname") == "find"}
        if not finds:
            continue
        idx = [0]

        def v(x):
            nonlocal n
            if x.get("k") == "Bin" and x.get("op") in ("<", ">", "<=", ">=", "==", "!="):
                for a, b in ((x["l"], x["r"]), (x["r"], x["l"])):
                    sa, sb = strip_all(a), strip_all(b)
                    if sa.get("k") == "Ref" and sa.get("d") in finds and sb.get("v") == 0 and sb.get("k") in ("Int", "Cast"):
                        op = x["op"] if a is x["l"] else {"<": ">", ">": "<", "<=": ">=", ">=": "<=", "==": "==", "!=": "!="}[x["op"]]
                        key = "%s:find-result-test#%d" % (short(fn.get("patq") or fn["name"]), idx[0])
                        idx[0] += 1
                        n += 1
                        if op in ("<", ">="):
                            out.append(ob("hll.find-sign", key, x.get("loc", fn["pat"]), "discharged", "index %s 0" % op, fn["qname"]))
                        else:
                            out.append(ob("hll.find-sign", key, x.get("loc", fn["pat"]), "violated", "the result of find() is tested with `index %s 0`: find() returns the cell index (0 included) for a hit and ~index (< 0) for a miss, so this test takes a key stored in cell 0 for absent" % op, fn["qname"]))
        walk(fn["body"], v)
    if n < 3:
        out.append(ob("hll.find-sign", "anchor", "", "unrecognised", "only %d tests of a find() result found" % n, ""))
    return out


def aux_values(facts):
    """HLL_4: the exception table (AuxHashMap) holds the ACTUAL register values; only the 4-bit array holds values shifted by
    curMin.  Every value handed to mustAdd / mustReplace from the Hll4Array code is therefore free of a `- curMin_` shift
    (read through single-assignment locals), and the calls inside one function hand over the same value."""
    from astu import single_assignment_locals
    fns = hll_fns(facts)
    out = []
    for pat, fn in sorted(fns.items()):
        if "Hll4Array" not in (fn.get("rect") or "") or fn.get("body") is None:
            continue
        sal = single_assignment_locals(fn)
        calls = []
        walk(fn["body"], lambda n: calls.append(n) if n.get("k") == "Call" and n.get("cname") in ("mustAdd", "mustReplace") and len(n.get("args", [])) == 2 else None)
        vals = []
        for i, c in enumerate(calls):
            key = "%s:%s#%d:actual-value" % (short(fn["patq"]), c["cname"], i)
            t = txt(c["args"][1], sal).replace(" ", "")
            vals.append(t)
            if "curMin" in t:
                out.append(ob("hll.aux-value", key, c.get("loc", fn["pat"]), "violated", "%s() stores `%s`, a value shifted by curMin, in the exception table: the table holds actual register values (only the 4-bit array is relative to curMin), so the register reads back too small once curMin > 0" % (c["cname"], t), fn["qname"]))
            elif len(set(vals)) > 1 and not any(v.startswith(("old", "it", "coupon", "elem:")) or "getValue" in v or "pair" in v.lower() for v in set(vals)) and fn["name"] == "internalHll4Update":
                out.append(ob("hll.aux-value", key, c.get("loc", fn["pat"]), "violated", "mustAdd / mustReplace in %s store different values (%s) for the same update" % (fn["name"], sorted(set(vals))), fn["qname"]))
            else:
                out.append(ob("hll.aux-value", key, c.get("loc", fn["pat"]), "discharged", "%s() stores the actual value `%s`" % (c["cname"], t), fn["qname"]))
    return out
