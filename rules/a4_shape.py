#!/usr/bin/env python3
"""A4 prototype: extract serialization shapes of stream writers and byte writers and compare them.

Shape items:
  ("F", width, valuekey)      fixed field
  ("Raw", lenkey)             raw block of lenkey bytes
  ("Serde", countkey)         serde-encoded items
  ("Nested", type)            nested library serializer
  ("If", condkey, [then], [else])
  ("Loop", boundkey, [body])
  ("Ret",)                    early return
"""
import json, sys, glob, re


def strip(e):
    while isinstance(e, dict) and e.get("k") == "Cast":
        e = e["e"]
    return e


def nested_view(fn):
    """the facts normaliser writes the tail of a void function in guard-clause form (`if (!c) return; REST`); a stream writer is
    void and its byte twin returns the vector, so for the twin comparison both are read in the nested form `if (c) { REST }`"""
    from vlib import normalize
    body = fn.get("body")
    if isinstance(body, dict) and body.get("k") == "Block" and fn.get("ret") == "void":
        return dict(body, s=normalize.nest_guards(body.get("s", []), "Return"))
    return body


class Norm:
    """expression normaliser -> canonical string"""

    def __init__(self, fn, inline):
        self.fn = fn
        self.inline = inline  # decl id -> init expr (single-assignment const locals)

    def key(self, e, depth=0):
        if e is None:
            return "?"
        k = e.get("k")
        if k == "Cast":
            return self.key(e["e"], depth)
        if "v" in e and k not in ("Call", "OpCall", "Assign") and e.get("t") != "bool" or k == "Int":
            return str(e.get("v", e.get("lit")))
        if k == "Bool":
            return "true" if e["b"] else "false"
        if k == "Sizeof":
            return str(e.get("v"))
        if k == "Ref":
            if e["d"] in self.inline and depth < 6:
                return self.key(self.inline[e["d"]], depth + 1)
            return e["n"]
        if k == "This":
            return "this"
        if k == "Member":
            b = self.key(e["b"], depth)
            return e["f"] if b == "this" else b + "." + e["f"]
        if k == "Call":
            name = e.get("cname", "?")
            args = ",".join(self.key(a, depth) for a in e.get("args", []))
            if e.get("obj") is not None:
                o = self.key(e["obj"], depth)
                return (name if o == "this" else o + "." + name) + "(" + args + ")"
            return name + "(" + args + ")"
        if k == "OpCall":
            args = [self.key(a, depth) for a in e.get("args", [])]
            if e["op"] == "[]" and len(args) == 2:
                return args[0] + "[" + args[1] + "]"
            if e["op"] == "*" and len(args) == 1:
                return "*" + args[0]
            return "op" + e["op"] + "(" + ",".join(args) + ")"
        if k == "Un" and e["op"] == "!":
            # negation normal form, also through the locals that are read as their initialiser: !(a && b) is !a || !b
            x, dd = e["e"], depth
            while isinstance(x, dict) and (x.get("k") in ("Cast", "Paren") or (x.get("k") == "Ref" and x.get("d") in self.inline and dd < 6)):
                if x.get("k") == "Ref":
                    x, dd = self.inline[x["d"]], dd + 1
                else:
                    x = x["e"]
            if isinstance(x, dict) and x.get("k") == "Bin" and x.get("op") in ("&&", "||"):
                l, r = sorted([self.key({"k": "Un", "op": "!", "e": x["l"]}, dd), self.key({"k": "Un", "op": "!", "e": x["r"]}, dd)])
                return "(%s%s%s)" % (l, "||" if x["op"] == "&&" else "&&", r)
        if k == "Un":
            inner = self.key(e["e"], depth)
            if e["op"] == "!" and inner.startswith("!"):
                return inner[1:]
            if e["op"] == "!" and inner.startswith("(0==") and inner.endswith(")"):
                return inner[4:-1]   # !(0 == x) is the truthiness of x, like 0 != x and x > 0 (unsigned)
            return e["op"] + inner if not e.get("post") else inner + e["op"]
        if k == "Bin":
            l, r = self.key(e["l"], depth), self.key(e["r"], depth)
            op = e["op"]
            if op == "|":
                # flag bytes: an OR of `(c ? BIT : 0)` terms is a map condition -> bits; terms with one condition are merged
                terms = []

                def flat(x):
                    x = strip(x)
                    if isinstance(x, dict) and x.get("k") == "Bin" and x.get("op") == "|":
                        flat(x["l"])
                        flat(x["r"])
                    else:
                        terms.append(x)
                flat(e)
                groups, rest = {}, []
                for t in terms:
                    if isinstance(t, dict) and t.get("k") == "Cond" and isinstance(strip(t["a"]).get("v"), int) and strip(t["e"]).get("v") == 0 and not isinstance(strip(t["a"]).get("v"), bool):
                        ck = self.key(t["c"], depth)
                        groups[ck] = groups.get(ck, 0) | strip(t["a"])["v"]
                    elif isinstance(t, dict) and isinstance(t.get("v"), int) and t.get("k") not in ("Call", "OpCall", "Assign") and not isinstance(t.get("v"), bool):
                        groups[""] = groups.get("", 0) | t["v"]
                    else:
                        rest.append(self.key(t, depth))
                if groups and (len(groups) + len(rest)) >= 1 and len(terms) > 1:
                    parts = sorted(["(%s?%d:0)" % (c, v) if c else str(v) for c, v in groups.items()] + rest)
                    out = parts[0]
                    for p2 in parts[1:]:
                        out = "(%s|%s)" % (out, p2)
                    return out
            if op in ("+", "*", "&&", "||", "|", "&", "^"):
                # associative and commutative: one flat, sorted operand list, however the chain was parenthesised or ordered
                ops = []

                def flat2(x):
                    x0 = strip(x)
                    while isinstance(x0, dict) and x0.get("k") == "Paren":
                        x0 = strip(x0.get("e"))
                    if isinstance(x0, dict) and x0.get("k") == "Bin" and x0.get("op") == op:
                        flat2(x0["l"])
                        flat2(x0["r"])
                    else:
                        ops.append(self.key(x, depth))
                flat2(e)
                if len(ops) > 2:
                    ops.sort()
                    out = ops[0]
                    for p2 in ops[1:]:
                        out = "(%s%s%s)" % (out, op, p2)
                    return out
            if op in ("+", "*", "&&", "||", "|", "&", "==", "!="):
                l, r = sorted([l, r])
            if op == "<<" and r.isdigit() and not l.isdigit():
                return "(%s*%d)" % (l, 1 << int(r))
            if op in ("<", "<="):
                l, r, op = r, l, {"<": ">", "<=": ">="}[op]   # one orientation for ordering comparisons
            if op == ">" and r == "0":
                return l  # unsigned truthiness
            if op == "!=" and "0" in (l, r):
                return r if l == "0" else l
            return "(%s%s%s)" % (l, op, r)
        if k == "Cond":
            # one polarity: of `c ? a : b` and `!c ? b : a` (negation in normal form) the one whose condition prints smaller
            k1 = self.key(e["c"], depth)
            k2 = self.key({"k": "Un", "op": "!", "e": e["c"]}, depth)
            a, b = self.key(e["a"], depth), self.key(e["e"], depth)
            if k2 < k1 and not k2.startswith("!"):
                return "(%s?%s:%s)" % (k2, b, a)
            if k1.startswith("!") and not k2.startswith("!"):
                return "(%s?%s:%s)" % (k2, b, a)
            return "(%s?%s:%s)" % (k1, a, b)
        if k == "Index":
            return self.key(e["b"], depth) + "[" + self.key(e["i"], depth) + "]"
        if k == "Construct":
            if len(e.get("args", [])) == 1:
                return self.key(e["args"][0], depth)
            return "ctor(" + ",".join(self.key(a, depth) for a in e.get("args", [])) + ")"
        if k == "Assign":
            return "(%s%s%s)" % (self.key(e["l"], depth), e["op"], self.key(e["r"], depth))
        return k or "?"


class Extractor:
    def __init__(self, facts):
        self.by_pat = {}
        self.fns = []
        for f in facts:
            for fn in f["functions"]:
                self.by_pat.setdefault((fn["pat"], fn["qname"]), fn)
                self.by_pat.setdefault(fn["pat"], fn)
                self.fns.append(fn)
        self.notes = []

    # ---------------- helpers
    def collect_inline(self, fn):
        """single-assignment const locals (decl with init, never reassigned)"""
        decls = {}
        assigned = set()

        def visit(s):
            if isinstance(s, dict):
                if s.get("k") == "Decl":
                    for v in s["vars"]:
                        if "n" in v and v.get("init") is not None and v.get("const"):
                            decls[v["d"]] = v["init"]
                if s.get("k") == "Assign":
                    t = strip(s["l"])
                    if t.get("k") == "Ref":
                        assigned.add(t["d"])
                if s.get("k") == "Un" and s.get("op") in ("++", "--"):
                    t = strip(s["e"])
                    if t.get("k") == "Ref":
                        assigned.add(t["d"])
                for v in s.values():
                    visit(v)
            elif isinstance(s, list):
                for v in s:
                    visit(v)
        visit(fn["body"])
        return {d: e for d, e in decls.items() if d not in assigned}

    def is_stream(self, e):
        return "basic_ostream" in (e.get("t") or "")

    def ptr_var(self, e):
        e = strip(e)
        return e.get("d") if e.get("k") == "Ref" and (e.get("t") or "").endswith("*") else None

    # ---------------- stream writer
    def shape_fn(self, fn, mode):
        inline = self.collect_inline(fn)
        N = Norm(fn, inline)
        return self.block(fn, fn["body"], mode, N)

    def block(self, fn, s, mode, N):
        out = []
        if s is None:
            return out
        k = s["k"]
        if k == "Block":
            items = s["s"]
            i = 0
            while i < len(items):
                c = items[i]
                sub = self.block(fn, c, mode, N)
                # early return normalisation: if (c) return;  rest  ==> If(c, [Ret], rest)
                if c["k"] == "If" and sub and sub[0][0] == "If" and self.ends_with_ret(sub[0][2]) and not sub[0][3]:
                    rest = self.block(fn, {"k": "Block", "s": items[i + 1:]}, mode, N)   # recursively: later guards nest the same way
                    then = [x for x in sub[0][2] if x[0] != "Ret"]
                    out.append(("If", sub[0][1], then, rest))
                    return out
                out.extend(sub)
                i += 1
            return out
        if k == "If":
            t = self.block(fn, s["t"], mode, N)
            e = self.block(fn, s.get("e"), mode, N)
            if not t and not e:
                return []
            return [("If", N.key(s["c"]), t, e)]
        if k in ("For", "While", "RangeFor", "Do"):
            b = self.block(fn, s["b"], mode, N)
            if not b:
                return []
            if k == "RangeFor":
                bound = "each(" + N.key(s["range"]) + ")"
            elif k == "For":
                bound = N.key(s["c"]) if s.get("c") else "?"
            else:
                bound = N.key(s["c"])
            return [("Loop", bound, b)]
        if k == "Return":
            r = []
            if s.get("e"):
                r = self.expr(fn, s["e"], mode, N)
            return r + [("Ret",)]
        if k == "Expr":
            return self.expr(fn, s["e"], mode, N)
        if k == "Decl":
            r = []
            for v in s["vars"]:
                if v.get("init") is not None:
                    r.extend(self.expr(fn, v["init"], mode, N))
            return r
        if k == "Switch":
            b = self.block(fn, s["b"], mode, N)
            return [("Switch", N.key(s["c"]), b)] if b else []
        if k in ("Case", "Default"):
            return self.block(fn, s["s"], mode, N)
        return out

    def ends_with_ret(self, items):
        return bool(items) and items[-1][0] == "Ret" or items == [("Ret",)]

    def expr(self, fn, e, mode, N):
        """returns shape items produced by evaluating expression e"""
        out = []
        if not isinstance(e, dict):
            return out
        k = e.get("k")
        if k == "Cast":
            return self.expr(fn, e["e"], mode, N)
        if k == "Call":
            callee = e.get("callee", "")
            cname = e.get("cname", "")
            args = e.get("args", [])
            if mode == "ws":
                if callee == "datasketches::write" and len(args) == 2:
                    return [("F", args[1].get("sz"), N.key(args[1]))]
                if callee == "datasketches::write" and len(args) == 3:
                    return [("Raw", N.key(args[2]))]
                if cname == "serialize" and args and self.is_stream(args[0]):
                    if len(args) == 3 and not callee.startswith("datasketches::req_compactor") and "serde" in callee.lower() or (len(args) == 3 and (args[2].get("t") in ("unsigned int",))):
                        return [("Serde", N.key(args[2]))]
                    return [("Nested", (e.get("crec") or callee).split("<")[0])]
                if cname in ("fill_n",) and args:
                    return [("Raw", N.key(args[1]))]
                if cname == "write" and e.get("member") and len(args) == 2:
                    return [("Raw", N.key(args[1]))]
                # helper taking the stream: inline
                if any(self.is_stream(a) for a in args) and callee.startswith("datasketches::"):
                    cal = self.by_pat.get(e.get("cpat"))
                    if cal is not None and cal is not fn:
                        return self.shape_fn(cal, mode)
            if mode == "wb":
                if callee == "datasketches::copy_to_mem" and len(args) == 2:
                    return [("F", args[0].get("sz"), N.key(args[0]))]
                if callee == "datasketches::copy_to_mem" and len(args) == 3:
                    return [("Raw", N.key(args[2]))]
                if cname == "serialize" and len(args) >= 2 and (args[0].get("t") or "").endswith("*"):
                    if len(args) == 4:
                        return [("Serde", N.key(args[3]))]
                    return [("Nested", (e.get("crec") or callee).split("<")[0])]
                if cname in ("memcpy",) and len(args) == 3:
                    return [("Raw", N.key(args[2]))]
                if cname == "fill_n" and len(args) == 3:
                    return [("Raw", N.key(args[1]))]
                if cname == "copy_hip_to_mem":
                    return [("F", 8, "kxp"), ("F", 8, "hip_est_accum")]
            for a in args:
                out.extend(self.expr(fn, a, mode, N))
            if e.get("obj") is not None:
                out.extend(self.expr(fn, e["obj"], mode, N))
            return out
        if k == "Assign" and mode == "wb":
            l = strip(e["l"])
            r = e["r"]
            # ptr += <call>
            if e["op"] == "+=" and (l.get("t") or "").endswith("*"):
                inner = self.expr(fn, r, mode, N)
                if inner:
                    return inner
                rr = strip(r)
                if "v" in rr:
                    return [("F", rr["v"], "0")]
                if rr.get("k") == "Member" and rr.get("f") == "second":
                    return []
                return [("Adv", N.key(r))]
            # *ptr++ = v
            if e["op"] in ("=", "|=") and l.get("k") == "Un" and l.get("op") == "*":
                tgt = strip(l["e"])
                if tgt.get("k") == "Un" and tgt.get("op") == "++":
                    return [("F", 1, N.key(r))]
                return []
            # bytes[OFF] = v
            if e["op"] == "=" and l.get("k") == "Index":
                return [("At", N.key(l["i"]), l.get("sz", 1), N.key(r))]
            return self.expr(fn, r, mode, N)
        if k == "Assign":
            return self.expr(fn, e["r"], mode, N)
        for key in ("args", "e", "l", "r", "c", "a", "b", "obj", "i"):
            v = e.get(key)
            if isinstance(v, list):
                for a in v:
                    out.extend(self.expr(fn, a, mode, N))
            elif isinstance(v, dict):
                out.extend(self.expr(fn, v, mode, N))
        return out


def fmt(items, ind=0):
    lines = []
    p = "  " * ind
    for it in items:
        if it[0] == "If":
            lines.append("%sif %s" % (p, it[1]))
            lines += fmt(it[2], ind + 1)
            if it[3]:
                lines.append(p + "else")
                lines += fmt(it[3], ind + 1)
        elif it[0] == "Loop":
            lines.append("%sloop %s" % (p, it[1]))
            lines += fmt(it[2], ind + 1)
        elif it[0] == "Switch":
            lines.append("%sswitch %s" % (p, it[1]))
            lines += fmt(it[2], ind + 1)
        else:
            lines.append(p + " ".join(str(x) for x in it))
    return lines


def canon(items):
    """canonical form for comparison: drop Ret, merge If with empty branches, Pad==F"""
    out = []
    for it in items:
        if it[0] == "Ret":
            continue
        if it[0] == "If":
            t, e = canon(it[2]), canon(it[3])
            c = it[1]
            if not t and not e:
                continue
            if not t and e:
                c = c[1:] if c.startswith("!") else (c[4:-1] if c.startswith("(0==") and c.endswith(")") else "!" + c)
                t, e = e, t
            # zero-length guards: if (n) Serde(n)
            if len(t) == 1 and not e and t[0][0] in ("Serde", "Raw") and (c == t[0][1] or c == t[0][1] + ".size()" or t[0][1].startswith(c) or ("*" + c + ")") in t[0][1] or ("(" + c + "*") in t[0][1]):
                out.append(t[0])
                continue
            # flag building: `if (c) flags |= K;` is `flags |= (c ? K : 0)`
            if len(t) == 1 and not e and t[0][0] == "Set" and t[0][2] == "|=" and str(t[0][3]).isdigit():
                out.append(("Set", t[0][1], "|=", "(%s?%s:0)" % (c, t[0][3])))
                continue
            out.append(("If", c, tuple(t), tuple(e)))
        elif it[0] == "Loop":
            out.append(("Loop", it[1], tuple(canon(it[2]))))
        elif it[0] == "F":
            v = it[2]
            out.append(("F", it[1], v))
        else:
            out.append(it)
    return out


def diff(a, b, path=""):
    """list of differences between canonical shapes"""
    res = []
    n = max(len(a), len(b))
    for i in range(n):
        x = a[i] if i < len(a) else None
        y = b[i] if i < len(b) else None
        if x == y:
            continue
        if x is None or y is None:
            res.append("%s[%d]: %r vs %r" % (path, i, x, y))
            continue
        if x[0] == y[0] == "If" and x[1] == y[1]:
            res += diff(list(x[2]), list(y[2]), path + "[%d].then" % i)
            res += diff(list(x[3]), list(y[3]), path + "[%d].else" % i)
        elif x[0] == y[0] == "Loop":
            if x[1] != y[1]:
                res.append("%s[%d]: loop bound %r vs %r" % (path, i, x[1], y[1]))
            res += diff(list(x[2]), list(y[2]), path + "[%d].body" % i)
        elif x[0] == y[0] == "F" and x[1] == y[1]:
            if x[2] != y[2] and not (x[2] in ("0",) or y[2] in ("0",)):
                res.append("%s[%d]: field value %r vs %r (width %s)" % (path, i, x[2], y[2], x[1]))
        else:
            res.append("%s[%d]: %r vs %r" % (path, i, x, y))
    return res


def main():
    facts = [json.load(open(f)) for f in (sys.argv[1:] or sorted(glob.glob("/root/verif-proto/facts/*.json")))]
    X = Extractor(facts)
    # group writers by record
    groups = {}
    for fn in X.fns:
        if fn["name"] not in ("serialize", "serialize_compact", "serialize_updatable", "serialize_version_4", "serialize_compressed"):
            continue
        if fn.get("rect") is None:
            continue
        pts = [p["t"] for p in fn["params"]]
        mode = None
        if pts and "basic_ostream" in pts[0]:
            mode = "ws"
        elif pts and (pts[0] in ("unsigned int", "bool") or pts[0].endswith("*")):
            mode = "wb"
        if mode is None:
            continue
        groups.setdefault((fn["rect"], fn["name"]), {}).setdefault(mode, fn)
    verbose = "-v" in sys.argv
    for (rec, name), g in sorted(groups.items()):
        if "ws" not in g or "wb" not in g:
            print("%-60s %-22s only %s" % (rec, name, list(g)))
            continue
        ws = canon(X.shape_fn(g["ws"], "ws"))
        wb = canon(X.shape_fn(g["wb"], "wb"))
        d = diff(ws, wb)
        print("%-60s %-22s %s" % (rec, name, "AGREE (%d items)" % len(ws) if not d else "DIFF"))
        for x in d[:12]:
            print("      ", x[:220])
        if verbose or d:
            print("   -- stream writer"); print("\n".join("      " + l for l in fmt(X.shape_fn(g["ws"], "ws"))[:60]))
            print("   -- byte writer"); print("\n".join("      " + l for l in fmt(X.shape_fn(g["wb"], "wb"))[:60]))


if __name__ == "__main__":
    main()
