"""Twin functions: two overloads that differ only in taking `const T&` vs `T&&` must have identical bodies modulo
std::move / std::forward; the stream reader and the byte reader of one type must perform the same validations and
state assignments modulo the read primitive."""
import re
from astu import C, ctxt, gt_pair, eq_const, reach, reach_txt, ctext, strip, strip_all, walk, txt, short, stmts_of, functions_by
from vlib.core import ob


GETTERS = {}


def trivial_getters(fns):
    """pattern -> field name for member functions whose whole body is `return field_;` (a call of one reads that field)"""
    res = {}
    for fn in fns.values():
        b = stmts_of(fn.get("body"))
        if len(b) == 1 and b[0].get("k") == "Return" and not fn.get("params"):
            r = strip_all(b[0].get("e") or {})
            if isinstance(r, dict) and r.get("k") == "Member" and r.get("isfield") and strip(r.get("b") or {}).get("k") == "This":
                res[fn["pat"]] = r["f"]
    return res


def ntxt(e):
    """txt() with moves/forwards stripped everywhere; a call of a trivial getter reads as the field it returns"""
    def clean(n):
        if isinstance(n, dict):
            n = strip_all(n) if n.get("k") in ("Call", "Cast", "Construct") else n
            if isinstance(n, dict) and n.get("k") == "Call" and n.get("cpat") in GETTERS and not n.get("args"):
                n = {"k": "Member", "b": n.get("obj") if n.get("obj") is not None else {"k": "This"}, "f": GETTERS[n["cpat"]], "isfield": True, "t": n.get("t")}
            if isinstance(n, dict):
                return {k: clean(v) for k, v in n.items()}
            return n
        if isinstance(n, list):
            return [clean(x) for x in n]
        return n
    return txt(clean(e))


def body_norm(fn):
    parts = []
    # locals are named by first appearance and parameters by position: the names chosen in either overload do not matter
    ren = {}
    pidx = {p["d"]: i for i, p in enumerate(fn.get("params") or []) if "d" in p}

    def rn_all(e):
        if isinstance(e, dict):
            if e.get("k") == "Ref" and e.get("dk") == "local":
                if e["d"] not in ren:
                    ren[e["d"]] = "v%d" % len(ren)
                return dict(e, n=ren[e["d"]])
            if e.get("k") == "Ref" and e.get("d") in pidx:
                return dict(e, n="p%d" % pidx[e["d"]])
            return {k: rn_all(v) for k, v in e.items()}
        if isinstance(e, list):
            return [rn_all(x) for x in e]
        return e
    _ntxt = ntxt

    def ntxt_r(e):
        return _ntxt(rn_all(e))

    def stm(s, ind=0):
        if s is None:
            return
        k = s.get("k")
        if k == "Block":
            for c in s.get("s", []):
                stm(c, ind)
        elif k in ("Expr", "Return"):
            parts.append(("return " if k == "Return" else "") + (ntxt_r(s.get("e")) if s.get("e") is not None else ""))
        elif k == "Decl":
            for v in s.get("vars", []):
                parts.append("decl=%s" % (ntxt_r(v.get("init")) if v.get("init") is not None else ""))
        elif k == "If":
            parts.append("if " + ntxt_r(s["c"]))
            stm(s.get("t"), ind + 1)
            if s.get("e") is not None:
                parts.append("else")
                stm(s.get("e"), ind + 1)
            parts.append("endif")
        elif k in ("For", "While", "Do"):
            parts.append("loop " + (ntxt_r(s.get("c")) if s.get("c") is not None else ""))
            stm(s.get("b"), ind + 1)
            parts.append("endloop")
        elif k == "RangeFor":
            parts.append("foreach " + ntxt_r(s.get("range")))
            stm(s.get("b"), ind + 1)
            parts.append("endloop")
        else:
            parts.append(k or "?")
    stm(fn["body"])
    # local names are irrelevant: canonicalise decl names is not needed because decl= drops them; param names kept
    return parts


def overload_twins(facts, fams=None):
    import json, os
    from vlib.core import VERIF
    armed = set(json.load(open(os.path.join(VERIF, "spec", "twins_armed.json")))["overloads"])
    fns = functions_by(facts)
    GETTERS.clear()
    GETTERS.update(trivial_getters(fns))
    groups = {}
    for pat, fn in fns.items():
        if fams and not any(pat.startswith(f) for f in fams):
            continue
        if not fn.get("rect") or fn["kind"] != "method" or not fn["params"] or fn.get("special"):
            continue
        sig = []
        for p in fn["params"]:
            t = p["t"]
            base = t.replace("const ", "").replace(" &&", "").replace(" &", "").strip()
            sig.append(base)
        groups.setdefault((fn["rect"], fn["name"], tuple(sig), fn.get("const")), []).append(fn)
    out = []
    for (rect, name, sig, cst), fs in sorted(groups.items(), key=lambda kv: str(kv[0])):
        if len(fs) != 2:
            continue
        a, b = fs
        ta, tb = [p["t"] for p in a["params"]], [p["t"] for p in b["params"]]
        diff = [(x, y) for x, y in zip(ta, tb) if x != y]
        if not diff or not all((x.endswith("&&") and y.startswith("const ") and y.endswith("&")) or (y.endswith("&&") and x.startswith("const ") and x.endswith("&")) for x, y in diff):
            continue
        na, nb = body_norm(a), body_norm(b)
        key = "%s::%s(%s):const-ref~rvalue-twins" % (short(rect), name, ",".join(s.split("<")[0] for s in sig))
        if na == nb:
            out.append(ob("twins.overload", key, b["pat"], "discharged", "the const& and && overloads have identical bodies modulo std::move/forward (%d statements)" % len(na), b["qname"]))
        elif key not in armed:
            out.append(ob("twins.overload", key, b["pat"], "info", "overloads differ by design (not armed): reviewed", b["qname"]))
        else:
            i = next((j for j in range(min(len(na), len(nb))) if na[j] != nb[j]), min(len(na), len(nb)))
            out.append(ob("twins.overload", key, b["pat"], "violated", "the const& overload (%s) and the && overload (%s) of %s differ at statement %d: `%s` vs `%s`: lvalue and rvalue arguments are processed differently" % (a["pat"], b["pat"], name, i, (na[i] if i < len(na) else "(end)")[:120], (nb[i] if i < len(nb) else "(end)")[:120]), b["qname"]))
    return out


# ---------------------------------------------------------------------------------------------- reader twins
def reader_norm(fn, mode):
    """statement list of a reader with the read primitive abstracted: x=READ(n) / READ(n) / RAW / SERDE;
    byte-only bounds checks and stream-only state tests dropped; locals renamed by first appearance"""
    ren = {}

    ptr_locals = set()
    walk(fn["body"], lambda n: [ptr_locals.add(v["d"]) for v in n.get("vars", []) if "d" in v and v.get("t", "").endswith("*") and any(x in v["t"] for x in ("char", "void"))] if n.get("k") == "Decl" else None)

    def rn(d, n):
        if d in ptr_locals:
            return "SRC"
        if d not in ren:
            ren[d] = "v%d" % len(ren)
        return ren[d]

    def rtxt(e):
        e2 = _rename(e, rn)
        return ntxt(e2)
    out = []
    pending_decl = {}   # byte form: `T x;` waiting for copy_from_mem(ptr, x)

    def is_stream(e):
        return "basic_istream" in (e.get("t") or "")

    def read_of(e):
        """(dest decl ref or None, size) if e is a primitive read expression"""
        e = strip_all(e)
        if e.get("k") == "Assign" and e.get("op") == "=" and strip(e["l"]).get("k") == "Ref":
            inner = read_of(e["r"])
            if inner is not None and inner[0] is None:
                return (strip(e["l"]), inner[1])
        if e.get("k") == "Un" and e.get("op") == "*":
            t = strip(e["e"])
            if t.get("k") == "Un" and t.get("op") == "++" and t.get("post") and (strip(t["e"]).get("t") or "").endswith("*"):
                return (None, 1)
        if e.get("k") == "Call" and (e.get("callee") or "").startswith("datasketches::read") and e.get("args") and is_stream(e["args"][0]) and len(e["args"]) == 1:
            return (None, e.get("sz"))
        if e.get("k") == "Assign" and e.get("op") == "+=" and (strip(e["l"]).get("t") or "").endswith("*"):
            r = strip_all(e["r"])
            if r.get("k") == "Call" and (r.get("callee") or "") == "datasketches::copy_from_mem" and len(r.get("args", [])) == 2:
                d = strip(r["args"][1])
                return (d if d.get("k") == "Ref" else None, d.get("sz"))
            if "v" in r:
                return (None, r["v"])
        return None

    def stm(s):
        if s is None:
            return
        k = s.get("k")
        if k == "Block":
            for c in s.get("s", []):
                stm(c)
            return
        if k == "Decl":
            for v in s.get("vars", []):
                if "d" not in v:
                    continue
                ini = v.get("init")
                if ini is None:
                    pending_decl[v["d"]] = v
                    continue
                r = read_of(ini)
                if r is not None:
                    out.append("%s=READ(%s)" % (rn(v["d"], v["n"]), r[1]))
                else:
                    t = rtxt(ini)
                    if mode == "rb" and (v["t"].endswith("*") or v["n"] in ("end_ptr", "base")):
                        continue
                    out.append("%s=%s" % (rn(v["d"], v["n"]), t))
            return
        if k == "Expr":
            e = strip(s["e"])
            r = read_of(e)
            if r is not None:
                if r[0] is not None:
                    out.append("%s=READ(%s)" % (rn(r[0]["d"], r[0]["n"]), r[1]))
                else:
                    out.append("READ(%s)" % r[1])
                return
            if e.get("k") == "Call" and e.get("cname") in ("ensure_minimum_memory", "check_memory_size"):
                return
            out.append(rtxt(e))
            return
        if k == "If":
            c = rtxt(s["c"])
            if "good()" in c:
                return
            out.append("if " + c)
            stm(s.get("t"))
            if s.get("e") is not None:
                out.append("else")
                stm(s.get("e"))
            out.append("endif")
            return
        if k in ("For", "While", "Do", "RangeFor"):
            out.append("loop " + (rtxt(s.get("c")) if s.get("c") is not None else rtxt(s.get("range")) if s.get("range") is not None else ""))
            stm(s.get("b"))
            out.append("endloop")
            return
        if k == "Return":
            out.append("return " + (rtxt(s.get("e")) if s.get("e") is not None else ""))
            return
        out.append(k or "?")
    stm(fn["body"])
    # abstract the remaining I/O specifics
    res = []
    # names that are never used again are dropped (`v5=READ(2)` == `READ(2)` for a reserved field)
    joined = "\n".join(out)
    out2 = []
    for t in out:
        m = re.match(r"^(v\d+)=(READ\(\w+\))$", t)
        if m and len(re.findall(r"\b%s\b" % m.group(1), joined)) == 1:
            t = m.group(2)
        out2.append(t)
    out = out2
    for t in out:
        t = re.sub(r"\(SRC\+=(.*)\)$", r"\1", t)
        t = re.sub(r"(\w+\.)?deserialize\(SRC,(?:[^,()]|\([^()]*\))*?,([^,]+),([^,]+)\)$", lambda m: "SERDE(%s,%s)" % (m.group(2), m.group(3)) if m.group(0).count(",") == 3 else m.group(0), t)
        t = re.sub(r"^read\(SRC,", "RAW(", t)
        t = re.sub(r"^copy_from_mem\(SRC,", "RAW(", t)
        t = re.sub(r"\bis\b", "SRC", t)
        t = re.sub(r"\b(ptr|bytes)\b", "SRC", t)
        t = re.sub(r"SRC,\(?\(?[^,()]*end_ptr[^,()]*\)?\)?,", "SRC,", t)
        t = re.sub(r"SRC,\(?\(?size-[^,]*,", "SRC,", t)
        res.append(t)
    return res


def _rename(e, rn):
    if isinstance(e, dict):
        if e.get("k") == "Ref" and e.get("dk") == "local":
            n = dict(e)
            n["n"] = rn(e["d"], e["n"])
            return n
        return {k: _rename(v, rn) for k, v in e.items()}
    if isinstance(e, list):
        return [_rename(x, rn) for x in e]
    return e


def reader_twins(facts):
    import json, os
    from vlib.core import VERIF
    armed = set(json.load(open(os.path.join(VERIF, "spec", "twins_armed.json"))).get("readers", []))
    fns = functions_by(facts)
    pairs = {}
    for pat, fn in fns.items():
        if not fn.get("rect") or not fn["params"] or fn.get("body") is None:
            continue
        if not (fn["name"].startswith("deserialize") or fn["name"] in ("newHll", "newList", "newSet")):
            continue
        p0 = fn["params"][0]["t"]
        allp = " ".join(p["t"] for p in fn["params"])
        if "basic_istream" in allp:
            pairs.setdefault((fn["rect"], fn["name"]), {})["rs"] = fn
        elif p0.startswith("const void") or p0.startswith("const unsigned char") or p0.startswith("const char"):
            pairs.setdefault((fn["rect"], fn["name"]), {})["rb"] = fn
    out = []
    for (rect, name), d in sorted(pairs.items()):
        if "rs" not in d or "rb" not in d:
            continue
        a, b = reader_norm(d["rs"], "rs"), reader_norm(d["rb"], "rb")
        key = "%s::%s:stream~bytes-reader-twins" % (short(rect), name)
        if a == b:
            out.append(ob("twins.reader", key, d["rb"]["pat"], "discharged", "stream and byte readers perform the same reads, validations, decisions and constructions (%d statements)" % len(a), d["rb"]["qname"]))
        else:
            i = next((j for j in range(min(len(a), len(b))) if a[j] != b[j]), min(len(a), len(b)))
            detail = "stream reader (%s) and byte reader (%s) differ at statement %d: `%s` vs `%s`" % (d["rs"]["pat"], d["rb"]["pat"], i, (a[i] if i < len(a) else "(end)")[:140], (b[i] if i < len(b) else "(end)")[:140])
            if key in armed:
                out.append(ob("twins.reader", key, d["rb"]["pat"], "violated", detail + ": the same image is restored differently from a stream and from a byte buffer", d["rb"]["qname"]))
            else:
                out.append(ob("twins.reader", key, d["rb"]["pat"], "info", "not comparable by the normaliser (not armed): " + detail[:200], d["rb"]["qname"]))
    return out
