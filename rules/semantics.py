"""Helpers for rules that decide WHAT a function computes rather than how it is spelled: field identities through trivial
getters, truth tables of boolean functions over their return statements and the conditions under which each is reached."""
from astu import strip, strip_all, walk, txt, stmts_of, reach, tt_eval


def trivial_getters(fns):
    """pattern -> field name for member functions whose whole body is `return field_;`"""
    res = {}
    for fn in fns.values():
        b = stmts_of(fn.get("body"))
        if len(b) == 1 and b[0].get("k") == "Return" and not fn.get("params"):
            r = strip_all(b[0].get("e") or {})
            if isinstance(r, dict) and r.get("k") == "Member" and r.get("isfield") and strip(r.get("b") or {}).get("k") == "This":
                res[fn["pat"]] = r["f"]
    return res


def field_of(e, getters, other_d=None):
    """(on_other, field name) if e reads a field of this object or of the parameter with decl id other_d, directly or through a
    trivial getter; else None"""
    e = strip_all(e) if isinstance(e, dict) else {}
    if e.get("k") == "Call" and not e.get("args") and e.get("cpat") in getters:
        o = strip_all(e.get("obj") or {"k": "This"})
        if o.get("k") == "This":
            return (False, getters[e["cpat"]])
        if o.get("k") == "Ref" and o.get("d") == other_d:
            return (True, getters[e["cpat"]])
        return None
    if e.get("k") == "Member" and e.get("isfield"):
        o = strip_all(e.get("b") or {"k": "This"})
        if o.get("k") == "This":
            return (False, e["f"])
        if o.get("k") == "Ref" and o.get("d") == other_d:
            return (True, e["f"])
    return None


def degetter(n, getters):
    """copy of n in which calls of trivial getters are replaced by the field they return"""
    if isinstance(n, list):
        return [degetter(x, getters) for x in n]
    if not isinstance(n, dict):
        return n
    if n.get("k") == "Call" and n.get("cpat") in getters and not n.get("args"):
        return {"k": "Member", "b": degetter(n.get("obj"), getters) if n.get("obj") is not None else {"k": "This"}, "f": getters[n["cpat"]], "isfield": True, "t": n.get("t")}
    return {k: degetter(v, getters) for k, v in n.items()}


def bool_fn_value(fn, atom, inl=None):
    """value of a bool-returning function under an assignment of atoms: true iff some return statement is reached (all the
    conditions known to hold there are true) and returns true; None if it cannot be determined"""
    rets = []
    walk(fn["body"], lambda n: rets.append(n) if n.get("k") == "Return" and n.get("e") is not None else None)
    unknown = False
    for r in rets:
        conds = [tt_eval(l, atom, inl) for l in reach(fn["body"], r)]
        if any(c is False for c in conds):
            continue
        v = tt_eval(r["e"], atom, inl)
        if any(c is None for c in conds) or v is None:
            unknown = True
            continue
        return v     # reached for sure: returns are mutually exclusive along one execution
    return None if unknown or not rets else False
