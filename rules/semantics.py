"""Helpers for rules that decide WHAT a function computes rather than how it is spelled: field identities through trivial
getters, truth tables of boolean functions over their return statements and the conditions under which each is reached."""
from astu import strip, strip_all, walk, txt, stmts_of, reach, tt_eval


def trivial_getters(fns):
    """pattern -> field name for member functions whose whole body is `return field_;`"""
    res = {}
    for fn in fns.values():
        b = stmts_of(fn.get("body"))
        if len(b) == 1 and b[0].get("k") == "Return" and not fn.get("params"):
            r = strip_all(b[0].get("e") or {})
            if isinstance(r, dict) and r.get("k") == "Member" and r.get("isfield") and strip(r.get("b") or {}).get("k") == "This":
                res[fn["pat"]] = r["f"]
    return res


def field_of(e, getters, other_d=None):
    """(on_other, field name) if e reads a field of this object or of the parameter with decl id other_d, directly or through a
    trivial getter; else None"""
    e = strip_all(e) if isinstance(e, dict) else {}
    if e.get("k") == "Call" and not e.get("args") and e.get("cpat") in getters:
        o = strip_all(e.get("obj") or {"k": "This"})
        if o.get("k") == "This":
            return (False, getters[e["cpat"]])
        if o.get("k") == "Ref" and o.get("d") == other_d:
            return (True, getters[e["cpat"]])
        return None
    if e.get("k") == "Member" and e.get("isfield"):
        o = strip_all(e.get("b") or {"k": "This"})
        if o.get("k") == "This":
            return (False, e["f"])
        if o.get("k") == "Ref" and o.get("d") == other_d:
            return (True, e["f"])
    return None


def degetter(n, getters):
    """copy of n in which calls of trivial getters are replaced by the field they return"""
    if isinstance(n, list):
        return [degetter(x, getters) for x in n]
    if not isinstance(n, dict):
        return n
    if n.get("k") == "Call" and n.get("cpat") in getters and not n.get("args"):
        return {"k": "Member", "b": degetter(n.get("obj"), getters) if n.get("obj") is not None else {"k": "This"}, "f": getters[n["cpat"]], "isfield": True, "t": n.get("t")}
    return {k: degetter(v, getters) for k, v in n.items()}


def bool_fn_value(fn, atom, inl=None):
    """value of a bool-returning function under an assignment of atoms: true iff some return statement is reached (all the
    conditions known to hold there are true) and returns true; None if it cannot be determined"""
    rets = []
    walk(fn["body"], lambda n: rets.append(n) if n.get("k") == "Return" and n.get("e") is not None else None)
    unknown = False
    for r in rets:
        conds = [tt_eval(l, atom, inl) for l in reach(fn["body"], r)]
        if any(c is False for c in conds):
            continue
        v = tt_eval(r["e"], atom, inl)
        if any(c is None for c in conds) or v is None:
            unknown = True
            continue
        return v     # reached for sure: returns are mutually exclusive along one execution
    return None if unknown or not rets else False


def symbolic_return(fn, values=False, params=False):
    """canonical text of the value returned by a straight-line function: declarations and plain assignments at the top level of
    the body are substituted in program order (so `T r = a; r = max(r, b); return r;`, `return max(a, b);` and any naming /
    hoisting in between print the same); throwing guards and early `return` guards are skipped; a local written anywhere else
    (inside a loop or a branch) makes the result unknown ('?')"""
    import astu
    if values and not astu._VALUES[0]:
        astu._VALUES[0] = True
        try:
            return symbolic_return(fn, values=True, params=params)
        finally:
            astu._VALUES[0] = False
    env = {}
    dirty = set()
    if params:
        # parameters read as p0, p1, ..: their names do not matter either
        for i, pm in enumerate(fn.get("params") or []):
            if "d" in pm:
                env[pm["d"]] = _frozen("p%d" % i)

    def sub(e):
        return astu.txt(e, env)
    body = stmts_of(fn.get("body"))
    nested_writes = set()
    for s in body:
        if s.get("k") in ("Decl", "Expr", "Return"):
            continue

        def w(n):
            if n.get("k") == "Assign" and strip(n["l"]).get("k") == "Ref":
                nested_writes.add(strip(n["l"])["d"])
            if n.get("k") == "Un" and n.get("op") in ("++", "--") and strip(n.get("e") or {}).get("k") == "Ref":
                nested_writes.add(strip(n["e"])["d"])
        walk(s, w)
    out = None
    for s in body:
        k = s.get("k")
        if k == "Decl":
            for v in s.get("vars", []):
                if "d" in v and v.get("init") is not None:
                    env[v["d"]] = _frozen(sub(v["init"]))
        elif k == "Expr":
            e = strip(s.get("e"))
            if isinstance(e, dict) and e.get("k") == "Assign" and strip(e["l"]).get("k") == "Ref":
                d = strip(e["l"])["d"]
                if e.get("op") == "=":
                    env[d] = _frozen(sub(e["r"]))
                else:
                    env[d] = _frozen("(%s%s%s)" % (sub(e["l"]), e["op"][:-1], sub(e["r"])))
        elif k == "Return" and s.get("e") is not None:
            bad = [d for d in nested_writes if any(x.get("d") == d for x in _refs(s["e"], env))]
            out = "?" if bad else sub(s["e"])
    old = astu._VALUES[0]
    return astu.C(out) if out is not None else None


def _frozen(text):
    """a synthetic node that prints as the given text (used as an inlining value)"""
    return {"k": "Ref", "n": text, "d": None, "dk": "synthetic"}


def _refs(e, env):
    out = []
    walk(e, lambda x: out.append(x) if x.get("k") == "Ref" else None)
    return out


def return_cases(fn, inl=None):
    """[(sorted canonical condition texts, canonical value text)] over the return statements of fn, a `c ? a : b` in a returned
    expression split into two cases: `if (c) return a; return b;` and `return c ? a : b;` give the same cases"""
    import astu
    rets = []
    walk(fn["body"], lambda n: rets.append(n) if n.get("k") == "Return" and n.get("e") is not None else None)
    out = []

    def split(e, conds):
        s = strip_all(e)
        if inl and s.get("k") == "Ref" and s.get("d") in inl:
            return split(inl[s["d"]], conds)
        if s.get("k") == "Cond":
            split(s["a"], conds + [astu.C(astu.txt(l, inl)) for l in astu.literals(s["c"])])
            split(s["e"], conds + [astu.C(astu.txt(l, inl)) for l in astu.negate(s["c"])])
            return
        out.append((sorted(set(conds)), astu.C(astu.txt(e, inl))))
    for r in rets:
        base = [astu.C(astu.txt(l, inl)) for l in reach(fn["body"], r)]
        split(r["e"], base)
    return sorted(out)
