"""Reader path-consistency (contradiction rule): a value read from the image into a local that is USED on some returning
path of the reader must be used on EVERY returning path that follows the read.  (An early `return sketch;` placed after
total_weight/offset were read but before they are stored restores a sketch without them.)"""
from astu import C, ctxt, gt_pair, eq_const, reach, reach_txt, ctext, strip, strip_all, walk, txt, short, stmts_of, functions_by
from flow import Flow
from vlib.core import ob

READER_NAMES = ("deserialize", "deserialize_items", "deserialize_array", "deserialize_compat", "parse", "newList", "newSet", "newHll", "internal_deserialize_or_wrap",
                "deserialize_v1", "deserialize_v2", "deserialize_v3", "deserialize_v4")


class ReadFlow(Flow):
    def __init__(self):
        super().__init__(None)
        self.read_sites = {}
        self.used_somewhere = set()
        self.first_use = {}
        self.empty_vars = set()
        self.returns = []     # (loc, pending frozenset)

    @staticmethod
    def line(loc):
        try:
            return int(str(loc).split(":")[1])
        except Exception:
            return 10 ** 9

    def refs(self, e, skip=()):
        out = set()

        def v(n):
            if n.get("k") == "Ref" and n.get("dk") == "local" and id(n) not in skip:
                out.add(n["d"])
                ln = self.line(n.get("loc"))
                if ln < self.first_use.get(n["d"], 10 ** 9):
                    self.first_use[n["d"]] = ln
        walk(e, v)
        return out

    @staticmethod
    def mentions_empty_flag(e):
        names = []
        walk(e, lambda n: names.append((n.get("n") or n.get("f") or "")) if n.get("k") in ("Ref", "Member") else None)
        return any("EMPTY" in x.upper() for x in names) and any("flag" in x.lower() for x in names)

    def is_empty_flag_test(self, c):
        c = strip(c)
        if c.get("k") == "Ref" and c.get("d") in self.empty_vars:
            return True
        return self.mentions_empty_flag(c)

    def effects(self, e):
        """(reads, uses) of an expression"""
        reads, skip = set(), set()

        def v(n):
            if n.get("k") == "Call" and (n.get("callee") or "") == "datasketches::copy_from_mem" and len(n.get("args", [])) == 2:
                d = strip(n["args"][1])
                if d.get("k") == "Ref" and d.get("dk") == "local":
                    reads.add(d["d"])
                    skip.add(id(d))
                    self.read_sites.setdefault(d["d"], (d["n"], n.get("loc")))
            if n.get("k") == "Assign" and n.get("op") == "=":
                l = strip(n["l"])
                r = strip_all(n["r"])
                if l.get("k") == "Ref" and l.get("dk") == "local" and r.get("k") == "Call" and (r.get("callee") or "").startswith("datasketches::read"):
                    reads.add(l["d"])
                    skip.add(id(l))
                    self.read_sites.setdefault(l["d"], (l["n"], n.get("loc")))
        walk(e, v)
        uses = self.refs(e, skip)
        return reads, uses

    def expr(self, e, states):
        if e is None:
            return states
        reads, uses = self.effects(e)
        self.used_somewhere |= uses
        return {frozenset((s - uses) | reads) for s in states}

    def stmt(self, s, states):
        if s is not None and s.get("k") == "Decl":
            cur = states
            for v in s.get("vars", []):
                ini = v.get("init")
                if ini is None:
                    continue
                if v.get("t") in ("bool", "const bool") and self.mentions_empty_flag(ini):
                    self.empty_vars.add(v["d"])
                cur = self.expr(ini, cur)
                i0 = strip_all(ini)
                if i0.get("k") == "Call" and (i0.get("callee") or "").startswith("datasketches::read") and not v["t"].endswith("*"):
                    self.read_sites.setdefault(v["d"], (v["n"], v.get("loc")))
                    cur = {frozenset(x | {v["d"]}) for x in cur}
            return cur
        if s is not None and s.get("k") == "If" and self.is_empty_flag_test(s["c"]) and s.get("e") is None:
            # `if (is_empty) return <empty object>;` after the fixed preamble: an empty image has no further content
            saved = self.returns
            self.returns = []
            r = super().stmt(s, states)
            self.returns = saved
            return r
        if s is not None and s.get("k") == "Return":
            cur = self.expr(s.get("e"), states)
            for x in cur:
                self.returns.append((s.get("loc"), x))
            self.exits |= cur
            return set()
        return super().stmt(s, states)


def obligations(facts):
    fns = functions_by(facts)
    out = []
    for pat, fn in sorted(fns.items()):
        if fn["name"] not in READER_NAMES or fn["ret"] == "void" or not fn["params"]:
            continue
        p0 = fn["params"][0]["t"]
        if not (("basic_istream" in " ".join(p["t"] for p in fn["params"])) or p0.startswith("const void") or p0.startswith("void") or p0.startswith("const unsigned char")):
            continue
        F = ReadFlow()
        try:
            fall = F.stmt(fn["body"], {frozenset()})
        except RecursionError:
            continue
        for x in fall:
            F.returns.append((fn["pat"], x))
        if not F.read_sites:
            continue
        bad = {}
        for loc, pending in F.returns:
            for d in pending:
                # an early return placed between the read and the (first) use of the value
                if d in F.used_somewhere and F.line(loc) < F.first_use.get(d, 0) and F.line(loc) > F.line(F.read_sites[d][1]):
                    bad.setdefault(d, set()).add(loc)
        for d, (name, rloc) in sorted(F.read_sites.items(), key=lambda kv: kv[1][0]):
            key = "%s(%s):%s-used-on-all-paths" % (short(fn["patq"]), "stream" if "basic_istream" in " ".join(p["t"] for p in fn["params"]) else "bytes", name)
            if d not in F.used_somewhere:
                out.append(ob("reader.dead-read", key, rloc or fn["pat"], "info", "`%s` is read from the image and never used (reserved / legacy field)" % name, fn["qname"]))
            elif d in bad:
                out.append(ob("reader.dead-read", key, sorted(bad[d])[0], "violated", "`%s` is read from the image and used further down, but the return at %s lies between the read and that use: on this path the restored object silently lacks that part of the image" % (name, ", ".join(sorted(bad[d]))), fn["qname"]))
            else:
                out.append(ob("reader.dead-read", key, rloc or fn["pat"], "discharged", "no return lies between the read of `%s` and its use" % name, fn["qname"]))
    return out
