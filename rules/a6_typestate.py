#!/usr/bin/env python3
"""A6 prototype: dirty-flag discipline via transitive field effect summaries over the resolved call graph.

HLL : derived fields {curMin_, numAtCurMin_, kxq0_, kxq1_} of HllArray are stale after mergeHll until
      check_rebuild_kxq_cur_min(); every path in hll_union_alloc that reaches a reader of a derived field
      must pass through the refresher first.
Bloom: every method whose effects include a write to *bit_array_ must (a) be guarded by is_read_only_ and
      (b) reach update_num_bits_set (write-through of the mirror word) before returning.
"""
import json, sys, glob


def strip(e):
    while isinstance(e, dict) and e.get("k") == "Cast":
        e = e["e"]
    return e


def walk(n, f, in_lambda=False):
    if isinstance(n, dict):
        f(n)
        for k, v in n.items():
            walk(v, f)
    elif isinstance(n, list):
        for v in n:
            walk(v, f)


class Effects:
    def __init__(self, fns):
        self.fns = fns
        self.by_pat = {}
        for fn in fns:
            self.by_pat.setdefault(fn["pat"], fn)
        # virtual overriders by (method name, #params) within datasketches
        self.by_name = {}
        for fn in fns:
            if fn.get("rect"):
                self.by_name.setdefault((fn["name"], len(fn["params"])), []).append(fn)
        self.direct = {}
        for pat, fn in self.by_pat.items():
            reads, writes, calls = set(), set(), []

            def visit(n):
                k = n.get("k")
                if k == "Member" and n.get("isfield"):
                    reads.add((n["rec"], n["f"]))
                if k == "Assign":
                    l = strip(n["l"])
                    if l.get("k") == "Member" and l.get("isfield"):
                        writes.add((l["rec"], l["f"]))
                    if l.get("k") == "Index" or (l.get("k") == "Un" and l.get("op") == "*"):
                        b = strip(l.get("b") or l.get("e"))
                        if b.get("k") == "Member" and b.get("isfield"):
                            writes.add((b["rec"], "*" + b["f"]))
                        if b.get("k") == "Ref" and b.get("dk") == "param":
                            writes.add(("param", "*" + b["n"]))
                if k == "Un" and n.get("op") in ("++", "--"):
                    l = strip(n["e"])
                    if l.get("k") == "Member" and l.get("isfield"):
                        writes.add((l["rec"], l["f"]))
                if k in ("Call", "OpCall") and n.get("cpat"):
                    calls.append(n)
            walk(fn["body"], visit)
            self.direct[pat] = (reads, writes, calls)
        self.memo = {}

    def targets(self, call):
        """possible callee patterns (virtual dispatch -> all same-named methods in the hierarchy)"""
        res = []
        cp = call.get("cpat")
        if cp in self.by_pat:
            res.append(cp)
        if call.get("cvirtual"):
            for fn in self.by_name.get((call.get("cname"), len(call.get("args", []))), []):
                if fn["pat"] not in res and fn.get("virtual"):
                    res.append(fn["pat"])
        return res

    def trans(self, pat, stack=()):
        if pat in self.memo:
            return self.memo[pat]
        if pat in stack or pat not in self.direct:
            return (set(), set())
        r, w, calls = self.direct[pat]
        R, W = set(r), set(w)
        for c in calls:
            for t in self.targets(c):
                r2, w2 = self.trans(t, stack + (pat,))
                R |= r2
                W |= w2
                # writes through pointer params: bit_array_ops::set_bit(bit_array_, i) writes *array -> map to arg field
                for (rec, f) in w2:
                    if rec == "param" and f.startswith("*"):
                        callee = self.by_pat[t]
                        for p, a in zip(callee["params"], c.get("args", [])):
                            if "*" + p["n"] == f:
                                a = strip(a)
                                if a.get("k") == "Member" and a.get("isfield"):
                                    W.add((a["rec"], "*" + a["f"]))
        self.memo[pat] = (R, W)
        return R, W


def must_precede(fn, body, is_target, is_refresher, E):
    """structured must-pass-through: returns list of target call sites reachable without a preceding refresher."""
    bad = []

    def stmts(s, refreshed):
        """returns refreshed-state set after s (set of booleans), records violations"""
        if s is None:
            return refreshed
        k = s["k"]
        if k == "Block":
            cur = refreshed
            for c in s["s"]:
                cur = stmts(c, cur)
                if not cur:
                    break
            return cur
        if k in ("Expr", "Decl", "Return"):
            es = [s.get("e")] if k != "Decl" else [v.get("init") for v in s["vars"]]
            cur = set(refreshed)
            for e in es:
                cur = expr(e, cur)
            return set() if k == "Return" or (k == "Expr" and s["e"].get("k") == "Throw") else cur
        if k == "If":
            cur = expr(s["c"], set(refreshed))
            return stmts(s["t"], set(cur)) | (stmts(s.get("e"), set(cur)) if s.get("e") else cur)
        if k in ("For", "While", "Do", "RangeFor"):
            cur = set(refreshed)
            for e in (s.get("c"), s.get("range")):
                if e:
                    cur = expr(e, cur)
            b = stmts(s["b"], set(cur))
            return cur | b
        if k in ("Switch",):
            return stmts(s["b"], refreshed) | refreshed
        if k in ("Case", "Default"):
            return stmts(s["s"], refreshed)
        return refreshed

    def expr(e, cur):
        calls = []
        walk(e, lambda n: calls.append(n) if n.get("k") in ("Call", "OpCall", "Construct") else None)
        for c in calls:
            if is_refresher(c):
                cur = {True}
            elif is_target(c):
                if False in cur:
                    bad.append(c)
        return cur
    stmts(body, {False})
    return bad


def main():
    files = sys.argv[1:] or sorted(glob.glob("/root/verif-proto/facts/*.json"))
    fns = []
    for f in files:
        fns += json.load(open(f))["functions"]
    E = Effects(fns)

    print("== HLL: rebuild_kxq_curmin_ discipline inside hll_union_alloc")
    derived = {("datasketches::HllArray", f) for f in ("curMin_", "numAtCurMin_", "kxq0_", "kxq1_")}
    refresher_pats = {fn["pat"] for fn in fns if fn["name"] == "check_rebuild_kxq_cur_min"}
    replay_pats = {fn["pat"] for fn in fns if fn["name"] in ("copyAs",) and "HllArray" in (fn.get("rect") or "")}

    def reads_derived(call):
        for t in E.targets(call):
            if t in refresher_pats or t in replay_pats:
                continue
            R, W = E.trans(t)
            if R & derived:
                return True
        return False
    seen = set()
    for fn in fns:
        if fn.get("rect") != "datasketches::hll_union_alloc" or fn["pat"] in seen:
            continue
        seen.add(fn["pat"])
        bad = must_precede(fn, fn["body"], lambda c: c.get("k") != "Construct" and reads_derived(c), lambda c: c.get("cpat") in refresher_pats, E)
        # filter: ignore calls made on `sketch` parameter objects (inputs are never dirty) : receiver must be gadget_/dst_impl
        def on_gadget(c):
            o = strip(c.get("obj") or {})
            txt = json.dumps(o)
            return "gadget_" in txt or "dst_impl" in txt
        bad = [c for c in bad if on_gadget(c)]
        if bad:
            print("  %-40s %s" % (fn["name"], fn["pat"].split("/")[-1]))
            for c in bad:
                print("        reads stale-able state without refresh: %s at %s" % (c.get("callee", "")[-60:], c["loc"].split("/")[-1]))

    print("\n== Bloom: writers of *bit_array_ : read-only guard and write-through")
    bloom = [fn for fn in fns if fn.get("rect") == "datasketches::bloom_filter_alloc"]
    seen = set()
    upd = {fn["pat"] for fn in bloom if fn["name"] == "update_num_bits_set"}
    for fn in bloom:
        if fn["pat"] in seen or fn["kind"] in ("ctor", "dtor") or fn.get("special"):
            continue
        seen.add(fn["pat"])
        R, W = E.trans(fn["pat"])
        if ("datasketches::bloom_filter_alloc", "*bit_array_") not in W:
            continue
        direct_w = ("datasketches::bloom_filter_alloc", "*bit_array_") in E.direct[fn["pat"]][1] or any(
            ("param", "*array") in E.trans(t)[1] or ("param", "*tgt") in E.trans(t)[1] for c in E.direct[fn["pat"]][2] for t in E.targets(c) if E.by_pat[t].get("rect") is None)
        if not direct_w:
            continue  # only the methods that write themselves (callers inherit)
        # read-only guard: an `if (is_read_only_) throw` anywhere before the first write
        guard = []
        walk(fn["body"], lambda n: guard.append(1) if n.get("k") == "If" and "is_read_only_" in json.dumps(n["c"]) and "Throw" in json.dumps(n["t"]) else None)
        # write-through: calls update_num_bits_set or writes memory_
        wt = any(c.get("cpat") in upd for c in E.direct[fn["pat"]][2]) or ("datasketches::bloom_filter_alloc", "*memory_") in W
        print("  %-32s guard=%-5s write-through=%-5s %s" % (fn["name"], bool(guard), wt, fn["pat"].split("/")[-1]))


if __name__ == "__main__":
    main()
